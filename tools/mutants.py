#!/venv/bin/python
"""Sensitivity self-test: apply each mutant of mutants/*.json ({"name": "Cxx-...", "file":
"src/deepali/...", "old": "...", "new": "..."}; `old` must occur exactly once) to a scratch worktree
of /repo (under /tmp, removed afterwards), run the quick check of that property against the copy
(PYTHONPATH override of the editable install) and expect exit code 1.

usage: tools/mutants.py [Cxx ...] [--tier quick] [--jobs 4] [--keep-going]
Not a registered check: it never touches /repo and its result is reported in DESIGN.md.
"""
import argparse
import concurrent.futures as cf
import glob
import os
import shutil
import subprocess
import sys
import tempfile

ROOT = os.path.dirname(os.path.dirname(os.path.abspath(__file__)))


def add_worktree(wt):
    """`git worktree add` with retries (concurrent invocations contend for the repository lock)."""
    import time as _t
    err = None
    for attempt in range(8):
        r = subprocess.run(["git", "-C", "/repo", "worktree", "add", "--detach", "-f", wt], capture_output=True, text=True)
        if r.returncode == 0:
            return
        err = r.stderr
        subprocess.run(["git", "-C", "/repo", "worktree", "prune"], capture_output=True)
        _t.sleep(1.5 * (attempt + 1))
    raise RuntimeError("git worktree add failed: " + str(err))


def run_one(spec, tier, extra):
    name = spec["name"]
    prop = name.split("-")[0]
    tmp = tempfile.mkdtemp(prefix="mut_", dir="/tmp")
    try:
        add_worktree(os.path.join(tmp, "wt"))
        wt = os.path.join(tmp, "wt")
        # bring uncommitted changes of /repo along (checks must reflect the working tree)
        diff = subprocess.run(["git", "-C", "/repo", "diff", "HEAD"], capture_output=True, text=True).stdout
        if diff.strip():
            subprocess.run(["git", "-C", wt, "apply"], input=diff, text=True, check=True)
        edits = spec.get("edits") or [spec]
        for e in edits:
            fp = os.path.join(wt, e["file"])
            src = open(fp).read()
            if src.count(e["old"]) != 1:
                return name, "PATCH-FAILED", f"{e['file']}: 'old' occurs {src.count(e['old'])} times"
            open(fp, "w").write(src.replace(e["old"], e["new"]))
        env = dict(os.environ, PYTHONPATH=os.path.join(wt, "src"), VERIF_NO_SHRINK="1", VERIF_QUICK_CAP=os.environ.get("VERIF_QUICK_CAP", "1800"),
                   VERIF_REPLAY_SUBDIR=os.path.join(tmp, "replays"))
        cmd = [os.path.join(ROOT, "check"), prop, "--tier", tier, "--no-evidence"] + extra
        p = subprocess.run(cmd, env=env, capture_output=True, text=True)
        out = p.stdout + p.stderr
        kinds = [ln.strip() for ln in out.splitlines() if ln.strip().startswith("violation [")]
        if "deepali_root" in out:
            pass
        status = {0: "MISSED", 1: "CAUGHT", 2: "HARNESS-ERROR"}.get(p.returncode, f"EXIT{p.returncode}")
        if p.returncode == 0 and "INCONCLUSIVE" in out:
            status = "INCONCLUSIVE"
        return name, status, "; ".join(k[:160] for k in kinds[:3]) if kinds else out[-300:]
    finally:
        subprocess.run(["git", "-C", "/repo", "worktree", "remove", "--force", os.path.join(tmp, "wt")], capture_output=True)
        shutil.rmtree(tmp, ignore_errors=True)
        subprocess.run(["git", "-C", "/repo", "worktree", "prune"], capture_output=True)


RESULTS = {}


def main():
    ap = argparse.ArgumentParser()
    ap.add_argument("props", nargs="*")
    ap.add_argument("--tier", default="quick")
    ap.add_argument("--jobs", type=int, default=3)
    ap.add_argument("--match", default="")
    args, extra = ap.parse_known_args()
    import json

    patches = []
    for f in sorted(glob.glob(os.path.join(ROOT, "mutants", "*.json"))):
        patches.extend(json.load(open(f)))
    if args.props:
        patches = [p for p in patches if p["name"].split("-")[0] in [x.upper() for x in args.props]]
    if args.match:
        patches = [p for p in patches if args.match in p["name"]]
    bad = 0
    with cf.ThreadPoolExecutor(args.jobs) as ex:
        for name, status, info in ex.map(lambda p: run_one(p, args.tier, extra), patches):
            print(f"{status:14s} {name}: {info}")
            RESULTS[name] = status
            sys.stdout.flush()
            bad += status != "CAUGHT"
    print(f"{len(patches) - bad}/{len(patches)} mutants caught")
    rp = os.path.join(ROOT, "mutants", "results.txt")
    old = {}
    if os.path.exists(rp):
        for ln in open(rp):
            k, _, v = ln.strip().partition(" ")
            old[k] = v
    old.update(RESULTS)
    with open(rp, "w") as f:
        for k in sorted(old):
            f.write(f"{k} {old[k]}\n")
    # remove replay files written by mutant runs
    return 1 if bad else 0


if __name__ == "__main__":
    sys.exit(main())
