#!/bin/sh
# tools/finalize.sh Cxx : run the quick check (writes evidence), validate evidence, claim the property, regenerate MANIFEST, commit.
set -e
P=$1; p=$(echo $P | tr 'A-Z' 'a-z')
cd "$(dirname "$0")/.."
./check $P --tier quick > /tmp/finalize_$P.log 2>&1 || { tail -20 /tmp/finalize_$P.log; echo "check $P does not exit 0"; exit 1; }
tail -1 /tmp/finalize_$P.log
python3-vt -c "
import json, jsonschema
jsonschema.validate(json.load(open('/verif/evidence/$P.json')), json.load(open('/root/.vp/EVIDENCE.schema.json')))"
grep -qx $P tools/claimed.txt || echo $P >> tools/claimed.txt
sort -o tools/claimed.txt tools/claimed.txt
python3 tools/mkmanifest.py
python3-vt -c "
import json, jsonschema
jsonschema.validate(json.load(open('/verif/MANIFEST.json')), json.load(open('/root/.vp/MANIFEST.schema.json')))"
git add props/$p.py mutants/$p.json evidence/$P.json tools/claimed.txt MANIFEST.json known_findings.json
[ -d regressions/$P ] && git add regressions/$P
[ -d fixes/$P ] && git add fixes/$P
ls vlib/ref_$p.py >/dev/null 2>&1 && git add vlib/ref_$p.py
git commit -qm "$P: check claimed (module, mutants, regressions, fixes, evidence)"
echo "finalized $P"
