#!/venv/bin/python
"""Confirm a seeded change myself: demo passes on /repo HEAD, fails with the patch, and the repository's
test-suite still passes with the patch.  Runs in a scratch worktree under /tmp (removed afterwards) and
records the outcome in seeded/<id>/meta.json ("verified")."""
import json, os, re, shutil, subprocess, sys, tempfile

ROOT = os.path.dirname(os.path.dirname(os.path.abspath(__file__)))


def add_worktree(wt):
    """`git worktree add` with retries (concurrent invocations contend for the repository lock)."""
    import time as _t
    err = None
    for attempt in range(8):
        r = subprocess.run(["git", "-C", "/repo", "worktree", "add", "--detach", "-f", wt], capture_output=True, text=True)
        if r.returncode == 0:
            return
        err = r.stderr
        subprocess.run(["git", "-C", "/repo", "worktree", "prune"], capture_output=True)
        _t.sleep(1.5 * (attempt + 1))
    raise RuntimeError("git worktree add failed: " + str(err))


def verify(sid, run_tests=True):
    d = os.path.join(ROOT, "seeded", sid)
    meta = json.load(open(os.path.join(d, "meta.json")))
    tmp = tempfile.mkdtemp(prefix="vseed_", dir="/tmp")
    wt = os.path.join(tmp, "wt")
    try:
        add_worktree(wt)
        env = dict(os.environ, PYTHONPATH=os.path.join(wt, "src"), OMP_NUM_THREADS="2")
        head = subprocess.run(["git", "-C", wt, "rev-parse", "--short", "HEAD"], capture_output=True, text=True).stdout.strip()
        r0 = subprocess.run(["/venv/bin/python", os.path.join(d, "demo.py")], env=env, capture_output=True, text=True, cwd=tmp)
        a = subprocess.run(["git", "-C", wt, "apply", "--3way", os.path.join(d, "patch.diff")], capture_output=True, text=True)
        if a.returncode:
            a = subprocess.run(["git", "-C", wt, "apply", os.path.join(d, "patch.diff")], capture_output=True, text=True)
        if a.returncode:
            res = {"ok": False, "error": "patch does not apply: " + a.stderr[:200], "repo_head": head}
        else:
            r1 = subprocess.run(["/venv/bin/python", os.path.join(d, "demo.py")], env=env, capture_output=True, text=True, cwd=tmp)
            res = {"repo_head": head, "demo_without_patch_exit": r0.returncode, "demo_with_patch_exit": r1.returncode}
            if run_tests:
                t = subprocess.run(["/venv/bin/python", "-m", "pytest", "-q", "-p", "no:cacheprovider", "--timeout=1800", "tests"],
                                   env=env, capture_output=True, text=True, cwd=wt)
                tail = t.stdout.strip().splitlines()[-1] if t.stdout.strip() else ""
                m = re.search(r"(\d+) passed", tail)
                res["tests_with_patch"] = tail
                res["tests_passed"] = int(m.group(1)) if m else 0
                res["tests_exit"] = t.returncode
            res["ok"] = (r0.returncode == 0 and r1.returncode != 0 and (not run_tests or (res["tests_exit"] == 0 and res["tests_passed"] >= 88)))
        meta["verified"] = res
        json.dump(meta, open(os.path.join(d, "meta.json"), "w"), indent=1)
        return sid, res
    finally:
        subprocess.run(["git", "-C", "/repo", "worktree", "remove", "--force", wt], capture_output=True)
        shutil.rmtree(tmp, ignore_errors=True)
        subprocess.run(["git", "-C", "/repo", "worktree", "prune"], capture_output=True)


if __name__ == "__main__":
    ids = [a for a in sys.argv[1:] if not a.startswith("--")]
    for sid in ids:
        print(*verify(sid, "--no-tests" not in sys.argv))
        sys.stdout.flush()
