#!/bin/sh
# run the thorough tier of every claimed property sequentially (no evidence written); one summary line each
cd "$(dirname "$0")/.."
for p in ${@:-$(cat tools/claimed.txt)}; do
  out=$(VERIF_REPLAY_SUBDIR=/tmp/thorough_replays ./check $p --tier thorough --no-evidence 2>&1); rc=$?
  echo "$p rc=$rc $(echo "$out" | grep -c INCONCLUSIVE) inconclusive :: $(echo "$out" | tail -1)"
  [ $rc -ne 0 ] && echo "$out" | grep "violation \[\|HARNESS\|VIOLATION" | head -8
done
