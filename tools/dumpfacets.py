"""Print a JSON table of all facets (name, budgets, rule, exhaustive tiers) of all property modules."""
import importlib, json, os, sys, warnings
warnings.filterwarnings("ignore")
ROOT = os.path.dirname(os.path.dirname(os.path.abspath(__file__)))
sys.path.insert(0, ROOT)
out = {}
for i in range(1, 21):
    pid = f"C{i:02d}"
    try:
        mod = importlib.import_module(f"props.{pid.lower()}")
    except Exception as e:  # noqa
        out[pid] = {"error": repr(e)}
        continue
    out[pid] = {"technique": mod.MANIFEST.get("technique", ""), "facets": [
        {"name": f.name, "quick": f.quick, "thorough": f.thorough, "enumerated": f.enumerate is not None,
         "exhaustive_tiers": list(f.exhaustive_tiers), "stateful": f.machine is not None, "rule": f.rule} for f in mod.FACETS]}
json.dump(out, sys.stdout)
