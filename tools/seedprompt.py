#!/usr/bin/env python3
"""Print the brief given to an independent sub-agent that writes seeded breaking changes for one property.
The brief contains only the property text and a scratch worktree path - nothing from /verif."""
import glob
import json
import os
import sys

args = [a for a in sys.argv[1:] if not a.startswith("--")]
pid = args[0]
n = args[1] if len(args) > 1 else ""
HARD = "--hard" in sys.argv  # later rounds: list earlier changes (one line each) and ask for subtler ones
wt = f"/tmp/seed_{pid}{n}"
p = [json.loads(l) for l in open("/verif/properties.jsonl") if json.loads(l)["id"] == pid][0]
print(f"""You are helping evaluate a verification effort for the open-source PyTorch library BioMedIA/deepali (image / point-set registration: oriented sampling grids, coordinate transforms, flow fields, B-splines, registration losses). You have your own scratch git worktree of the repository at {wt} (a checkout of the current code). Work ONLY inside that directory and {wt}_out (create it) for your deliverables. Do NOT read or write anything under /verif or /repo. Python: /venv/bin/python; the package is installed editable from another checkout, so ALWAYS run with PYTHONPATH={wt}/src so that your worktree's code is what gets imported (verify once: `PYTHONPATH={wt}/src /venv/bin/python -c "import deepali.core; print(deepali.core.__file__)"` must print a path under {wt}).

PROPERTY {pid} (holds, or is intended to hold, for the unmodified code): {p['title']}
{p['statement']}
Quantified over: {p['quantifier']['text']}

TASK: produce TWO independent, realistic code changes to the library (each a separate small patch against the worktree's HEAD, of the kind a maintainer might introduce by mistake during a refactor, clean-up or "optimisation"), each of which BREAKS this property while (a) the package still imports and (b) the existing test-suite still passes: `cd {wt} && PYTHONPATH={wt}/src /venv/bin/python -m pytest -q -p no:cacheprovider --timeout=900 tests` (88 tests pass on the unmodified code; the machine is shared and heavily loaded: ALWAYS export OMP_NUM_THREADS=1 MKL_NUM_THREADS=1 before running python or pytest and call torch.set_num_threads(1) in your scripts, otherwise runs can hang for many minutes). Prefer changes that need something SPECIFIC to manifest - an unusual but valid input (a particular size parity, an anisotropic AND rotated grid, align_corners=False, batch size > 1, a particular argument form or dtype), a multi-step sequence of operations, or two cooperating sites that each look fine alone - rather than changes that ordinary use would expose at once. The two changes must differ in kind and location. First check with a small script that the behaviour you are about to break is actually correct on the unmodified code (the library has bugs of its own in untested paths; do not build on one).

For each change i in {{1, 2}} deliver in {wt}_out/<i>/: `patch.diff` (output of `git diff` in the worktree with ONLY that change applied), `demo.py` (a small stand-alone program that exits 0 and prints PASS on the unmodified code and exits 1 and prints FAIL with the change applied - run it both ways yourself with PYTHONPATH set), and `meta.json` with keys "property" ("{pid}"), "what" (one-line description of the change), "needs" (what is needed for it to manifest), "ran" (the commands you ran and their outcomes: test-suite passed with the change, demo fails with / passes without). Never use `git stash` (the stash is shared between all worktrees of the repository; other people work in sibling worktrees) - save your diff to a file and use `git apply` / `git apply -R` / `git checkout -- .` instead. Leave the worktree clean (`git checkout -- .`) when done. Finish with a brief report (what each change is, where, what it needs to manifest).""", end="")
if HARD:
    prev = []
    for f in sorted(glob.glob(os.path.join("/verif/seeded", pid + "-*", "meta.json"))):
        prev.append("- " + json.load(open(f))["what"][:300])
    print(f"""

{len(prev)} changes were already contributed by others for this property; choose DIFFERENT locations and mechanisms than these:
""" + "\n".join(prev) + """

For this round, make the changes HARDER to notice than a plain wrong formula: prefer (a) changes that only matter after a particular multi-step sequence of public API calls (state carried between calls, caches/buffers, shared objects), (b) two cooperating edits in different functions/files that each look harmless alone, (c) changes that are only wrong for a narrow but valid class of inputs (a specific size parity or size-1 axis, a degenerate-but-valid parameter value, a particular dtype/device/memory layout, an argument passed in an alternative documented form such as tuple vs tensor vs keyword), or (d) changes whose effect is small in magnitude (a few percent, or at the 1e-4 .. 1e-6 level in float64) but systematic. Avoid changes that any single ordinary call with default arguments would expose.""")
else:
    print()
