#!/bin/sh
# tools/quiet.sh "<seeds>" [props...] : run quick checks at several seeds on the unchanged tree, print one line each.
cd "$(dirname "$0")/.."
SEEDS=$1; shift
PROPS=${@:-$(cat tools/claimed.txt)}
for s in $SEEDS; do for p in $PROPS; do
  out=$(VERIF_SEED=$s VERIF_REPLAY_SUBDIR=/tmp/quiet_replays ./check $p --no-evidence 2>&1); rc=$?
  echo "seed=$s $p rc=$rc $(echo "$out" | grep -c '^VIOLATION') violations $(echo "$out" | grep -c INCONCLUSIVE) inconclusive $(echo "$out" | tail -1)"
  [ $rc -ne 0 ] && echo "$out" | grep "violation \[\|HARNESS" | head -5
done; done
