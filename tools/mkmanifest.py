#!/usr/bin/env python3
"""Regenerate MANIFEST.json from the list of built property modules (props/cXX.py)."""
import json
import os

ROOT = os.path.dirname(os.path.dirname(os.path.abspath(__file__)))
props = [json.loads(l) for l in open(os.path.join(ROOT, "properties.jsonl"))]
BASELINE = ("cd /repo && /venv/bin/python -m pytest -ra -q -p no:cacheprovider --timeout=900 "
            "--continue-on-collection-errors")
import ast


def manifest_text(pid):
    """Read the MANIFEST = {...} literal of props/<pid>.py without importing it."""
    path = os.path.join(ROOT, "props", pid.lower() + ".py")
    if not os.path.exists(path):
        return None
    tree = ast.parse(open(path).read())
    for node in tree.body:
        if isinstance(node, ast.Assign) and any(getattr(t, "id", None) == "MANIFEST" for t in node.targets):
            return ast.literal_eval(node.value)
    return None


CLAIMED = set(open(os.path.join(ROOT, "tools", "claimed.txt")).read().split())
TEXT = {p["id"]: manifest_text(p["id"]) for p in props if p["id"] in CLAIMED}
TEXT = {k: v for k, v in TEXT.items() if v}
checks, na = [], []
for p in props:
    pid = p["id"]
    if os.path.exists(os.path.join(ROOT, "props", pid.lower() + ".py")) and pid in TEXT:
        t = TEXT[pid]
        checks.append({
            "property_id": pid,
            "quick_cmd": f"./check {pid} --tier quick",
            "thorough_cmd": f"./check {pid} --tier thorough",
            "evidence_file": f"/verif/evidence/{pid}.json",
            "replay_cmd_template": f"./check {pid} --replay {{path}}",
            "engine": "vlib",
            "level_claimed": {"category": "exploration", "text": t["text"], "design_ref": f"DESIGN.md section 6, {pid}"},
            "level_note": t["note"],
            "technique": t["technique"],
        })
    else:
        na.append({"property_id": pid, "reason": "check not built yet in this session (planned; see DESIGN.md section 6)"})
doc = {
    "version": 1,
    "setup_cmd": "/venv/bin/pip install --no-index --find-links /opt/veriftools/wheels hypothesis",
    "hooks": {
        "guard": "BIOMEDIA_DEEPALI_VERIF",
        "enable": "no hooks or instrumentation are needed: every oracle observes deepali through its public API; "
                  "checks import the editable install, i.e. /repo's current working tree (src/), directly",
        "baseline_off_cmd": BASELINE,
        "source_commits": [],
        "add_only": True,
    },
    "engines": [{"name": "vlib", "path": "/verif/vlib", "serves_properties": [c["property_id"] for c in checks],
                 "kind_free_text": "Hypothesis-driven facet runner (collect mode, sharded, replay files, evidence) "
                                   "with float64 numpy / SimpleITK reference models"}],
    "checks": checks,
    "not_applicable": na,
    "notes": "All checks: exit 0 held / 1 VIOLATION line / 2 harness error. VERIF_SEED selects the Hypothesis seed. "
             "known_findings.json lists recorded (known) and repaired (fixed) genuine defects.",
}
if not na:
    del doc["not_applicable"]
json.dump(doc, open(os.path.join(ROOT, "MANIFEST.json"), "w"), indent=1)
print(len(checks), "checks,", len(na), "not applicable")
