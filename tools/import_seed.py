#!/usr/bin/env python3
"""Copy a sub-agent's deliverable (<out>/<i>/{patch.diff,demo.py,meta.json}) to seeded/<Cxx>-<tag>/."""
import json, os, shutil, sys
out, tag = sys.argv[1], sys.argv[2]
ROOT = os.path.dirname(os.path.dirname(os.path.abspath(__file__)))
for i in sorted(os.listdir(out)):
    d = os.path.join(out, i)
    if not os.path.exists(os.path.join(d, "patch.diff")):
        continue
    meta = json.load(open(os.path.join(d, "meta.json")))
    dst = os.path.join(ROOT, "seeded", f"{meta['property']}-{tag}{i}")
    os.makedirs(dst, exist_ok=True)
    for f in ("patch.diff", "demo.py"):
        shutil.copy(os.path.join(d, f), dst)
    meta.setdefault("checks", [meta["property"]])
    meta["author_ran"] = meta.pop("ran", "")
    json.dump(meta, open(os.path.join(dst, "meta.json"), "w"), indent=1)
    print("imported", dst)
