#!/usr/bin/env python3
"""Apply fixes/<Cxx>/<id>.patch to /repo as one 'fix:' commit each: check, apply, run the 88 baseline tests,
commit with the message in <id>.msg, then record it in known_findings.json (status fixed) together with the
witnesses regressions/<Cxx>/<id>-*.json.   usage: tools/applyfix.py C08/F1 C08/F2 ... [--no-tests]"""
import glob, json, os, re, subprocess, sys

ROOT = os.path.dirname(os.path.dirname(os.path.abspath(__file__)))
ENV = dict(os.environ, OMP_NUM_THREADS="1", MKL_NUM_THREADS="1")


def sh(*a, **k):
    return subprocess.run(list(a), capture_output=True, text=True, **k)


def tests():
    r = sh("/venv/bin/python", "-m", "pytest", "-q", "-p", "no:cacheprovider", "--timeout=900", "-x", "tests", cwd="/repo", env=ENV)
    tail = r.stdout.strip().splitlines()[-1] if r.stdout.strip() else r.stderr[-300:]
    m = re.search(r"(\d+) passed", tail)
    return r.returncode == 0 and m and int(m.group(1)) >= 88, tail


for spec in [a for a in sys.argv[1:] if not a.startswith("--")]:
    prop, fid = spec.split("/")
    patch = os.path.join(ROOT, "fixes", prop, fid + ".patch")
    msg = open(os.path.join(ROOT, "fixes", prop, fid + ".msg")).read().strip()
    assert msg.startswith("fix:"), msg
    if sh("git", "-C", "/repo", "status", "--porcelain").stdout.strip():
        sys.exit("/repo not clean")
    r = sh("git", "-C", "/repo", "apply", "--3way", patch)
    if r.returncode:
        r = sh("git", "-C", "/repo", "apply", patch)
    if r.returncode:
        print(f"{spec}: PATCH DOES NOT APPLY: {r.stderr.strip()[:300]}")
        sh("git", "-C", "/repo", "checkout", "--", ".")
        sys.exit(1)
    if "--no-tests" not in sys.argv:
        ok, tail = tests()
        if not ok:
            print(f"{spec}: TESTS FAILED: {tail}")
            sh("git", "-C", "/repo", "checkout", "--", ".")
            sh("git", "-C", "/repo", "reset", "-q")
            sys.exit(1)
    else:
        tail = "tests skipped"
    sh("git", "-C", "/repo", "add", "-A")
    c = sh("git", "-C", "/repo", "commit", "-q", "-m", msg)
    if c.returncode:
        sys.exit(f"{spec}: commit failed {c.stderr}")
    sha = sh("git", "-C", "/repo", "rev-parse", "--short", "HEAD").stdout.strip()
    regs = sorted(os.path.relpath(p, ROOT) for p in glob.glob(os.path.join(ROOT, "regressions", prop, fid + "-*.json")))
    what = msg[4:].strip()
    k = sh(os.path.join(ROOT, "tools", "kf.py"), "fixed", prop, fid, sha, what, *regs)
    print(f"{spec}: committed {sha} ({tail}); {len(regs)} regression file(s); {k.stdout.strip()} {k.stderr.strip()}")
    sys.stdout.flush()
