#!/venv/bin/python
"""Run the registered checks against the independently written breaking changes in seeded/<id>/.

Each seeded/<id>/ holds patch.diff (against /repo), the demonstration, and meta.json
({"property": "Cxx", "needs": "...", "ran": "...", "checks": ["Cxx", ...]}).
Default mode applies the patch to a scratch worktree of /repo's HEAD under /tmp (plus /repo's
uncommitted changes) and points the checks at it with PYTHONPATH; --in-place applies it to /repo
itself (git apply) and undoes it straight afterwards (git checkout -- .).  Expected: exit 1.

usage: tools/seeded.py [id ...] [--tier quick] [--jobs 3] [--in-place]
"""
import argparse
import concurrent.futures as cf
import json
import os
import shutil
import subprocess
import sys
import tempfile

ROOT = os.path.dirname(os.path.dirname(os.path.abspath(__file__)))


def add_worktree(wt):
    """`git worktree add` with retries (concurrent invocations contend for the repository lock)."""
    import time as _t
    err = None
    for attempt in range(8):
        r = subprocess.run(["git", "-C", "/repo", "worktree", "add", "--detach", "-f", wt], capture_output=True, text=True)
        if r.returncode == 0:
            return
        err = r.stderr
        subprocess.run(["git", "-C", "/repo", "worktree", "prune"], capture_output=True)
        _t.sleep(1.5 * (attempt + 1))
    raise RuntimeError("git worktree add failed: " + str(err))


def run_checks(props, tier, env):
    res = {}
    for prop in props:
        p = subprocess.run([os.path.join(ROOT, "check"), prop, "--tier", tier, "--no-evidence"], env=env,
                           capture_output=True, text=True)
        kinds = [ln.strip()[:200] for ln in (p.stdout + p.stderr).splitlines() if ln.strip().startswith("violation [")]
        res[prop] = (p.returncode, kinds[:3])
    return res


CHECKS_OVERRIDE = None


def run_one(sid, tier, in_place):
    d = os.path.join(ROOT, "seeded", sid)
    meta = json.load(open(os.path.join(d, "meta.json")))
    props = CHECKS_OVERRIDE or meta.get("checks") or [meta["property"]]
    patch = os.path.join(d, "patch.diff")
    tmp = tempfile.mkdtemp(prefix="seed_", dir="/tmp")
    try:
        env = dict(os.environ, VERIF_NO_SHRINK="1", VERIF_QUICK_CAP=os.environ.get("VERIF_QUICK_CAP", "1800"), VERIF_REPLAY_SUBDIR=os.path.join(tmp, "replays"))
        if in_place:
            st = subprocess.run(["git", "-C", "/repo", "status", "--porcelain"], capture_output=True, text=True).stdout
            if st.strip():
                return sid, "SKIPPED", "/repo has uncommitted changes"
            r = subprocess.run(["git", "-C", "/repo", "apply", patch], capture_output=True, text=True)
            if r.returncode:
                return sid, "PATCH-FAILED", r.stderr[:300]
            try:
                res = run_checks(props, tier, env)
            finally:
                subprocess.run(["git", "-C", "/repo", "checkout", "--", "."], check=True)
        else:
            wt = os.path.join(tmp, "wt")
            add_worktree(wt)
            diff = subprocess.run(["git", "-C", "/repo", "diff", "HEAD"], capture_output=True, text=True).stdout
            if diff.strip():
                subprocess.run(["git", "-C", wt, "apply"], input=diff, text=True, check=True)
            r = subprocess.run(["git", "-C", wt, "apply", "--3way", patch], capture_output=True, text=True)
            if r.returncode:
                r = subprocess.run(["git", "-C", wt, "apply", patch], capture_output=True, text=True)
            if r.returncode:
                return sid, "PATCH-FAILED", r.stderr[:300]
            env["PYTHONPATH"] = os.path.join(wt, "src")
            res = run_checks(props, tier, env)
        caught = [p for p, (rc, _) in res.items() if rc == 1]
        err = [p for p, (rc, _) in res.items() if rc not in (0, 1)]
        status = "CAUGHT" if caught else ("HARNESS-ERROR" if err else "MISSED")
        info = "; ".join(f"{p}: rc={rc} {' | '.join(k)}" for p, (rc, k) in res.items())
        return sid, status, info
    finally:
        subprocess.run(["git", "-C", "/repo", "worktree", "remove", "--force", os.path.join(tmp, "wt")], capture_output=True)
        shutil.rmtree(tmp, ignore_errors=True)
        subprocess.run(["git", "-C", "/repo", "worktree", "prune"], capture_output=True)


def main():
    ap = argparse.ArgumentParser()
    ap.add_argument("ids", nargs="*")
    ap.add_argument("--tier", default="quick")
    ap.add_argument("--jobs", type=int, default=3)
    ap.add_argument("--in-place", action="store_true")
    ap.add_argument("--checks", default="", help="comma separated property ids to run instead of the seed's own (results not recorded)")
    a = ap.parse_args()
    global CHECKS_OVERRIDE
    if a.checks:
        CHECKS_OVERRIDE = a.checks.split(",")
    base = os.path.join(ROOT, "seeded")
    ids = a.ids or sorted(x for x in os.listdir(base) if os.path.exists(os.path.join(base, x, "meta.json")))
    bad = 0
    jobs = 1 if a.in_place else a.jobs
    respath = os.path.join(base, "results.json")
    results = json.load(open(respath)) if os.path.exists(respath) else {}
    head = subprocess.run(["git", "-C", "/repo", "rev-parse", "--short", "HEAD"], capture_output=True, text=True).stdout.strip()
    with cf.ThreadPoolExecutor(jobs) as ex:
        for sid, status, info in ex.map(lambda s: run_one(s, a.tier, a.in_place), ids):
            print(f"{status:14s} {sid}: {info[:400]}")
            sys.stdout.flush()
            bad += status != "CAUGHT"
            if not a.checks:
                results[sid] = {"status": status, "tier": a.tier, "repo_head": head, "detail": info[:300]}
    if not a.checks:
        json.dump(results, open(respath, "w"), indent=1, sort_keys=True)
    print(f"{len(ids) - bad}/{len(ids)} seeded changes caught")
    return 1 if bad else 0


if __name__ == "__main__":
    sys.exit(main())
