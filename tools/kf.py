#!/usr/bin/env python3
"""Edit known_findings.json (by hand-driven commands only; checks never write this file).

  tools/kf.py fixed  <prop> <id> <commit> "<what failed>" <regression.json> [...]
  tools/kf.py known  <prop> <id> "<what fails>" <facet|*> "<signature regex>" <witness.json> [...]
"""
import json
import os
import sys

ROOT = os.path.dirname(os.path.dirname(os.path.abspath(__file__)))
P = os.path.join(ROOT, "known_findings.json")
doc = json.load(open(P))
cmd, prop, fid = sys.argv[1:4]
doc["entries"] = [e for e in doc["entries"] if not (e["property"] == prop and e["id"] == fid)]
if cmd == "fixed":
    commit, what, regs = sys.argv[4], sys.argv[5], sys.argv[6:]
    for r in regs:
        assert os.path.exists(os.path.join(ROOT, r)), r
    doc["entries"].append({"status": "fixed", "property": prop, "id": fid, "commit": commit, "what": what,
                           "line": f"fixed: property={prop} {commit} {what}", "regression": regs})
elif cmd == "known":
    what, facet, sig, wit = sys.argv[4], sys.argv[5], sys.argv[6], sys.argv[7:]
    for r in wit:
        assert os.path.exists(os.path.join(ROOT, r)), r
    facet = facet.split(",") if "," in facet else facet
    doc["entries"].append({"status": "known", "property": prop, "id": fid, "what": what, "facet": facet,
                           "signature": sig, "witness": wit})
else:
    sys.exit("unknown command")
doc["entries"].sort(key=lambda e: (e["property"], e["id"]))
json.dump(doc, open(P, "w"), indent=1)
print(len(doc["entries"]), "entries")
