"""C19 - Batches keep one correctly aligned grid per image under tensor operations."""
from __future__ import annotations

import collections
import copy
import dataclasses
import functools
import io
import json
import math
import os
import pickle
import traceback
from typing import Any, Dict, List, Optional, Tuple

import numpy as np
import torch
import torch.nn.functional as F
from hypothesis import strategies as st

from vlib import ref
from vlib.core import EPS32, Facet, Skip, Violation
from vlib.findings import Known

PROPERTY = "C19"
MANIFEST = {
    "text": "Generated short programs (1-3 operations from a grammar of ~70 torch call forms: elementwise, reductions, "
            "indexing forms, narrow/select/index_select/take_along_dim/gather, cat/stack/split/split_with_sizes/chunk/"
            "unbind/tensor_split, flip/roll/permute/transpose/movedim, expand/repeat, reshape/view/flatten/squeeze/"
            "unsqueeze, interpolate/pool/pad/grid_sample, casts, iteration, copy/deepcopy/pickle, and the explicit builders "
            "append / from_images / batch() applied to intermediate results) are applied to ImageBatch / FlowFields / Image / "
            "FlowField objects, and in parallel to a plain-tensor shadow of item ids. The items' grids follow a generated grid "
            "plan: distinct geometries (optionally rotated), or items that share geometry and differ only in align_corners, "
            "share one Grid object, hold equal-valued distinct Grid objects, or differ in one attribute by less than the "
            "tolerance of Grid.__eq__. Grids with a history: half of the item geometries are not constructed but derived "
            "by deepali's own methods (Grid.downsample / Image.downsample of odd sizes, downsample(2), Grid.resample to a spacing "
            "that does not divide the extent, Grid.align_corners(flag)), so that the Grid stores a FRACTIONAL size (e.g. 3.5 for 4 "
            "samples) which size() rounds up and no public accessor shows; an item may also be the constructed 'integer twin' of "
            "such a grid (same public attributes, integer stored size). Whenever deepali returns one of its four types the grid "
            "count, grid shapes, per-entry grid (as told by the shadow; size, the stored float size, center, spacing, direction "
            "and align_corners compared explicitly and bit-exactly for grids that are handed on) and axes are checked, values "
            "are compared with plain torch, deep copies / pickles / clones must not share Grid objects or grid storage with "
            "their input, and exceptions raised by the dispatcher on programs plain torch accepts are reported. The grids of "
            "every copy-like result (copy, deepcopy, pickle, clone, detach, contiguous, casts) are in addition compared with "
            "those of its input pairwise: equal under Grid.__eq__, slot by slot, and Grid.upsample / Grid.downsample applied to "
            "both give identical grids. Operands are only read: after every operation the object it was applied to and every "
            "further deepali operand (and, at the end of the program, the initial objects) hold the same Grid objects - as many, "
            "same container type, unchanged slots -, the same axes and the data plain torch leaves in its operands. A second "
            "facet checks the explicit batch builders (from_images, append, batch(), iteration, collate_samples) on such grid "
            "plans (their inputs must be left unchanged too), and that flow fields with different "
            "vector axes are never merged (append, from_images, cat, collate) into one batch under a single axes label. "
            "Copies of views: the wrapped data is, in half of the random cases and in 10 survey objects, itself a view of a "
            "larger buffer (contiguous at a non-zero storage offset, strided, transposed memory, cropped; optionally an autograd "
            "leaf with requires_grad), and every survey op whose plain-torch result is a view of its input (all indexing forms, "
            "narrow/select, split chunks, iteration items, transpose-like ops, expand, detach, ...) is followed by every copy-like "
            "call form (copy.copy, _make_instance, deepcopy and pickle - each protocol 2..5, torch.save - alone, inside a "
            "container, of the same object twice, of all entries of the batch together; clone/contiguous/detach/to/type): the "
            "copy must have the type, values (equal to the plain twin), grids, axes and requires_grad flag of its input, be a "
            "new object, and deep copies / pickles / clones must own their storage. Every copy mechanism is also followed by every "
            "operation that uses the copy as one operand among several (cat as first / last operand, stack, append, binary ops, "
            "split, from_images, ...). "
            "Functions with several outputs (facet multi_output): every public function of torch, torch.Tensor, torch.nn.functional, "
            "torch.linalg, torch.fft, torch.special that dispatches through __torch_function__ is called on a plain probe tensor "
            "through 18 argument templates; the about 100 functions / 270 call forms that return a tuple, list or torch.return_types.* "
            "of tensors (max / min / median / mode / kthvalue / topk / sort / cummax / aminmax / var_mean / std_mean, unbind / chunk / "
            "split family / hsplit / vsplit / dsplit / unsafe_*, unique / unique_consecutive with inverse and counts, frexp, "
            "gradient, broadcast_tensors / atleast_nd of two batches, max_pool with indices, the torch.linalg decompositions, ...) "
            "are applied with every parameter combination plain torch accepts (dim incl. the batch dimension, keepdim, k, section "
            "lists, second operand) to batches of N = 1, 2, 3, 4 items, so that coincidences like 'the batch sizes of the outputs "
            "sum to N' or 'an output has N entries again' occur. Each OUTPUT is judged separately with an ownership model obtained "
            "by intervention on plain torch (which items does entry i of output k change with?): an entry computed from one item "
            "must carry that item's grid if the output is described at all; an entry computed from several items of one batch "
            "(reduction / selection / sorting across the batch dimension, index outputs along it) must not be described at all. "
            "Exploration, no proof: a deterministic survey of every call form plus random programs.",
    "note": "Trusted: plain torch semantics of the same calls on torch.Tensor (the shadow), the closed-form item grids "
            "(geometry k: center 100*k+10*a, spacing 1+k/2+a/4, optional x-y rotation by 0.2+0.1*k rad; float32-exact values) "
            "built in props/c19.py and that Grid(...) stores such values unchanged (asserted for every input grid). For an item "
            "whose grid has a history the expected grid is the snapshot of the five slots of the Grid object the case was built "
            "with (what deepali derives is C03's subject, not judged here; the derivation is asserted to be repeatable). Entries "
            "mixing data of several items are only checked for grid count/shape. Grids recomputed by the narrow override are "
            "compared with a float64 model within 64 eps32 (center) / 4 eps32 (spacing, direction). CPU, float32/float64, "
            "N<=4, spatial sizes<=4, D in {2,3}.",
    "technique": "property-based testing (Hypothesis) with a shadow model (same program on a plain tensor of item ids) "
                 "plus a deterministic survey of call forms",
}
ASSUMPTIONS = [
    "a result that is a plain torch.Tensor is always acceptable (the property only speaks about results that are again "
    "one of the four deepali types)",
    "entries whose data mixes several input items operand-wise (x + other batch, where(), channel-wise cat of two images: entry "
    "i combines entry i of the first operand with other operands and inherits from the first operand) or through a shape "
    "coincidence of a reshaping single-output op (transpose(0,1), reshape with N == C) have no single owner; only grid count "
    "and shape are checked for them and for anything a later op cuts out of them - provided the result has the batch size of "
    "a batch it was computed from (an Image result: provided an Image was among the operands); otherwise 'its batch size no "
    "longer matches the grids it could inherit' and it must be a plain tensor",
    "an output entry computed from several items of ONE batch - a reduction / selection / sort / cumulative op across the batch "
    "dimension, values and index outputs alike - holds no item's data: it must not be described as an image (batch) again, "
    "whatever its shape (asserted for reductions along dim 0 and for every output of the functions with several outputs, "
    "where the shadow knows the contributing items; the unchanged code returns plain tensors there). An index output computed "
    "from one item only (argmax over channels, sort indices along a spatial dimension) may keep that item's grid",
    "ownership of the outputs of a multi-output function is found by intervention: the data of one item is replaced by four other "
    "data sets (far above / far below all items, negated, reversed); entry i depends on the item if it changes. A dependence that "
    "none of the four reveals is not seen (entries no intervention changes are not judged); functions that draw random numbers "
    "are left out (no plain-torch value to compare with)",
    "a multi-output function called on a deepali object returns the container type plain torch returns (the named tuple "
    "torch.return_types.*, so that .values / .indices keep working)",
    "ImageBatch.narrow / Image.narrow along a spatial dimension are expected to narrow every item's own grid",
    "deepcopy / pickle / clone must not share Grid objects or grid attribute storage with the input; copy.copy may share; "
    "whether entries of the result share Grid objects among each other is not constrained",
    "the grid of an entry is the input item's grid in every attribute including align_corners and the float size the Grid "
    "stores internally (slot _size: fractional after downsample() of an odd size or resample(); size() rounds it up, "
    "Grid.__eq__ compares it, upsample() / downsample() start from it); a grid that is handed on unchanged is compared "
    "bit-exactly, slot by slot (Grid.__eq__, which ignores align_corners and is tolerant, is never used alone; the grids "
    "of a copy-like result must in addition be == those of its input)",
    "a copy behaves like its original in later derivations: Grid.upsample() / Grid.downsample() (along axes where both are "
    "well defined for any grid: more than one sample / more than one sample left) of a copied grid and of the original "
    "give identical grids; image resampling on grids with a fractional stored size is NOT exercised (C04, known K3 / K4)",
    "an operation does not modify its operands (as plain torch does not, except for the target of an in-place op): "
    "afterwards they hold the same Grid objects (identity, number, container type, slot values), axes, type, shape, dtype, "
    "requires_grad and data; the same holds for the images / batches given to from_images, append, batch(), collate_samples",
    "torch.clone / Tensor.clone are copying in the sense of the property: the result has the type of its input (as for "
    "copy.copy, deepcopy, pickle); all other operations may still return a plain tensor",
    "ImageBatch.grids() returns a tuple (its documented return type, which append() relies on)",
    "merging flow fields with different axes must either be rejected (ValueError) or not yield a flow-field result that "
    "holds an item's unchanged vectors under another axes label; combining FlowFields with ImageBatch operands is not judged",
    "copy.copy / _make_instance / deepcopy / pickle / clone hand on the requires_grad flag of their input (what the same call "
    "does for a plain tensor and what __deepcopy__ / __reduce_ex__ pass on explicitly); whether the copy is an autograd leaf, "
    "its strides, and the size of the pickle (the whole parent storage of a view may be written) are not constrained; "
    "clone keeps the autograd history exactly when plain torch does",
    "a copy (copy.copy, deepcopy, pickle) is a new object, and copying [x, x] yields the same copy twice (contract of the "
    "copy / pickle memo); copies of several views of one storage are only required to hold the right values each (torch "
    "would also preserve the sharing between them; deepali does not for deepcopy, which is not judged)",
    "the plain twin has the same memory layout (offset, strides) and autograd flag as the wrapped data, so a program plain "
    "torch rejects for layout / autograd reasons (view of a non-contiguous tensor, in-place on a leaf that requires grad, "
    "deepcopy of a non-leaf) is outside the domain (skipped), one it accepts must work on the deepali object",
]

KNOWN = Known(PROPERTY)
K1_ACTIVE = KNOWN.active("K1")
K2_ACTIVE = KNOWN.active("K2")
K7_ACTIVE = KNOWN.active("K7")
K1_OPS = ("flip", "roll", "index_select", "take_along_dim", "gather")
COPY_OPS = ("copy", "deepcopy", "pickle", "make_instance")

BATCH_KINDS = ("ImageBatch", "FlowFields")
IMAGE_KINDS = ("Image", "FlowField")
NAN = float("nan")


# ---------------------------------------------------------------------------------------
# closed-form items: grids, data, id shadows


PERT = 2.0 ** -17  # relative perturbation of one grid attribute: 64 float32 ulps, below the tolerance of Grid.__eq__
PERT_ZERO = 2.0 ** -30  # absolute perturbation of a zero-valued attribute (Grid.__eq__: allclose(rtol=1e-5, atol=1e-8))


def _f32(v: float) -> float:
    """The float32 value a grid attribute given as python float `v` is stored as."""
    return float(np.float32(v))


def geo_desc(k: int, shape, ac: bool, rot: bool = False, pert=None) -> dict:
    """Expected grid with closed-form geometry number `k`: descriptor in grid (x, y, z) order, float32-exact values.

    rot: direction cosines are a rotation by 0.2 + 0.1 k rad in the x-y plane instead of the identity;
    pert = [attribute, axis]: that attribute is perturbed by less than the tolerance of Grid.__eq__."""
    D = len(shape)
    center = [100.0 * k + 10.0 * a for a in range(D)]
    spacing = [1.0 + 0.5 * k + 0.25 * a for a in range(D)]
    direction = [[1.0 if r == c else 0.0 for c in range(D)] for r in range(D)]
    if rot:
        co, si = math.cos(0.2 + 0.1 * k), math.sin(0.2 + 0.1 * k)
        direction[0][0], direction[0][1], direction[1][0], direction[1][1] = co, -si, si, co
    if pert:
        what, a = pert[0], int(pert[1]) % D
        if what == "center":
            center[a] = center[a] * (1.0 + PERT) if center[a] != 0.0 else PERT_ZERO
        elif what == "spacing":
            spacing[a] = spacing[a] * (1.0 + PERT)
        else:
            direction[a][a] = direction[a][a] * (1.0 + PERT)
    return {"size": [int(n) for n in tuple(shape)[::-1]],
            "fsize": [float(n) for n in tuple(shape)[::-1]],  # the size as the Grid stores it (float; see HISTORIES below)
            "center": [_f32(v) for v in center],
            "spacing": [_f32(v) for v in spacing],
            "direction": [[_f32(v) for v in row] for row in direction],
            "ac": bool(ac)}


def item_desc(j: int, shape, ac: bool) -> dict:
    """Expected grid of item `j` of a case without grid plan: geometry number j."""
    return geo_desc(j, shape, ac)


def narrow_desc(desc: dict, axis: int, start: int, length: int) -> dict:
    """Grid of samples start..start+length-1 along grid axis `axis` (float64 model; marked as derived)."""
    d = {"size": list(desc["size"]), "center": list(desc["center"]), "spacing": list(desc["spacing"]),
         "direction": [list(r) for r in desc["direction"]], "ac": desc["ac"], "derived": True}
    n = desc["size"][axis]
    d["size"][axis] = int(length)
    shift = desc["spacing"][axis] * (start + (length - 1) / 2.0 - (n - 1) / 2.0)
    for i in range(len(d["center"])):
        d["center"][i] = desc["center"][i] + desc["direction"][i][axis] * shift
    return d


# grids with a history: a Grid stores its size as a float tensor (`_size`, "such that grid.downsample().upsample() == grid")
# and reports ceil(_size) as size() / shape. Grids derived by deepali's own methods (downsample of an odd size, resample to a
# spacing that does not divide the extent) therefore carry a FRACTIONAL stored size that none of the public accessors shows but
# that Grid.__eq__ compares and every later derivation (upsample, downsample, ...) starts from. The item grids of a case may be
# such derived grids: hist = {"kind", "par" (one small int per grid axis), "pac" (align_corners of the precursor), "via"}
#   down:     precursor of size 2n - par (par in {0, 1}; 1: odd) per axis, halved by Grid.downsample() -> stored n - par/2
#   down2:    precursor of size 4n - par (par in 0..3), Grid.downsample(2) -> stored n - par/4
#   resample: precursor of size n, Grid.resample(spacing * f), f = 1.125 (par odd) or 1.0625 (par even) -> stored n / f
#   flag:     precursor with the other align_corners flag, Grid.align_corners(flag) (integer size; shares tensors with the precursor)
# (axes with a single sample keep a precursor of one sample for down / down2: nothing to halve). via = "image": the grid is the
# one Image(zeros, precursor).downsample() carries (its min_size is 0: a single sample is stored as 0.5). What deepali derives is not judged here (C03): the expected grid of such an
# item is the snapshot of all five slots of the Grid object the case was built with; the derivation is deterministic.

HIST_KINDS = ("down", "down2", "resample", "flag")
RESAMPLE_FACTORS = (1.0625, 1.125)


def grid_slots(g) -> tuple:
    """Every slot of a deepali Grid as python values (the stored float size included)."""
    return (g._size.tolist(), g._center.tolist(), g._spacing.tolist(), g._direction.tolist(), bool(g._align_corners))


def snap_desc(g) -> dict:
    """Descriptor of the grid a Grid object holds right now (float32 values as python floats)."""
    return {"size": [int(n) for n in g.size()], "fsize": g._size.tolist(), "center": g.center().double().tolist(),
            "spacing": g.spacing().double().tolist(), "direction": g.direction().double().tolist(), "ac": bool(g.align_corners())}


def is_fractional(desc: dict) -> bool:
    return any(float(v) != float(n) for v, n in zip(desc.get("fsize", desc["size"]), desc["size"]))


def derive_hist_grid(base: dict, hist: dict):
    """Grid with the history `hist` whose size() is that of the closed-form grid `base` (center, direction from `base`;
    align_corners: base['ac'], set with the Grid.align_corners(flag) 'wither' if the precursor had the other flag)."""
    from deepali.core import Grid
    from deepali.data import Image

    n = list(base["size"])
    kind, par, pac = hist["kind"], [int(v) for v in hist["par"]], bool(hist.get("pac", base["ac"]))
    mk = lambda size, ac: Grid(size=size, center=base["center"], spacing=base["spacing"], direction=base["direction"],  # noqa: E731
                               align_corners=ac)
    if kind in ("down", "down2"):
        lv = 1 if kind == "down" else 2
        psize = [1 if m < 2 else (2 ** lv) * m - (q % (2 ** lv)) for m, q in zip(n, par)]
        pre = mk(psize, pac)
        if hist.get("via") == "image":
            g = Image(torch.zeros((1,) + tuple(psize[::-1])), pre).downsample(lv).grid()
        else:
            g = pre.downsample(lv)
    elif kind == "resample":
        pre = mk(n, pac)
        g = pre.resample([s * RESAMPLE_FACTORS[q % 2] for s, q in zip(pre.spacing().tolist(), par)])
    elif kind == "flag":
        g = mk(n, not base["ac"])
    else:
        raise ValueError(kind)
    if bool(g.align_corners()) != base["ac"]:
        g = g.align_corners(base["ac"])
    if [int(v) for v in g.size()] != n:  # (generator invariant, not a property of deepali that is judged here)
        raise RuntimeError(f"history {hist} gives a grid of size {list(g.size())}, wanted {n}")
    return g


def make_item_grid(base: dict, hist: Optional[dict], twin: bool = False):
    """The Grid object of an item: constructed from the closed-form values, or derived (hist); twin: a grid CONSTRUCTED from
    the public attributes (size(), center, spacing, direction, flag) of the derived one - equal in everything the accessors
    show, with an integer stored size."""
    from deepali.core import Grid

    if hist is None:
        return Grid(size=base["size"], center=base["center"], spacing=base["spacing"], direction=base["direction"],
                    align_corners=base["ac"])
    g = derive_hist_grid(base, hist)
    if twin:
        g = Grid(size=g.size(), center=g.center().clone(), spacing=g.spacing().clone(), direction=g.direction().clone(),
                 align_corners=g.align_corners())
    return g


def build_grid(desc: dict):
    src = desc.get("src")  # (closed-form base, hist, twin) of an item with a history
    g = make_item_grid(desc, None) if src is None else make_item_grid(*src)
    bad = grid_mismatch(g, desc)
    if bad:  # the trusted base: a grid constructed from float32-exact values stores them unchanged (derivations: repeatable)
        raise RuntimeError(f"input grid is not the described grid: {bad}")
    return g


def grid_mismatch(g, desc: dict) -> Optional[str]:
    """None if the deepali grid `g` is the grid described by `desc`, else what differs.

    Every attribute is compared explicitly (never with Grid.__eq__, which ignores align_corners and is tolerant):
    size and align_corners always exactly; the stored float size, center, spacing and direction bit-exactly for a grid
    that is handed on (indexing, cat, split, copy, pickle, collate, ...), within float32 round-off of the float64 model for
    a grid that deepali recomputes (desc['derived']: ImageBatch.narrow / Image.narrow along a spatial dimension)."""
    if [int(n) for n in g.size()] != list(desc["size"]):
        return f"size {list(g.size())} != {desc['size']}"
    if bool(g.align_corners()) != desc["ac"]:
        return f"align_corners {g.align_corners()} != {desc['ac']}"
    c = g.center().double().tolist()
    s = g.spacing().double().tolist()
    d = g.direction().double().tolist()
    if not desc.get("derived"):
        fs = g._size.tolist()
        if fs != list(desc["fsize"]):
            return f"stored size {fs} != {desc['fsize']} (size() agrees)"
        if c != list(desc["center"]):
            return f"center {c} != {desc['center']}"
        if s != list(desc["spacing"]):
            return f"spacing {s} != {desc['spacing']}"
        if d != [list(r) for r in desc["direction"]]:
            return f"direction {d} != {desc['direction']}"
        return None
    extent = sum(sv * n for sv, n in zip(desc["spacing"], desc["size"]))
    for cv, ce in zip(c, desc["center"]):
        if not abs(cv - ce) <= 64 * EPS32 * max(1.0, abs(ce) + extent):
            return f"center {c} != {desc['center']}"
    for sv, se in zip(s, desc["spacing"]):
        if not abs(sv - se) <= 4 * EPS32 * se:
            return f"spacing {s} != {desc['spacing']}"
    for rv, re_ in zip(d, desc["direction"]):
        for v, e in zip(rv, re_):
            if not abs(v - e) <= 4 * EPS32:
                return f"direction {d} != {desc['direction']}"
    return None


# grid plans: which items share geometry / differ only in align_corners / share one Grid object / are equal-valued copies /
# differ by less than the tolerance of Grid.__eq__

PLAN_RELATIONS = ("flip_ac", "same_obj", "equal", "pert", "int_twin")


def draw_hist(draw, D: int) -> Optional[dict]:
    """History of a new item's grid: none (constructed; 50%) or one of HIST_KINDS with per-axis parameters."""
    kind = draw(st.sampled_from((None,) * 5 + ("down", "down", "down2", "resample", "flag")))
    if kind is None:
        return None
    hi = {"down": 1, "down2": 3, "resample": 1, "flag": 0}[kind]
    par = [draw(st.sampled_from([0] + [v for v in range(1, hi + 1)] * 2)) for _ in range(D)]
    h = {"kind": kind, "par": par, "pac": draw(st.booleans())}
    if kind in ("down", "down2") and draw(st.sampled_from([False, False, True])):
        h["via"] = "image"
    return h


def draw_plan(draw, n: int, D: int, base: int = 0) -> dict:
    """Grid plan for `n` items: {'rot': bool, 'items': [{'geo', 'ac', 'pert', 'share', 'hist', 'twin'}]}; entry i describes
    item base+i.

    mode distinct: every item has its own geometry (and its own align_corners flag, and its own history: constructed, or
    derived by deepali's methods with a fractional stored size, see HIST_KINDS);
    mode mixed / same: an item may refer to an earlier one: same geometry with the other align_corners ('flip_ac'), the very
    same Grid object ('same_obj'), an equal-valued distinct Grid ('equal'; same history), equal up to a perturbation of one
    attribute below the tolerance of Grid.__eq__ ('pert'), or - for an earlier item with a history - a CONSTRUCTED grid with
    the same public attributes, i.e. one that differs only in the stored fractional size ('int_twin'). In mode same no item
    introduces a new geometry."""
    mode = draw(st.sampled_from(["distinct", "distinct", "mixed", "mixed", "same"]))
    items: List[dict] = []
    for i in range(n):
        rel = "new"
        if i > 0 and mode == "mixed":
            rel = draw(st.sampled_from(("new", "new") + PLAN_RELATIONS))
        elif i > 0 and mode == "same":
            rel = draw(st.sampled_from(("flip_ac",) + PLAN_RELATIONS))
        if rel == "new":
            items.append({"geo": base + i, "ac": draw(st.booleans()), "pert": None, "share": None, "hist": draw_hist(draw, D)})
            continue
        r = draw(st.integers(0, i - 1))
        ref = items[r]
        e = {"geo": ref["geo"], "ac": ref["ac"], "pert": ref["pert"], "share": None, "hist": ref.get("hist")}
        if ref.get("twin"):
            e["twin"] = True
        if rel == "flip_ac":
            e["ac"] = not ref["ac"]
        elif rel == "same_obj":
            e["share"] = r if ref["share"] is None else ref["share"]
        elif rel == "pert":
            e["pert"] = None if ref["pert"] else [draw(st.sampled_from(["center", "spacing", "direction"])), draw(st.integers(0, D - 1))]
        elif rel == "int_twin" and ref.get("hist") is not None:
            e["twin"] = not ref.get("twin")
        items.append(e)
    return {"mode": mode, "rot": draw(st.sampled_from([False, False, True])), "items": items}


@functools.lru_cache(maxsize=4096)
def _hist_snapshot(src_json: str) -> dict:
    """Snapshot of the grid with the given (closed-form base, hist, twin) - the derivation is deterministic (build_grid
    asserts that every Grid object built for a case reproduces it)."""
    base, hist, twin = json.loads(src_json)
    return snap_desc(make_item_grid(base, hist, twin))


def plan_tables(plan: dict, shape, base: int = 0) -> Tuple[Dict[int, dict], Dict[int, int]]:
    """(expected grid of every item id, id -> id of the item whose Grid object it uses).

    The expected grid of a constructed item is the closed form; that of an item with a history is the snapshot of the
    grid deepali derives from the closed-form precursor (desc['src'] tells build_grid how to derive it again)."""
    G, root = {}, {}
    for i, e in enumerate(plan["items"]):
        d = geo_desc(e["geo"], shape, e["ac"], bool(plan.get("rot")), e.get("pert"))
        if e.get("hist") is not None:
            src = (d, e["hist"], bool(e.get("twin")))
            d = dict(_hist_snapshot(json.dumps(src, sort_keys=True)), src=src)
        G[base + i] = d
        root[base + i] = base + (i if e.get("share") is None else int(e["share"]))
    return G, root


def plan_labels(plan: Optional[dict], used: int, G: Optional[Dict[int, dict]] = None) -> List[str]:
    """Which relations occur among the first `used` items of the plan."""
    if plan is None:
        return ["plan=none"]
    out = [f"plan={plan.get('mode', 'fixed')}"] + (["plan:rot"] if plan.get("rot") else [])
    items = plan["items"][:used]
    for i, e in enumerate(items):
        if e.get("hist") is not None:
            out.append(f"hist={e['hist']['kind']}" + (":image" if e["hist"].get("via") == "image" else "") + (":twin" if e.get("twin") else ""))
        for f in items[:i]:
            if e["geo"] == f["geo"] and e.get("pert") == f.get("pert") and e.get("hist") == f.get("hist"):
                if bool(e.get("twin")) != bool(f.get("twin")):
                    out.append("plan:int_twin_pair" + ("" if e["ac"] == f["ac"] else "_ac"))
                elif e["ac"] != f["ac"]:
                    out.append("plan:ac_only_pair")
                elif e.get("share") is None:
                    out.append("plan:equal_copy")
            elif e["geo"] == f["geo"]:
                out.append("plan:pert_pair")
        if e.get("share") is not None and e["share"] < used:
            out.append("plan:shared_obj")
    if G is not None and any(is_fractional(d) for d in list(G.values())[:used]):
        out.append("hist:fractional_size")
    return sorted(set(out))


class GridPool:
    """Builds the Grid objects of items; items whose plan entries share an object get the same Grid instance."""

    def __init__(self, G: Dict[int, dict], root: Optional[Dict[int, int]] = None):
        self.G, self.root = G, root or {}
        self.shared = {r for j, r in self.root.items() if r != j}
        self.cache: Dict[int, Any] = {}

    def grid(self, j: int):
        r = self.root.get(j, j)
        if r not in self.shared:
            return build_grid(self.G[j])
        if r not in self.cache:
            self.cache[r] = build_grid(self.G[r])
        return self.cache[r]


def item_data(j: int, C: int, shape, dtype, off: float = 0.0) -> torch.Tensor:
    n = C * int(np.prod(shape))
    t = torch.arange(n, dtype=torch.float64).reshape((C,) + tuple(shape)) / 1024.0 + float(j) + off
    return t.to(dtype)


def _dt(name: str):
    return {"float32": torch.float32, "float64": torch.float64, "int64": torch.int64}[name]


class Obj:
    """A deepali object together with its plain twin and the id shadows (lo = hi = id)."""

    def __init__(self, real, plain, lo, hi):
        self.real, self.plain, self.lo, self.hi = real, plain, lo, hi


LAYOUTS = ("dense", "offset", "strided", "tposed", "crop")


def apply_layout(dense: torch.Tensor, layout: Optional[str]) -> torch.Tensor:
    """A tensor with the values of `dense` (fresh storage) whose memory layout is that of a view of a larger tensor.

    dense:   own contiguous storage (offset 0);
    offset:  CONTIGUOUS view at a non-zero storage offset (as a sub-batch / batch item / split chunk of a larger batch);
    strided: every second entry along dim 0 of a buffer of twice the length (offset and stride, non-contiguous);
    tposed:  memory order of the dimensions reversed (offset 0, non-standard strides, dense);
    crop:    interior of a buffer padded by one sample at both ends of the last dimension (offset, gaps).
    The surrounding buffer elements hold sentinel values (<= -1000) that no item holds."""
    if layout in (None, "dense"):
        return dense.clone(memory_format=torch.contiguous_format)

    def sentinel(shape):
        n = int(np.prod(shape)) if len(shape) else 1
        return (-1000.0 - torch.arange(n, dtype=torch.float64)).reshape(tuple(shape)).to(dense.dtype)

    if layout == "offset":
        n, front = dense.numel(), dense.numel() + 3
        buf = sentinel((front + n + 2,))
        view = buf[front:front + n].view(dense.shape)
    elif layout == "strided":
        buf = sentinel((2 * dense.shape[0] + 1,) + tuple(dense.shape[1:]))
        view = buf[1::2][:dense.shape[0]]
    elif layout == "tposed":
        perm = list(range(dense.ndim))[::-1]
        return dense.permute(perm).contiguous().permute(perm)
    elif layout == "crop":
        buf = sentinel(tuple(dense.shape[:-1]) + (dense.shape[-1] + 2,))
        view = buf[..., 1:-1]
    else:
        raise ValueError(layout)
    view.copy_(dense)
    return view


def make_obj(kind: str, ids, C: int, shape, dtype, pool: GridPool, axes: Optional[str], off: float = 0.0,
             layout: Optional[str] = None, rg: bool = False) -> Obj:
    """The deepali object and its plain twin hold equal values in separate storages of the same memory layout; with
    rg both are autograd leaves with requires_grad=True."""
    from deepali.core import Axes
    from deepali.data import FlowField, FlowFields, Image, ImageBatch

    shape = tuple(shape)
    kw = {"requires_grad": True} if rg else {}
    if kind in BATCH_KINDS:
        data = torch.stack([item_data(j, C, shape, dtype, off) for j in ids], 0)
        grids = [pool.grid(j) for j in ids]
        sh = torch.tensor([float(j) for j in ids], dtype=torch.float64).reshape((len(ids),) + (1,) * (len(shape) + 1))
        sh = sh.expand(data.shape).clone()
        if kind == "ImageBatch":
            real = ImageBatch(apply_layout(data, layout), grids, **kw)
        else:
            real = FlowFields(apply_layout(data, layout), grids, Axes(axes), **kw)
    else:
        j = ids[0]
        data = item_data(j, C, shape, dtype, off)
        grid = pool.grid(j)
        sh = torch.full(data.shape, float(j), dtype=torch.float64)
        if kind == "Image":
            real = Image(apply_layout(data, layout), grid, **kw)
        else:
            real = FlowField(apply_layout(data, layout), grid, Axes(axes), **kw)
    plain = apply_layout(data, layout)
    if rg:
        plain = plain.detach().requires_grad_(True)
    return Obj(real, plain, sh, sh.clone())


def aux(shape, dtype=torch.float32) -> torch.Tensor:
    """Plain helper operand with closed-form content."""
    n = int(np.prod(shape)) if len(shape) else 1
    return (torch.arange(n, dtype=torch.float64).reshape(tuple(shape)) * 0.125 + 0.25).to(dtype)


# ---------------------------------------------------------------------------------------
# op interpreter: op descriptor -> (category, call(t, E), operand names)
#
# categories: struct (same call on the shadows), same (shadow unchanged), elem (shadow = min/max over the broadcast
# operands), reduce (amin/amax), spatial (per (n, c) slice)


def build_index(ix, P):
    t = ix["t"]
    if t == "int":
        return int(ix["v"])
    if t == "slice":
        return slice(*ix["v"])
    if t == "list":
        return [int(v) for v in ix["v"]]
    if t == "tensor":
        return torch.tensor(ix["v"], dtype=torch.int64)
    if t == "np":
        return np.array(ix["v"], dtype=np.int64)
    if t == "blist":
        return [bool(v) for v in ix["v"]]
    if t == "btensor":
        return torch.tensor(ix["v"], dtype=torch.bool)
    if t == "bnp":
        return np.array(ix["v"], dtype=bool)
    if t == "fullmask":
        return P.to(torch.float64) > float(ix["thr"])
    if t == "none":
        return None
    if t == "ellipsis":
        return ...
    if t == "tensor0":
        return torch.tensor(int(ix["v"]), dtype=torch.int64)
    if t == "tensor2":
        return torch.tensor(ix["v"], dtype=torch.int64)
    if t == "tuple":
        return tuple(build_index(s, P) for s in ix["v"])
    raise ValueError(t)


def index_class(ix) -> str:
    t = ix["t"]
    if t == "tuple":
        subs = [index_class(s) for s in ix["v"]]
        if not subs or subs == ["ellipsis"]:
            return "tuple_trivial"
        for c in ("none", "mask", "fullmask", "tensor_nd"):
            if c in subs:
                return c
        if len(subs) >= 2 and subs[0] in ("list", "tensor", "np") and subs[1] in ("list", "tensor", "np"):
            return "adv_pair"
        if "ellipsis" in subs:
            return "tuple_ellipsis"
        return "tuple"
    if t in ("blist", "btensor", "bnp"):
        return "mask"
    if t in ("tensor0", "tensor2"):
        return "tensor_nd"
    return t


def _dimcall(op, dim):
    ds = op.get("ds", "pos")
    if ds == "kw":
        return (), {"dim": dim}
    if ds == "default":
        return (), {}
    return (dim,), {}


UNARY = {
    "neg": lambda t: -t, "abs": lambda t: t.abs(), "relu": lambda t: torch.relu(t), "exp": lambda t: torch.exp(t),
    "clamp": lambda t: t.clamp(0.5, 2.5), "sign": lambda t: torch.sign(t), "gt": lambda t: t > 1.0,
    "sigmoid": lambda t: torch.sigmoid(t), "square": lambda t: torch.square(t),
}
INPLACE = {
    "add_": lambda t: t.add_(1.0), "mul_": lambda t: t.mul_(2.0), "clamp_": lambda t: t.clamp_(0.5, 2.5),
    "neg_": lambda t: t.neg_(), "iadd": lambda t: t.__iadd__(0.5),
}
BINARY = {
    "add": lambda a, b: a + b, "sub": lambda a, b: a - b, "mul": lambda a, b: torch.mul(a, b),
    "maximum": lambda a, b: torch.maximum(a, b), "madd": lambda a, b: a.add(b), "tadd": lambda a, b: torch.add(a, b, alpha=2),
}
ID_OPERANDS = ("self", "twin", "other")
PICKLE_PROTOS = ("proto2", "proto3", "proto4", "proto5")


def _operand(name: str, t, E, state_batch: bool):
    if name == "scalar":
        return 1.5
    if name in ID_OPERANDS:
        return E[name]
    s = tuple(t.shape)
    dt = t.dtype if t.dtype.is_floating_point else torch.float32
    if name == "plain_full":
        return aux(s, dt)
    if name == "plain_c":
        k = 1 if state_batch else 0
        return aux(tuple(n if i == k else 1 for i, n in enumerate(s)), dt)
    if name == "plain_n":
        return aux((s[0],) + (1,) * (len(s) - 1), dt)
    if name == "plain_up":
        return aux((2,) + s, dt)
    if name == "plain_bn":
        return aux((3,) + s[1:], dt)
    raise ValueError(name)


def interpret(op: dict, D: int):
    """Return (category, call, id_operands). call(t, E) applies the operation to tensor t of any role;
    E maps operand names ('self', 'twin', 'other', 'plain', '_p' = current plain tensor) to same-role operands."""
    o = op["op"]
    if o == "unary":
        f = UNARY[op["fn"]]
        return "elem", (lambda t, E: f(t)), []
    if o == "inplace":
        f = INPLACE[op["fn"]]
        return "elem", (lambda t, E: f(t)), []
    if o == "binary":
        f = BINARY[op["fn"]]
        name = op["other"]
        sb = bool(op.get("sb", True))

        def call(t, E):
            b = _operand(name, t, E, sb)
            return f(b, t) if op.get("rev") else f(t, b)

        return "elem", call, [name] if name in ID_OPERANDS else []
    if o == "where":
        name = op["other"]
        sb = bool(op.get("sb", True))
        return "elem", (lambda t, E: torch.where(t > 1.0, t, _operand(name, t, E, sb))), [name] if name in ID_OPERANDS else []
    if o == "reduce":
        fn, dim, kd = op["fn"], op["dim"], bool(op["keepdim"])

        def call(t, E):
            if dim is None:
                return getattr(t, fn)()
            d = tuple(dim) if isinstance(dim, list) else dim
            if op.get("style") == "torch":
                return getattr(torch, fn)(t, d, keepdim=kd)
            if op.get("style") == "kw":
                return getattr(t, fn)(dim=d, keepdim=kd)
            return getattr(t, fn)(d, kd)

        return "reduce", call, []
    if o == "getitem":
        return "struct", (lambda t, E: t[build_index(op["ix"], E["_p"])]), []
    if o == "narrow":
        d, a, n = op["dim"], op["start"], op["len"]
        if op.get("style") == "torch":
            return "struct", (lambda t, E: torch.narrow(t, d, a, n)), []
        return "struct", (lambda t, E: t.narrow(d, a, n)), []
    if o == "select":
        d, i = op["dim"], op["i"]
        if op.get("style") == "torch":
            return "struct", (lambda t, E: torch.select(t, d, i)), []
        return "struct", (lambda t, E: t.select(d, i)), []
    if o == "index_select":
        d = op["dim"]
        if op.get("style") == "torch":
            return "struct", (lambda t, E: torch.index_select(t, d, torch.tensor(op["idx"], dtype=torch.int64))), []
        return "struct", (lambda t, E: t.index_select(d, torch.tensor(op["idx"], dtype=torch.int64))), []
    if o in ("take_along_dim", "gather"):
        d = op["dim"]

        def call(t, E):
            nd = t.ndim
            dd = d % nd
            idx = torch.tensor(op["idx"], dtype=torch.int64).reshape(tuple(len(op["idx"]) if i == dd else 1 for i in range(nd)))
            if o == "gather":
                idx = idx.expand(tuple(len(op["idx"]) if i == dd else t.shape[i] for i in range(nd)))
                return torch.gather(t, d, idx)
            return torch.take_along_dim(t, idx, dim=d)

        return "struct", call, []
    if o in ("cat", "stack"):
        names = list(op["operands"])
        f = torch.cat if o == "cat" else torch.stack

        def call(t, E):
            seq = [t if n == "self" else E[n] for n in names]
            if op.get("container") == "tuple":
                seq = tuple(seq)
            a, kw = _dimcall(op, op["dim"])
            return f(seq, *a, **kw)

        return "struct", call, []
    if o in ("split", "split_with_sizes", "tensor_split", "chunk", "unbind"):
        def call(t, E):
            a, kw = _dimcall(op, op["dim"])
            if o == "unbind":
                return t.unbind(*a, **kw) if op.get("style") != "torch" else torch.unbind(t, *a, **kw)
            sec = op["sec"]
            if op.get("sectype") == "tuple":
                sec = tuple(sec)
            elif op.get("sectype") == "tensor":
                sec = torch.tensor(sec, dtype=torch.int64)
            if op.get("style") == "torch":
                return getattr(torch, o)(t, sec, *a, **kw)
            return getattr(t, o)(sec, *a, **kw)

        return "struct", call, []
    if o == "iter":
        return "struct", (lambda t, E: list(t)), []
    if o == "flip":
        dims = list(op["dims"])
        if op.get("style") == "torch":
            return "struct", (lambda t, E: torch.flip(t, dims)), []
        return "struct", (lambda t, E: t.flip(*dims) if op.get("style") == "var" else t.flip(dims)), []
    if o == "roll":
        sh, dims = op["shifts"], op["dims"]
        if op.get("style") == "torch":
            return "struct", (lambda t, E: torch.roll(t, sh, dims)), []
        return "struct", (lambda t, E: t.roll(sh, dims)), []
    if o == "permute":
        p = list(op["perm"])
        return "struct", (lambda t, E: t.permute(*p) if op.get("style") == "var" else torch.permute(t, p)), []
    if o == "transpose":
        a, b = op["a"], op["b"]
        return "struct", (lambda t, E: torch.transpose(t, a, b) if op.get("style") == "torch" else t.transpose(a, b)), []
    if o == "movedim":
        a, b = op["a"], op["b"]
        return "struct", (lambda t, E: torch.movedim(t, a, b) if op.get("style") == "torch" else t.movedim(a, b)), []
    if o == "expand":
        sz = list(op["sizes"])
        return "struct", (lambda t, E: t.expand(*sz) if op.get("style") == "var" else t.expand(sz)), []
    if o == "repeat":
        r = list(op["reps"])
        return "struct", (lambda t, E: t.repeat(*r) if op.get("style") == "var" else t.repeat(r)), []
    if o in ("reshape", "view"):
        sz = list(op["shape"])
        return "struct", (lambda t, E: getattr(t, o)(*sz) if op.get("style") == "var" else getattr(t, o)(sz)), []
    if o == "flatten":
        a, b = op["a"], op["b"]
        return "struct", (lambda t, E: torch.flatten(t, a, b) if op.get("style") == "torch" else t.flatten(a, b)), []
    if o == "squeeze":
        d = op["dim"]
        return "struct", (lambda t, E: t.squeeze() if d is None else t.squeeze(d)), []
    if o == "unsqueeze":
        d = op["dim"]
        return "struct", (lambda t, E: torch.unsqueeze(t, d) if op.get("style") == "torch" else t.unsqueeze(d)), []
    if o == "interp":
        def call(t, E):
            kw = {"mode": op["mode"]}
            if op["mode"] != "nearest":
                kw["align_corners"] = bool(op.get("ac", False))
            if "size" in op:
                kw["size"] = list(op["size"])
            else:
                kw["scale_factor"] = op["scale"]
            return F.interpolate(t, **kw)

        return "spatial", call, []
    if o in ("avg_pool", "max_pool"):
        k = op["k"]

        def call(t, E):
            f = getattr(F, f"{o}{t.ndim - 2}d")
            return f(t, k)

        return "spatial", call, []
    if o == "pad":
        return "spatial", (lambda t, E: F.pad(t, list(op["pad"]))), []
    if o == "grid_sample":
        def call(t, E):
            out = list(op["out"])
            Dd = t.ndim - 2
            coords = (aux((t.shape[0],) + tuple(out) + (Dd,), torch.float64) % 2.0 - 1.0).to(t.dtype)
            return F.grid_sample(t, coords, mode="bilinear", align_corners=False)

        return "spatial", call, []
    if o == "cast":
        fn = op["fn"]

        def call(t, E):
            if fn in ("float", "double", "long", "contiguous", "detach", "clone", "cpu"):
                return getattr(t, fn)()
            if fn == "torch_clone":
                return torch.clone(t)
            dt = _dt(op["dtype"])
            if fn == "to":
                return t.to(dt)
            if fn == "to_kw":
                return t.to(dtype=dt)
            if fn == "to_device":
                return t.to(torch.device("cpu"), dt)
            if fn == "type":
                return t.type(dt)
            raise ValueError(fn)

        return "same", call, []
    if o == "copy":
        return "same", (lambda t, E: copy.copy(t)), []
    if o == "make_instance":  # the subclass-preserving constructor behind __copy__ (a plain tensor has none: itself)
        return "same", (lambda t, E: t._make_instance() if hasattr(t, "_make_instance") else t), []
    if o in ("deepcopy", "pickle"):
        via = op.get("via")

        def dup(obj):
            if o == "deepcopy":
                return copy.deepcopy(obj)
            if via == "torch_save":
                buf = io.BytesIO()
                torch.save(obj, buf)
                buf.seek(0)
                return torch.load(buf, weights_only=False)
            proto = int(via[5:]) if via in PICKLE_PROTOS else pickle.DEFAULT_PROTOCOL
            return pickle.loads(pickle.dumps(obj, protocol=proto))

        def call(t, E):
            if via == "list":  # copy of a container holding the object (memo passed down)
                return dup([t, 1])[0]
            if via == "pair":  # the same object twice: [copy, the same copy] (memo of deepcopy / pickle)
                return dup([t, t])
            if via == "items":  # the entries along dim 0: views of ONE storage at different offsets, copied together
                return dup([t[i] for i in range(t.shape[0])])
            if via == "chunks":  # the same as sub-batches of one entry each
                return dup([t[i:i + 1] for i in range(t.shape[0])])
            return dup(t)

        return "same", call, []
    if o == "batch":
        return "struct", (lambda t, E: t.batch() if hasattr(t, "batch") else t.unsqueeze(0)), []
    if o == "append":  # explicit builder ImageBatch.append(other batch); plain torch: cat along dim 0
        name = op["other"]

        def call(t, E):
            b = t if name == "self" else E[name]
            return t.append(b) if dtype_of(t) in BATCH_KINDS else torch.cat([t, b], 0)

        return "struct", call, []
    if o == "from_images":  # explicit builder from_images() of (a selection of) the items; plain torch: stack of the entries
        idx = op.get("idx")

        def call(t, E):
            items = list(t) if idx is None else [t[int(i)] for i in idx]
            if dtype_of(t) in BATCH_KINDS:
                return type(t).from_images(items)
            return torch.stack(items, 0)

        return "struct", call, []
    if o == "multi":  # a function with several outputs (discovered: multi_forms()), called through one argument template
        f = getattr(MULTI_NS[op["ns"]], op["fn"])
        tpl = MULTI_TPLS[op["tpl"]]
        return "multi", (lambda t, E: tpl(f, t, op, E)), []
    raise ValueError(f"unknown op {o}")


# ---------------------------------------------------------------------------------------
# functions with several outputs (tuple / list / torch.return_types.*): discovered, not listed by hand
#
# Every public function of the torch namespaces that dispatches through __torch_function__ is called on a plain probe tensor
# through a list of argument templates; the (namespace, function, template) triples for which plain torch returns a
# sequence of at least two tensors (or a list) are the multi-output call forms.  (Builtins are pre-selected by the return type
# of their ATen schemas where torch exposes them; python-level functions are all probed.)

MULTI_NS = {"torch": torch, "Tensor": torch.Tensor, "F": F, "linalg": torch.linalg, "fft": torch.fft, "special": torch.special}
MULTI_TPLS = {
    "x": lambda f, x, o, E: f(x),
    "x_dim": lambda f, x, o, E: f(x, dim=o["dim"]),
    "x_dim_kd": lambda f, x, o, E: f(x, dim=o["dim"], keepdim=bool(o["keepdim"])),
    "x_dims_kd": lambda f, x, o, E: f(x, dim=[o["dim"]], keepdim=bool(o["keepdim"])),
    "x_i": lambda f, x, o, E: f(x, o["i"]),
    "x_i_kd": lambda f, x, o, E: f(x, o["i"], bool(o["keepdim"])),
    "x_i_dim": lambda f, x, o, E: f(x, o["i"], dim=o["dim"]),
    "x_i_j": lambda f, x, o, E: f(x, o["i"], o["dim"]),
    "x_i_dim_kd": lambda f, x, o, E: f(x, o["i"], dim=o["dim"], keepdim=bool(o["keepdim"])),
    "x_sec": lambda f, x, o, E: f(x, list(o["sec"])),
    "x_sec_dim": lambda f, x, o, E: f(x, list(o["sec"]), dim=o["dim"]),
    "x_y": lambda f, x, o, E: f(x, E[o["other"]]),
    "y_x": lambda f, x, o, E: f(E[o["other"]], x),
    "seq": lambda f, x, o, E: f([x, E[o["other"]]]),
    "tseq": lambda f, x, o, E: f((E[o["other"]], x)),
    "uniq": lambda f, x, o, E: f(x, return_inverse=True, return_counts=True),
    "uniq_dim": lambda f, x, o, E: f(x, return_inverse=True, return_counts=True, dim=o["dim"]),
    "x_i_ri": lambda f, x, o, E: f(x, o["i"], return_indices=True),
}
MULTI_OPERAND_TPLS = ("x_y", "y_x", "seq", "tseq")
MULTI_KS = (1, 2, 3)
MULTI_SECS = ([1], [1, 1], [1, 2], [2, 2], [1, 3], [1, 2, 1])


def multi_params(tpl: str, nd: int, dims) -> List[dict]:
    """Every parameter combination of an argument template for a tensor with nd dimensions (dims: the values of `dim`)."""
    ints = sorted({-nd, -1, 0, 1, 2, 3, nd - 1})
    table = {
        "x": [{}], "uniq": [{}],
        "x_dim": [{"dim": d} for d in dims], "uniq_dim": [{"dim": d} for d in dims],
        "x_dim_kd": [{"dim": d, "keepdim": kd} for d in dims for kd in (False, True)],
        "x_dims_kd": [{"dim": d, "keepdim": kd} for d in dims for kd in (False, True)],
        "x_i": [{"i": i} for i in ints],
        "x_i_kd": [{"i": i, "keepdim": kd} for i in ints for kd in (False, True)],
        "x_i_dim": [{"i": k, "dim": d} for k in MULTI_KS for d in dims],
        "x_i_j": [{"i": k, "dim": d} for k in MULTI_KS for d in dims],
        "x_i_dim_kd": [{"i": k, "dim": d, "keepdim": kd} for k in MULTI_KS for d in dims for kd in (False, True)],
        "x_sec": [{"sec": list(s)} for s in MULTI_SECS],
        "x_sec_dim": [{"sec": list(s), "dim": d} for s in MULTI_SECS for d in dims],
        "x_i_ri": [{"i": k} for k in (1, 2)],
    }
    if tpl in MULTI_OPERAND_TPLS:
        return [{"other": n} for n in ("twin", "other")]
    return table[tpl]


def is_multi_result(r) -> bool:
    return isinstance(r, (tuple, list)) and len(r) > 0 and all(isinstance(t, torch.Tensor) for t in r)


def _same_tensors(a, b) -> bool:
    if len(a) != len(b):
        return False
    for u, v in zip(a, b):
        if u.shape != v.shape or u.dtype != v.dtype:
            return False
        if not (torch.equal(u, v) or (u.dtype.is_floating_point and bool(((u == v) | (u.isnan() & v.isnan())).all()))):
            return False
    return True


def _multi_schema_names() -> Optional[set]:
    """Names of the ATen operators whose schema returns several tensors or a tensor list (None: torch does not expose them)."""
    try:
        schemas = torch._C._jit_get_all_schemas()
    except Exception:  # noqa: BLE001 - private API of torch: fall back to probing every function
        return None
    names = set()
    for s in schemas:
        if not s.name.startswith("aten::"):
            continue
        types = [str(r.type) for r in s.returns]
        if sum(t.startswith("Tensor") or t.startswith("Optional[Tensor") for t in types) >= 2 or any("List[Tensor]" in t or "Tensor[]" in t for t in types):
            names.add(s.name[6:])
    return names or None


@functools.lru_cache(maxsize=1)
def multi_forms() -> tuple:
    """Sorted ((namespace, function name, template), ...): the call forms for which plain torch returns several tensors for a
    batch-like (N, C, Y, X) or image-like (C, Y, X) probe tensor, deterministically and without changing its argument."""
    import inspect
    import warnings

    from torch.overrides import get_overridable_functions

    overridable = set()
    for lst in get_overridable_functions().values():
        for f in lst:
            try:
                overridable.add(f)
            except TypeError:
                pass
    schema = _multi_schema_names()
    prefix = {"linalg": "linalg_", "fft": "fft_", "special": "special_"}
    cands = []
    for nsname in sorted(MULTI_NS):
        ns = MULTI_NS[nsname]
        for name in sorted(dir(ns)):
            if name.startswith("_") or name.endswith("_"):
                continue
            f = getattr(ns, name, None)
            try:
                if not callable(f) or f not in overridable:
                    continue
            except TypeError:
                continue
            if schema is not None and not inspect.isfunction(f) and (prefix.get(nsname, "") + name) not in schema and name not in schema:
                continue  # a builtin whose ATen schemas all return a single tensor
            cands.append((nsname, name, f))
    dt = torch.float32
    probes = []
    for shape, N in (((3, 3), 2), ((3, 3), None)):
        if N is None:
            t, u = item_data(0, 2, shape, dt), item_data(1, 2, shape, dt, 0.25)
        else:
            t = torch.stack([item_data(j, 2, shape, dt) for j in range(N)], 0)
            u = torch.stack([item_data(j, 2, shape, dt, 0.25) for j in range(N, 2 * N)], 0)
        probes.append((t, {"twin": t + 0.5, "other": u}))
    out = []
    with warnings.catch_warnings(), torch.random.fork_rng(), torch.no_grad():
        warnings.simplefilter("ignore")
        torch.manual_seed(0)
        for nsname, name, f in cands:
            fits, random = [], False
            for tpl in sorted(MULTI_TPLS):
                if random:
                    break
                call = MULTI_TPLS[tpl]
                found = False
                for t, E in probes:
                    if random:
                        break
                    # (probing: non-negative ints and keepdim=True are enough to tell whether the template fits the function)
                    pars = [par for par in multi_params(tpl, t.ndim, (0, t.ndim - 1)) if par.get("i", 0) >= 0 and par.get("keepdim") is not False]
                    for par in pars[:4]:
                        x = t.clone()
                        rng = torch.get_rng_state()
                        try:
                            r = call(f, x, par, E)
                        except Exception:  # noqa: BLE001 - the template does not fit this function
                            r = None
                        if not torch.equal(rng, torch.get_rng_state()):
                            random = True  # draws random numbers: there is no plain-torch value to compare with
                            break
                        try:
                            if not is_multi_result(r):
                                continue
                            r2 = call(f, t.clone(), par, E)
                        except Exception:  # noqa: BLE001
                            continue
                        if torch.equal(x, t) and is_multi_result(r2) and _same_tensors(list(r), list(r2)):
                            found = True
                            break
                    if found:
                        break
                if found:
                    fits.append((nsname, name, tpl))
            if not random:
                out += fits
    return tuple(out)


def _item_perturbations(v: torch.Tensor) -> List[torch.Tensor]:
    """Other data for one item: far above / far below every item, order reversed, pattern reversed."""
    if v.dtype == torch.bool:
        return [~v, torch.zeros_like(v), torch.ones_like(v)]
    return [v + 1000, v - 1000, -v, v.flatten().flip(0).reshape(v.shape)]


def _rows_differ(a: torch.Tensor, b) -> Optional[List[bool]]:
    """Per index along dim 0 (one flag for a 0-dim tensor): do a and b differ there? None: they differ as a whole."""
    if not isinstance(b, torch.Tensor) or a.shape != b.shape or a.dtype != b.dtype:
        return None
    ne = a != b
    if a.dtype.is_floating_point:
        ne = ne & ~(a.isnan() & b.isnan())
    if a.ndim == 0:
        return [bool(ne)]
    if a.shape[0] == 0:
        return []
    if ne.numel() == 0:
        return [False] * a.shape[0]
    return ne.reshape(a.shape[0], -1).any(1).tolist()


def multi_shadow(call, is_batch: bool, sources, E: dict, pouts: List[torch.Tensor]):
    """Ownership of the outputs of an arbitrary function by intervention on plain torch: entry i (index along dim 0) of output
    k is computed from item q of operand s iff replacing the data of that item alone (by values far above / far below all
    items, negated, reversed) changes that entry.  sources: [(operand name, plain tensor, lo, hi)], 'self' first.
    Returns (lo shadows, hi shadows, cross) - cross[k][i]: the entry depends on several items of ONE operand."""
    deps = [[set() for _ in range(o.shape[0] if o.ndim else 1)] for o in pouts]
    base = {n: t.detach() for n, t, _, _ in sources}
    with torch.no_grad():
        for si, (sname, t, _, _) in enumerate(sources):
            for q in (range(t.shape[0]) if is_batch and t.ndim else [None]):
                item = base[sname] if q is None else base[sname][q]
                for pert in _item_perturbations(item):
                    t2 = base[sname].clone()
                    if q is None:
                        t2.copy_(pert)
                    else:
                        t2[q] = pert
                    E2 = dict(E)
                    for n, b in base.items():
                        if n != "self":
                            E2[n] = b
                    if sname == "self":
                        arg = t2
                    else:
                        arg, E2[sname] = base["self"], t2
                    E2["self"] = E2["_p"] = arg
                    try:
                        outs2 = call(arg, E2)
                        outs2 = list(outs2) if isinstance(outs2, (tuple, list)) else [outs2]
                    except Exception:  # noqa: BLE001 - the outcome changed altogether: everything depends on this item
                        outs2 = []
                    for k, o in enumerate(pouts):
                        rows = _rows_differ(o.detach(), outs2[k]) if len(outs2) == len(pouts) else None
                        for i in range(len(deps[k])):
                            if rows is None or rows[i]:
                                deps[k][i].add((si, q))
    owners = {}
    for si, (_, t, lo, hi) in enumerate(sources):
        for q in (range(t.shape[0]) if is_batch and t.ndim else [None]):
            a, b = (lo, hi) if q is None else (lo[q], hi[q])
            owners[(si, q)] = (float(a.min()), float(b.max())) if a.numel() else (NAN, NAN)
    los, his, cross = [], [], []
    for k, o in enumerate(pouts):
        lo_k = torch.full(tuple(o.shape), NAN, dtype=torch.float64)
        hi_k = torch.full(tuple(o.shape), NAN, dtype=torch.float64)
        cr = []
        for i, S in enumerate(deps[k]):
            per_source = collections.Counter(si for si, _ in S)
            cr.append(any(c > 1 for c in per_source.values()))
            if not S:
                continue
            a = [owners[s][0] for s in sorted(S, key=str)]
            b = [owners[s][1] for s in sorted(S, key=str)]
            va = NAN if any(math.isnan(v) for v in a + b) else min(a)
            vb = NAN if any(math.isnan(v) for v in a + b) else max(b)
            if o.ndim == 0:
                lo_k.fill_(va), hi_k.fill_(vb)
            else:
                lo_k[i], hi_k[i] = va, vb
        los.append(lo_k), his.append(hi_k), cross.append(cr)
    return los, his, cross


def batch_related(op: dict, outs: List[torch.Tensor], p: torch.Tensor) -> bool:
    """Does the call work along the first dimension (dim / positional int names it), change it, or read a second operand?"""
    nd = p.ndim
    if op["tpl"] in MULTI_OPERAND_TPLS or ("dim" in op and op["dim"] % nd == 0):
        return True
    if op["tpl"] in ("x_i", "x_i_kd") and op["i"] % nd == 0:
        return True
    return any(t.ndim != nd or t.shape[0] != p.shape[0] for t in outs)


def multi_ops_for(p: torch.Tensor, env: dict, D: int, dims, select: str = "all") -> List[dict]:
    """The multi-output call forms with every parameter combination that plain torch accepts for the tensor `p` (and returns
    several tensors for); one op per distinct (function, keyword / positional form, outputs).
    select: 'all', 'batch' (only calls that are batch_related), 'operands' (f(x) and the templates with a second operand)."""
    ops, seen = [], set()
    nd = p.ndim
    for ns, fn, tpl in multi_forms():
        if select == "operands" and tpl != "x" and tpl not in MULTI_OPERAND_TPLS:
            continue
        for par in multi_params(tpl, nd, dims):
            op = dict({"op": "multi", "ns": ns, "fn": fn, "tpl": tpl}, **par)
            r = simulate(op, p, env, D)
            if not isinstance(r, list) or not r or (select == "batch" and not batch_related(op, r, p)):
                continue
            form = tpl if tpl in MULTI_OPERAND_TPLS else ("kw" if any(w in tpl for w in ("dim", "uniq", "ri")) else "pos")
            key = (ns, fn, form, tuple((tuple(t.shape), str(t.dtype), t.detach().numpy().tobytes()) for t in r))
            if key in seen:
                continue
            seen.add(key)
            ops.append(op)
    return ops


def op_name(op: dict) -> str:
    """Stable name of the call form (used in violation kinds and labels)."""
    o = op["op"]
    if o == "multi":
        return f"{op['ns']}.{op['fn']}"
    if o in ("unary", "inplace", "binary", "reduce", "cast"):
        return op["fn"]
    if o == "getitem":
        return "getitem_" + index_class(op["ix"])
    if o in ("split", "tensor_split"):
        st_ = op.get("sectype", "int" if isinstance(op["sec"], int) else "list")
        return o if st_ == "int" else f"{o}_{'list' if st_ in ('list', 'tuple') else st_}"
    if o == "narrow":
        return "narrow" if op.get("style") != "torch" else "torch_narrow"
    return o


def op_operand_names(op: dict) -> List[str]:
    """Names of the further operands ('twin', 'other', ...) an op reads besides the object it is applied to."""
    o = op["op"]
    if o in ("cat", "stack"):
        return [n for n in op["operands"] if n != "self"]
    if o in ("binary", "where", "append"):
        return [op["other"]] if op.get("other") not in (None, "self") else []
    if o == "multi" and op["tpl"] in MULTI_OPERAND_TPLS:
        return [op["other"]]
    return []


def touches_dim0(op: dict, ndim: int) -> bool:
    """Does the op reorder / select / split / join along dimension 0?"""
    o = op["op"]

    def is0(d):
        return d is not None and int(d) % ndim == 0

    if o == "getitem":
        ix = op["ix"]
        first = ix["v"][0] if ix["t"] == "tuple" and ix["v"] else ix
        if ix["t"] == "tuple" and not ix["v"]:
            return False
        return not (first["t"] == "ellipsis" or (first["t"] == "slice" and first["v"] in ([None, None, None], [None, None, 1])))
    if o in ("narrow", "select", "index_select", "take_along_dim", "gather", "cat", "stack", "split", "split_with_sizes",
             "tensor_split", "chunk", "unbind"):
        return is0(op["dim"])
    if o in ("iter", "append", "from_images"):
        return True
    if o == "multi":  # (the functions called without `dim` are classed by what they do: see run_program)
        return is0(op.get("dim"))
    if o == "flip":
        return any(is0(d) for d in op["dims"])
    if o == "roll":
        dims = op["dims"] if isinstance(op["dims"], list) else [op["dims"]]
        return any(is0(d) for d in dims)
    if o == "permute":
        return op["perm"][0] % ndim != 0
    if o in ("transpose", "movedim"):
        return is0(op["a"]) != is0(op["b"])
    if o == "expand":
        return op["sizes"][0] not in (-1,) and len(op["sizes"]) == ndim
    if o == "repeat":
        return len(op["reps"]) == ndim and op["reps"][0] != 1
    if o == "reduce":
        d = op["dim"]
        return d is None or any(is0(x) for x in (d if isinstance(d, list) else [d]))
    return False


# ---------------------------------------------------------------------------------------
# executor: real object, plain twin and id shadows side by side


def _deepali_dir() -> str:
    import deepali.core

    return os.path.dirname(os.path.dirname(os.path.abspath(deepali.core.__file__))) + os.sep


def raised_in_deepali(exc: BaseException) -> Optional[str]:
    root = _deepali_dir()
    inner = None
    for fr in traceback.extract_tb(exc.__traceback__):
        if os.path.abspath(fr.filename).startswith(root):
            inner = fr
    if inner is None:
        return None
    return f"{os.path.relpath(inner.filename, root)}:{inner.name}"


def guarded(fn, name: str):
    """Run deepali code; an exception raised inside deepali on a program plain torch accepted is a crash violation."""
    try:
        return fn()
    except (Violation, Skip):
        raise
    except Exception as e:  # noqa: BLE001 - re-raised unless it comes from deepali code
        where = raised_in_deepali(e)
        if where is None:
            raise
        raise Violation(f"crash:{name}:{type(e).__name__}", f"{type(e).__name__} at {where}: {str(e)[:200]}")


def _outs(r) -> Optional[list]:
    if isinstance(r, torch.Tensor):
        return None
    if isinstance(r, (tuple, list)):
        return list(r)
    raise Skip(f"result type {type(r).__name__}")


def shadow_elem(shadows: List[torch.Tensor], shape, mode: str) -> torch.Tensor:
    f = torch.minimum if mode == "lo" else torch.maximum
    out = functools.reduce(f, shadows)
    return out.broadcast_to(tuple(shape))


def shadow_reduce(sh: torch.Tensor, dim, keepdim: bool, shape, mode: str) -> torch.Tensor:
    if sh.numel() == 0:
        return torch.full(tuple(shape), NAN, dtype=torch.float64)
    f = torch.amin if mode == "lo" else torch.amax
    if dim is None:
        return f(sh).reshape(tuple(shape))
    d = tuple(dim) if isinstance(dim, list) else dim
    return f(sh, d, keepdim=keepdim)


def shadow_spatial(sh: torch.Tensor, shape, mode: str) -> torch.Tensor:
    shape = tuple(shape)
    if sh.numel() == 0 or sh.shape[:2] != shape[:2]:
        return torch.full(shape, NAN, dtype=torch.float64)
    v = sh.flatten(2)
    v = v.amin(2) if mode == "lo" else v.amax(2)
    return v.reshape(v.shape + (1,) * (len(shape) - 2)).expand(shape)


def entry_owner(lo: torch.Tensor, hi: torch.Tensor):
    """Owner of the data of one output entry: int id, 'mixed', or None (empty / unknown)."""
    if lo.numel() == 0:
        return None
    a, b = float(lo.min()), float(hi.max())
    if math.isnan(a) or math.isnan(b) or bool(torch.isnan(lo).any()) or bool(torch.isnan(hi).any()):
        return None
    if a != b:
        return "mixed"
    return int(round(a))


def taint_mixed(x, lo: torch.Tensor, hi: torch.Tensor):
    """An entry that mixes data of several items has no owner, and neither has anything later cut out of it: the grid it
    was given (e.g. that of the first operand of a channel-wise cat of two images) is all it can hand on."""
    kind = dtype_of(x)
    if kind is None:
        return lo, hi
    if kind in IMAGE_KINDS:
        if entry_owner(lo, hi) == "mixed":
            return torch.full_like(lo, NAN), torch.full_like(hi, NAN)
        return lo, hi
    mixed = [i for i in range(lo.shape[0]) if entry_owner(lo[i], hi[i]) == "mixed"]
    if mixed:
        lo, hi = lo.clone(), hi.clone()
        for i in mixed:
            lo[i], hi[i] = NAN, NAN
    return lo, hi


def dtype_of(real):
    from deepali.data import FlowField, FlowFields, Image, ImageBatch

    for name, cls in (("FlowFields", FlowFields), ("ImageBatch", ImageBatch), ("FlowField", FlowField), ("Image", Image)):
        if isinstance(real, cls):
            return name
    return None


class State:
    def __init__(self, case):
        self.case = case
        self.D = len(case["shape"])
        self.kind = case["kind"]
        self.axes = case.get("axes")
        self.G: Dict[int, dict] = {}
        self.labels: List[str] = []
        self.nt = False
        self.mixed = 0
        self.checked = 0
        self.op_sizes: set = set()  # batch sizes of the deepali batches the current operation reads
        self.op_has_image = False   # ... and whether it reads a single Image / FlowField
        self.judgeable = False      # a multi-output function returned something that could have been described again


def mixed_entry(stt: State, r, kind: str, i, lo, hi, cross, name: str, sfx: str):
    """An entry whose data is computed from several input items has no item whose grid it could carry.

    Tolerated (grid count / shape only; see ASSUMPTIONS): operand-wise mixing - entry i of the result combines entry i of
    the first operand with other operands (x + other batch, channel-wise cat) and inherits from the first operand -, and
    the shape coincidences of reshaping single-output ops, as long as the result has the batch size of a batch it read.
    Not tolerated: the result has a batch size that none of the batches it was computed from has (nothing it could inherit
    matches), and - where the shadow knows which items an entry was computed from (reductions, functions with several
    outputs) - an entry computed from several items of ONE batch (across the batch dimension)."""
    stt.mixed += 1
    what = f"entry {i} of {kind}{tuple(r.shape)}" if i is not None else f"{kind}{tuple(r.shape)}"
    rng = f"items {float(lo.min()):g}..{float(hi.max()):g}"
    if cross:
        raise Violation(f"mixed_entry_described:{name}{sfx}", f"{what} is computed from several items of one batch ({rng}) yet carries a grid; "
                                                              f"it must be a plain tensor")
    if i is not None and r.shape[0] not in stt.op_sizes:
        raise Violation(f"mixed_entry_described:{name}{sfx}", f"{what} mixes {rng} and the batch size {r.shape[0]} is not that of any batch "
                                                              f"it was computed from ({sorted(stt.op_sizes)}): no grids it could inherit")
    if i is None and not stt.op_has_image:
        raise Violation(f"mixed_entry_described:{name}{sfx}", f"{what} mixes {rng} of a batch yet is described as one image")


def check_result(stt: State, r, pr, lo, hi, name: str, sfx: str, flow_in: bool, cross=None):
    """Oracle for one output tensor `r` of an operation (pr: plain torch result, lo/hi: id shadows; cross: per entry along
    dim 0, whether the shadow found it to depend on several items of one batch - None if the shadow does not tell)."""
    if not isinstance(r, torch.Tensor):
        raise Violation(f"not_a_tensor:{name}", f"result is {type(r).__name__} where plain torch returns a Tensor")
    if tuple(r.shape) != tuple(pr.shape) or r.dtype != pr.dtype:
        raise Violation(f"shape_dtype:{name}", f"result {tuple(r.shape)} {r.dtype}, plain torch {tuple(pr.shape)} {pr.dtype}")
    rt = r.as_subclass(torch.Tensor)
    same = torch.equal(rt, pr)
    if not same and rt.dtype.is_floating_point:  # NaN (e.g. mean over an empty dimension) compares unequal to itself
        same = bool(((rt == pr) | (rt.isnan() & pr.isnan())).all())
    if not same:
        raise Violation(f"data_mismatch:{name}", f"values differ from plain torch: max|d|={float((rt.double() - pr.double()).abs().max()):.4g}")
    kind = dtype_of(r)
    if kind is None:
        if type(r) is not torch.Tensor:
            raise Violation(f"odd_type:{name}", f"result type {type(r).__name__}")
        return "Tensor"
    stt.checked += 1
    if kind in BATCH_KINDS:
        grids = r.grids()
        if not isinstance(grids, tuple):  # documented return type Tuple[Grid, ...] (append() concatenates these tuples)
            raise Violation(f"grids_type:{name}", f"{kind}.grids() returned a {type(grids).__name__}, not a tuple")
        if len(grids) != r.shape[0]:
            raise Violation(f"grid_count:{name}{sfx}", f"{kind}{tuple(r.shape)} carries {len(grids)} grids for {r.shape[0]} entries")
        for i, g in enumerate(grids):
            if tuple(g.shape) != tuple(r.shape[2:]):
                raise Violation(f"grid_shape:{name}{sfx}", f"grid {i} shape {tuple(g.shape)} != data spatial shape {tuple(r.shape[2:])}")
        for i, g in enumerate(grids):
            own = entry_owner(lo[i], hi[i])
            if own == "mixed":
                mixed_entry(stt, r, kind, i, lo[i], hi[i], bool(cross is not None and cross[i]), name, sfx)
            elif own is not None:
                bad = grid_mismatch(g, stt.G[own])
                if bad:
                    raise Violation(f"misaligned_grid:{name}{sfx}",
                                    f"entry {i} of {kind}{tuple(r.shape)} holds item {own} but its grid differs: {bad}")
    else:
        g = r.grid()
        if r.ndim != stt.D + 1 or tuple(g.shape) != tuple(r.shape[1:]):
            raise Violation(f"grid_shape:{name}{sfx}", f"{kind}{tuple(r.shape)} with grid shape {tuple(g.shape)}")
        own = entry_owner(lo, hi)
        if own == "mixed":
            mixed_entry(stt, r, kind, None, lo, hi, bool(cross is not None and any(cross)), name, sfx)
        elif own is not None:
            bad = grid_mismatch(g, stt.G[own])
            if bad:
                raise Violation(f"misaligned_grid:{name}{sfx}", f"{kind}{tuple(r.shape)} holds item {own} but its grid differs: {bad}")
    if kind in ("FlowFields", "FlowField"):
        ax = r.axes()
        if flow_in and ax.value != stt.axes:
            raise Violation(f"axes_changed:{name}", f"{kind} result has axes {ax.value}, input had {stt.axes}")
        nch, nsp = (r.shape[1], r.ndim - 2) if kind == "FlowFields" else (r.shape[0], r.ndim - 1)
        if nch != nsp:  # (an empty batch has no grid that fixes the dimension: only self-consistency is required)
            raise Violation(f"flow_channels:{name}", f"{kind}{tuple(r.shape)} with {nch} channels")
    return kind


def check_copy(stt: State, x, r, name: str, type_too: bool = True):
    """copy / deepcopy / pickle / _make_instance preserve type (and axes, grids, data: checked by check_result); these and
    clone hand on the requires_grad flag of their input (as they do for a plain tensor)."""
    if type_too and type(r) is not type(x):
        raise Violation(f"copy_type:{name}", f"{name} of {type(x).__name__} returned {type(r).__name__}")
    if isinstance(r, torch.Tensor) and isinstance(x, torch.Tensor) and r.requires_grad != x.requires_grad:
        raise Violation(f"requires_grad:{name}", f"{name} of a {type(x).__name__} with requires_grad={x.requires_grad} has requires_grad={r.requires_grad}")


def view_class(t: torch.Tensor) -> str:
    """Memory layout of a tensor: dense (owns its whole storage, contiguous), offset_view (contiguous part of a larger
    storage at offset > 0), head_view (contiguous part at offset 0), strided_view (anything non-contiguous)."""
    if not t.is_contiguous():
        return "strided_view"
    if t.storage_offset() != 0:
        return "offset_view"
    if t.untyped_storage().nbytes() != t.numel() * t.element_size():
        return "head_view"
    return "dense"


def check_independent(x, r, name: str):
    kx = dtype_of(x)
    if kx is None or dtype_of(r) != kx:
        return
    gx = x.grids() if kx in BATCH_KINDS else (x.grid(),)
    gr = r.grids() if kx in BATCH_KINDS else (r.grid(),)
    for a in gr:
        if any(a is b for b in gx):
            raise Violation(f"shared_grid:{name}", f"{name} result shares a Grid object with its input")
    ptrs = {t.data_ptr() for b in gx for t in (b.center(), b.spacing(), b.direction())}
    for a in gr:  # (Grid.center() etc. return the stored tensors: shared storage lets an in-place edit of one reach the other)
        if any(t.data_ptr() in ptrs for t in (a.center(), a.spacing(), a.direction())):
            raise Violation(f"shared_grid_storage:{name}", f"{name} result has a Grid whose attribute tensors share storage with a Grid of its input")
    if r.numel() and (r.data_ptr() == x.data_ptr() or r.untyped_storage().data_ptr() == x.untyped_storage().data_ptr()):
        raise Violation(f"shared_data:{name}", f"{name} result shares storage with its input")


def grids_of(real) -> list:
    return list(real.grids()) if dtype_of(real) in BATCH_KINDS else [real.grid()]


def operand_state(real) -> Optional[dict]:
    """What an operation that merely reads `real` must leave alone: type, shape, dtype, requires_grad, axes, the container
    type / number / identity of its grids and every slot of each of them. (Keeps the Grid objects alive: ids stay unique.)"""
    kind = dtype_of(real)
    if kind is None:
        return None
    grids = grids_of(real)
    return {"type": type(real), "shape": tuple(real.shape), "dtype": real.dtype, "rg": bool(real.requires_grad),
            "axes": real.axes().value if kind in ("FlowFields", "FlowField") else None,
            "cont": type(real.grids()).__name__ if kind in BATCH_KINDS else "Grid",
            "grids": grids, "slots": [grid_slots(g) for g in grids]}


def check_operand_unchanged(real, before: Optional[dict], plain: Optional[torch.Tensor], name: str, role: str):
    """An operand of an operation (and the object a copy was made of) is the same object afterwards: its grids are the same
    Grid objects, as many as before, with unchanged slots; axes, type, shape, flags unchanged; data equal to `plain` (the
    plain twin after the same operation - changed in place exactly when plain torch changes its operand in place)."""
    if before is None:
        return
    what = f"{role} operand of {name}"
    if type(real) is not before["type"] or tuple(real.shape) != before["shape"] or real.dtype != before["dtype"] or bool(real.requires_grad) != before["rg"]:
        raise Violation(f"operand_changed:{name}", f"{what}: was {before['type'].__name__}{before['shape']} {before['dtype']} rg={before['rg']}, "
                                                   f"is {type(real).__name__}{tuple(real.shape)} {real.dtype} rg={real.requires_grad}")
    kind = dtype_of(real)
    cont = type(real.grids()).__name__ if kind in BATCH_KINDS else "Grid"
    grids = grids_of(real)
    if cont != before["cont"] or len(grids) != len(before["grids"]):
        raise Violation(f"operand_grids_changed:{name}", f"{what}: held {len(before['grids'])} grids ({before['cont']}), afterwards {len(grids)} ({cont}) "
                                                         f"for {real.shape[0] if kind in BATCH_KINDS else 1} entries")
    for i, (g, g0, s0) in enumerate(zip(grids, before["grids"], before["slots"])):
        if g is not g0:
            raise Violation(f"operand_grids_changed:{name}", f"{what}: grid {i} was replaced by another Grid object")
        s1 = grid_slots(g)
        if s1 != s0:
            raise Violation(f"operand_grid_modified:{name}", f"{what}: slots (size, center, spacing, direction, align_corners) of grid {i} changed from {s0} to {s1}")
    if before["axes"] is not None and real.axes().value != before["axes"]:
        raise Violation(f"operand_axes_changed:{name}", f"{what}: axes were {before['axes']}, are {real.axes().value}")
    if plain is not None:
        rt = real.as_subclass(torch.Tensor)
        if not (torch.equal(rt, plain) or (rt.dtype.is_floating_point and bool(((rt == plain) | (rt.isnan() & plain.isnan())).all()))):
            raise Violation(f"operand_data_changed:{name}", f"{what}: data differ from what plain torch leaves in its operand")


def followup_dims(g, meth: str) -> list:
    """Axes along which the follow-up derivation is well defined for every grid (C03's business otherwise): upsample where
    there is more than one sample, downsample where more than one sample remains."""
    if meth == "upsample":
        return [d for d, n in enumerate(g.size()) if n >= 2]
    return [d for d, v in enumerate(g._size.tolist()) if v > 2.0]


def check_same_grids(x, r, name: str) -> int:
    """Grids of a copy-like result `r` (copy, deepcopy, pickle, clone, detach, contiguous, casts, ...) against those of its
    input `x`, pairwise: equal under Grid.__eq__ (both ways), same align_corners flag, every slot identical, and the same
    follow-up derivation (Grid.upsample along the axes with more than one sample; Grid.downsample likewise) applied to both
    gives grids with identical slots - a copy behaves like the original in whatever is derived from it later.
    Returns the number of grids with a fractional stored size that were compared."""
    kx = dtype_of(x)
    if kx is None or dtype_of(r) is None or (kx in BATCH_KINDS) != (dtype_of(r) in BATCH_KINDS):
        return 0
    gx, gr = grids_of(x), grids_of(r)
    if len(gx) != len(gr):
        return 0  # (grid count: check_result)
    nfrac = 0
    for i, (a, b) in enumerate(zip(gx, gr)):
        if not (a == b) or not (b == a) or bool(a.align_corners()) != bool(b.align_corners()):
            raise Violation(f"copy_grid_not_equal:{name}", f"grid {i} of the {name} result {b!r} != grid of its input {a!r} (Grid.__eq__ / align_corners)")
        sa, sb = grid_slots(a), grid_slots(b)
        if sa != sb:
            raise Violation(f"copy_grid_slots:{name}", f"grid {i} of the {name} result has slots {sb}, its input {sa}")
        frac = any(v != math.ceil(v) for v in sa[0])
        nfrac += int(frac)
        if a is b or not (frac or i == 0):
            continue
        for meth in ("upsample", "downsample"):
            dims = followup_dims(a, meth)
            if not dims:
                continue
            fa, fb = getattr(a, meth)(1, dims=dims), getattr(b, meth)(1, dims=dims)
            if grid_slots(fa) != grid_slots(fb):
                raise Violation(f"copy_grid_followup:{name}", f"Grid.{meth}() of grid {i} of the {name} result gives {fb!r}, of its input {fa!r}")
    return nfrac


def initial_objects(case) -> Tuple[Obj, Dict[str, Obj], Dict[int, dict]]:
    kind, shape, C, N = case["kind"], tuple(case["shape"]), case["C"], case["N"]
    dt = _dt(case["dtype"])
    axes = case.get("axes")
    if kind in BATCH_KINDS:
        ids = list(range(N))
        M = case.get("M", 1)
        oids = list(range(N, N + M))
    else:
        ids = [case.get("id", 0)]
        oids = [ids[0] + 1]
    plan = case.get("gplan")
    if plan is None:  # all items have their own geometry and the same align_corners
        G: Dict[int, dict] = {j: item_desc(j, shape, case["ac"]) for j in ids + oids}
        root = None
    else:
        G, root = plan_tables(plan, shape, ids[0])
        if sorted(G) != ids + oids:
            raise ValueError("grid plan does not match the items of the case")
    pool = GridPool(G, root)  # main and 'other' may hold the very same Grid objects, the twin holds equal-valued ones
    init = case.get("init") or {}
    main = make_obj(kind, ids, C, shape, dt, pool, axes, layout=init.get("layout"), rg=bool(init.get("rg")))
    others = {"twin": make_obj(kind, ids, C, shape, dt, GridPool(G, root), axes, off=0.5),
              "other": make_obj(kind, oids, C, shape, dt, pool, axes, off=0.25)}
    return main, others, G


def plain_env(others: Dict[str, Obj], role: str, cur) -> dict:
    E = {"self": cur}
    for n, o in others.items():
        E[n] = getattr(o, role)
    return E


def run_program(case, collect=None):
    stt = State(case)
    main, others, G = initial_objects(case)
    stt.G = G
    D = stt.D
    x, p, lo, hi = main.real, main.plain, main.lo, main.hi  # (make_obj built the twin in its own storage)
    others_plain = {n: Obj(o.real, o.plain.clone(), o.lo, o.hi) for n, o in others.items()}
    input_states = {"self": operand_state(main.real), **{n: operand_state(o.real) for n, o in others.items()}}
    nfrac = 0
    flow_in = case["kind"] in ("FlowFields", "FlowField")
    nsteps = 0
    for k, op in enumerate(case["ops"]):
        cur_kind = dtype_of(x)
        if cur_kind is None:
            stt.labels.append(f"plain_before_step={k}")
            break
        name = op_name(op)
        cat, call, idops = interpret(op, D)
        is_batch = cur_kind in BATCH_KINDS
        nb = x.shape[0] if is_batch else 1
        t0 = is_batch and touches_dim0(op, x.ndim)
        sfx = ":dim0" if t0 else ""
        # plain torch first: the program must be valid there
        Ep = plain_env(others_plain, "plain", p)
        Ep["_p"] = p
        Ep["plain"] = aux(tuple(main.plain.shape), p.dtype if p.dtype.is_floating_point else torch.float32)
        p_before = p
        rng_state = torch.get_rng_state() if cat == "multi" else None
        try:
            pr = call(p, Ep)
        except Exception as e:  # noqa: BLE001 - invalid program for plain torch: outside the domain
            raise Skip(f"invalid for plain torch: {op['op']}: {type(e).__name__}")
        if rng_state is not None and not torch.equal(rng_state, torch.get_rng_state()):
            raise Skip("the function draws random numbers for these arguments")
        pouts = _outs(pr)
        # shadows
        Elo, Ehi = plain_env(others_plain, "lo", lo), plain_env(others_plain, "hi", hi)
        for E in (Elo, Ehi):
            E["_p"] = p_before
            E["plain"] = torch.full(tuple(main.plain.shape), NAN, dtype=torch.float64)
        shapes = [tuple(t.shape) for t in (pouts if pouts is not None else [pr])]
        crossl = None
        if cat == "struct":
            lor, hir = call(lo, Elo), call(hi, Ehi)
        elif cat == "same" and pouts is not None:  # copies of [x, x] / of the entries of x along dim 0
            n = lo.shape[0]
            if op.get("via") == "items":
                lor, hir = list(lo), list(hi)
            elif op.get("via") == "chunks":
                lor, hir = [lo[i:i + 1] for i in range(n)], [hi[i:i + 1] for i in range(n)]
            else:
                lor, hir = [lo] * len(pouts), [hi] * len(pouts)
        elif cat == "same":
            lor, hir = lo, hi
        elif cat == "elem":
            lor = shadow_elem([lo] + [Elo[n] for n in idops], shapes[0], "lo")
            hir = shadow_elem([hi] + [Ehi[n] for n in idops], shapes[0], "hi")
        elif cat == "reduce":
            lor = shadow_reduce(lo, op["dim"], bool(op["keepdim"]), shapes[0], "lo")
            hir = shadow_reduce(hi, op["dim"], bool(op["keepdim"]), shapes[0], "hi")
            if t0 and nb >= 2:  # reduced across the batch dimension: every entry is computed from all items of the batch
                crossl = [[True] * (shapes[0][0] if len(shapes[0]) else 1)]
        elif cat == "multi":
            srcs = [("self", p_before, lo, hi)] + [(n, others_plain[n].plain, others_plain[n].lo, others_plain[n].hi)
                                                   for n in op_operand_names(op)]
            lor, hir, crossl = multi_shadow(call, is_batch, srcs, Ep, pouts if pouts is not None else [pr])
            if pouts is None:
                lor, hir = lor[0], hir[0]
            if is_batch and any(c for cr in crossl for c in cr):
                t0 = True
                sfx = ":dim0"
        else:
            lor, hir = shadow_spatial(lo, shapes[0], "lo"), shadow_spatial(hi, shapes[0], "hi")
        # expected grids after the documented grid-changing override
        G_after = None
        if op["op"] == "narrow" and op.get("style") != "torch":
            first_sp = 2 if is_batch else 1
            d = op["dim"] % x.ndim
            if d >= first_sp:
                G_after = {j: narrow_desc(g, x.ndim - 1 - d, op["start"], op["len"]) for j, g in stt.G.items()}
        # the real thing
        Er = plain_env(others_plain, "real", x)
        Er["_p"] = p_before
        Er["plain"] = Ep["plain"]
        x_state = operand_state(x)
        reads = [x] + [others_plain[on].real for on in op_operand_names(op) if on in others_plain]
        stt.op_sizes = {int(o.shape[0]) for o in reads if dtype_of(o) in BATCH_KINDS}
        stt.op_has_image = any(dtype_of(o) in IMAGE_KINDS for o in reads)
        r = guarded(lambda: call(x, Er), name)
        # operands are only read: the object the operation was applied to and the other batches / images involved hold the
        # same Grid objects (as many, unchanged) and - unless plain torch works in place - the same data afterwards
        guarded(lambda: check_operand_unchanged(x, x_state, p_before, name, "first"), name)
        for on in sorted(set(op_operand_names(op)) & set(others_plain)):
            guarded(lambda on=on: check_operand_unchanged(others_plain[on].real, input_states[on], others_plain[on].plain, name, f"'{on}'"), name)
        routs = r if isinstance(r, (tuple, list)) else None
        if (pouts is None) != (routs is None):
            raise Violation(f"result_structure:{name}", f"deepali returned {type(r).__name__}, plain torch {type(pr).__name__}")
        if pouts is not None and len(routs) != len(pouts):
            raise Violation(f"result_structure:{name}", f"{len(routs)} outputs, plain torch {len(pouts)}")
        if cat == "multi" and type(pr) not in (tuple, list) and type(r) is not type(pr):  # (x.max(dim).values must keep working)
            raise Violation(f"result_container:{name}", f"deepali returned a {type(r).__name__}, plain torch the named tuple {type(pr).__name__}")
        if G_after is not None:
            stt.G = G_after
        rl = list(routs) if routs is not None else [r]
        pl = pouts if pouts is not None else [pr]
        ll = list(lor) if pouts is not None else [lor]
        hl = list(hir) if pouts is not None else [hir]
        kinds = []
        for i in range(len(rl)):
            kinds.append(guarded(lambda i=i: check_result(stt, rl[i], pl[i], ll[i], hl[i], name, sfx, flow_in,
                                                          crossl[i] if crossl is not None else None), name))
        if cat == "multi":
            stt.labels.append(f"multi:tpl={op['tpl']}")
            if nb >= 2 and any(t.ndim == x.ndim and tuple(t.shape[-D:]) == tuple(x.shape[-D:]) for t in pl):
                stt.judgeable = True
        is_clone = op["op"] == "cast" and op["fn"] in ("clone", "torch_clone")
        if cat == "same" and op.get("via") not in ("items", "chunks"):  # copy-like: the grids are those of the input, slot by slot
            for ri in rl:
                nfrac += guarded(lambda ri=ri: check_same_grids(x, ri, name), name)
        if op["op"] in COPY_OPS or is_clone:
            via = op.get("via")
            if via == "items":  # the inputs of the copies are the entries of x
                srcs = guarded(lambda: [x[i] for i in range(x.shape[0])], name)
            elif via == "chunks":
                srcs = guarded(lambda: [x[i:i + 1] for i in range(x.shape[0])], name)
            else:
                srcs = [x] * len(rl)
            if via == "pair" and rl[0] is not rl[1]:  # (the memo of copy.deepcopy / pickle: one object, one copy)
                raise Violation(f"copy_memo:{name}", f"{name} of [x, x] returned two different objects")
            for xi, ri, pi in zip(srcs, rl, pl):
                if ri is xi:  # (a copy is a new object: attributes set on it, e.g. grid_(), must not reach the original)
                    raise Violation(f"copy_identity:{name}", f"{name} returned its input object")
                check_copy(stt, xi, ri, name)
                if via in ("items", "chunks"):
                    nfrac += guarded(lambda xi=xi, ri=ri: check_same_grids(xi, ri, name), name)
                if is_clone and (ri.grad_fn is None) != (pi.grad_fn is None):
                    raise Violation(f"autograd_history:{name}", f"{name}: grad_fn is {type(ri.grad_fn).__name__}, of the plain tensor {type(pi.grad_fn).__name__}")
                if op["op"] in ("deepcopy", "pickle") or is_clone:
                    check_independent(xi, ri, name)
            stt.labels.append(f"copy_of={view_class(x)}")
            if view_class(x) == "offset_view" and kinds and kinds[0] != "Tensor":
                stt.labels.append(f"{op['op']}_of_offset_view")
        nsteps += 1
        stt.labels.append(f"op={name}")
        stt.labels.append(f"{cur_kind}.{op['op']}->{'+'.join(sorted(set(kinds))) if kinds else 'none'}")
        if t0 and nb >= 2 and any(kd != "Tensor" for kd in kinds):
            stt.nt = True
        if collect is not None:
            collect.append((name + sfx, cur_kind, kinds))
        if not rl:
            break
        j = op.get("pick", 0) % len(rl)
        x, p, lo, hi = rl[j], pl[j], ll[j], hl[j]
        lo, hi = taint_mixed(x, lo, hi)
    # the objects the case started with still hold their grids (a later operation on a result must not reach back either);
    # the data of the main object may have been changed through a view of it (in-place operations), that of the others not
    check_operand_unchanged(main.real, input_states["self"], None, "program", "initial")
    for on, o in others_plain.items():
        check_operand_unchanged(o.real, input_states[on], o.plain, "program", f"'{on}'")
    if nfrac:
        stt.labels.append("copy_of_fractional_grid")
    info = {"nontrivial": (stt.nt or stt.judgeable) and case.get("N", 1) >= 2,
            "labels": stt.labels + [f"kind={case['kind']}", f"N={case.get('N', 1)}", f"D={D}", f"steps={nsteps}"]
            + ([f"excluded_known:{e}" for e in case.get("excluded", [])]) + (["mixed_entries"] if stt.mixed else [])
            + [f"init={(case.get('init') or {}).get('layout') or 'dense'}"] + (["init:requires_grad"] if (case.get("init") or {}).get("rg") else [])
            + plan_labels(case.get("gplan"), case.get("N", 1), G)}
    return info


# ---------------------------------------------------------------------------------------
# program generator (shape-aware: the program is simulated on the plain twin while it is drawn)


def _ints(lo, hi):
    return st.integers(lo, hi)


def _batch_index(draw, n: int, allow_bool: bool = True):
    """Index object for a dimension of size n (descriptor)."""
    kinds = ["int", "slice", "slice", "list", "tensor", "np"] + (["blist", "btensor", "bnp"] if allow_bool else [])
    k = draw(st.sampled_from(kinds))
    if n == 0 and k not in ("slice",):
        k = "slice"
    if k == "int":
        return {"t": "int", "v": draw(_ints(-n, n - 1))}
    if k == "slice":
        a = draw(st.one_of(st.none(), _ints(0, n)))
        b = draw(st.one_of(st.none(), _ints(-n, n)))
        c = draw(st.sampled_from([None, None, 1, 2]))
        return {"t": "slice", "v": [a, b, c]}
    if k in ("list", "tensor", "np"):
        return {"t": k, "v": draw(st.lists(_ints(-n, n - 1), min_size=0 if k == "list" else 1, max_size=4))}
    return {"t": k, "v": draw(st.lists(st.booleans(), min_size=n, max_size=n))}


def _sp_index(draw, n: int):
    k = draw(st.sampled_from(["full", "full", "full0", "part", "int"]))
    if k == "full":
        return {"t": "slice", "v": [None, None, None]}
    if k == "full0":
        return {"t": "slice", "v": [0, n, draw(st.sampled_from([None, 1]))]}
    if k == "int" and n > 0:
        return {"t": "int", "v": draw(_ints(0, n - 1))}
    a = draw(_ints(0, n))
    return {"t": "slice", "v": [a, draw(_ints(a, n)), None]}


def _chan_index(draw, c: int):
    k = draw(st.sampled_from(["int", "slice", "slice", "list", "full"]))
    if c == 0 or k == "full":
        return {"t": "slice", "v": [None, None, None]}
    if k == "int":
        return {"t": "int", "v": draw(_ints(-c, c - 1))}
    if k == "list":
        return {"t": "list", "v": draw(st.lists(_ints(0, c - 1), min_size=1, max_size=3))}
    a = draw(_ints(0, c))
    return {"t": "slice", "v": [a, draw(_ints(a, c)), None]}


ELL = {"t": "ellipsis"}
NONE = {"t": "none"}
FULL = {"t": "slice", "v": [None, None, None]}


def gen_getitem(draw, s, batch: bool):
    n = s[0]
    form = draw(st.sampled_from(["single", "single", "single", "pair", "spatial", "ell", "special", "none", "adv"]))
    if not batch:
        form = draw(st.sampled_from(["single", "spatial", "ell", "none"]))
        if form == "single":
            ix = draw(st.sampled_from(["c", "ell", "none"]))
            ix = _chan_index(draw, n) if ix == "c" else (ELL if ix == "ell" else NONE)
        elif form == "spatial":
            ix = {"t": "tuple", "v": [_chan_index(draw, n)] + [_sp_index(draw, m) for m in s[1:1 + draw(_ints(1, len(s) - 1))]]}
        elif form == "ell":
            ix = {"t": "tuple", "v": draw(st.sampled_from([[ELL, _sp_index(draw, s[-1])], [_chan_index(draw, n), ELL]]))}
        else:
            ix = {"t": "tuple", "v": [FULL, NONE]}
        return {"op": "getitem", "ix": ix}
    if form == "single":
        ix = _batch_index(draw, n)
    elif form == "pair":
        ix = {"t": "tuple", "v": [_batch_index(draw, n), _chan_index(draw, s[1])]}
    elif form == "spatial":
        k = draw(_ints(1, len(s) - 2))
        ix = {"t": "tuple", "v": [_batch_index(draw, n, allow_bool=False), draw(st.sampled_from([FULL, FULL, _chan_index(draw, s[1])]))]
              + [_sp_index(draw, m) for m in s[2:2 + k]]}
    elif form == "ell":
        bi = _batch_index(draw, n)
        ix = draw(st.sampled_from([ELL, {"t": "tuple", "v": [bi, ELL]}, {"t": "tuple", "v": [ELL, _sp_index(draw, s[-1])]},
                                   {"t": "tuple", "v": [bi, ELL, _sp_index(draw, s[-1])]},
                                   {"t": "tuple", "v": [bi, _chan_index(draw, s[1]), ELL]}]))
    elif form == "special":
        opts = [{"t": "tuple", "v": []}, {"t": "tuple", "v": [ELL]}, {"t": "fullmask", "thr": draw(_ints(0, 3)) + 0.5}]
        if n > 0:
            opts += [{"t": "tensor0", "v": draw(_ints(-n, n - 1))},
                     {"t": "tensor2", "v": [[draw(_ints(0, n - 1)) for _ in range(2)] for _ in range(2)]}]
        ix = draw(st.sampled_from(opts))
    elif form == "none":
        ix = draw(st.sampled_from([NONE, {"t": "tuple", "v": [FULL, NONE]}, {"t": "tuple", "v": [NONE, _batch_index(draw, n, False)]},
                                   {"t": "tuple", "v": [_batch_index(draw, n, False), NONE]}]))
    else:
        m = draw(_ints(1, 3))
        if n == 0 or s[1] == 0:
            ix = FULL
        else:
            ix = {"t": "tuple", "v": [{"t": draw(st.sampled_from(["list", "tensor"])), "v": [draw(_ints(0, n - 1)) for _ in range(m)]},
                                     {"t": "list", "v": [draw(_ints(0, s[1] - 1)) for _ in range(m)]}]}
    return {"op": "getitem", "ix": ix}


def _dim(draw, nd: int, bias0: bool = True):
    d = draw(st.sampled_from(([0, 0] if bias0 else []) + list(range(nd)) + list(range(-nd, 0))))
    return d


def _ds(draw, allow_default=False):
    return draw(st.sampled_from(["pos", "kw"] + (["default"] if allow_default else [])))


def gen_narrowsel(draw, s, batch):
    nd = len(s)
    o = draw(st.sampled_from(["narrow", "narrow", "select", "index_select", "take_along_dim", "gather"]))
    d = _dim(draw, nd)
    n = s[d % nd]
    style = draw(st.sampled_from(["method", "torch"]))
    if o == "narrow":
        a = draw(_ints(0, n))
        return {"op": o, "dim": d, "start": a, "len": draw(_ints(0, n - a)), "style": style}
    if n == 0:
        return {"op": "cast", "fn": "clone"}
    if o == "select":
        return {"op": o, "dim": d, "i": draw(_ints(-n, n - 1)), "style": style}
    idx = draw(st.one_of(st.permutations(list(range(n))), st.lists(_ints(0, n - 1), min_size=1, max_size=4)))
    return {"op": o, "dim": d, "idx": list(idx), "style": style}


def gen_catstack(draw, s, batch, base_shape):
    nd = len(s)
    o = draw(st.sampled_from(["cat", "cat", "cat", "stack"]))
    compatible = tuple(s[1:]) == tuple(base_shape[1:])
    pool = ["self", "self"] + (["other", "other", "twin", "plain"] if compatible and batch else [])
    if not batch and tuple(s) == tuple(base_shape):
        pool += ["other", "twin"]
    names = draw(st.lists(st.sampled_from(pool), min_size=1, max_size=3))
    if "self" not in names:
        names[draw(_ints(0, len(names) - 1))] = "self"
    ds = _ds(draw, allow_default=True)
    d = 0 if ds == "default" else draw(st.sampled_from([0, 0, 0, 1, -nd, -1, nd - 1]))
    if o == "stack" or d % nd != 0:
        # operands must agree in all (other) dims
        if not all(nm == "self" for nm in names) and not (batch and compatible and s[0] == base_shape[0] and "other" not in names and "plain" not in names):
            names = ["self"] * len(names)
    return {"op": o, "operands": names, "dim": d, "ds": ds, "container": draw(st.sampled_from(["list", "tuple"]))}


def gen_split(draw, s, batch):
    nd = len(s)
    o = draw(st.sampled_from(["split", "split", "split_with_sizes", "tensor_split", "tensor_split", "chunk", "unbind", "iter"]))
    if o == "iter":
        return {"op": "iter", "pick": draw(_ints(0, 3))}
    ds = _ds(draw, allow_default=True)
    d = 0 if ds == "default" else draw(st.sampled_from([0, 0, 0, 0, 1, -nd, -1, 2]))
    n = s[d % nd]
    op = {"op": o, "dim": d, "ds": ds, "style": draw(st.sampled_from(["method", "torch"])), "pick": draw(_ints(0, 3))}
    if o == "unbind":
        return op
    if o == "chunk":
        op["sec"] = draw(_ints(1, 4))
        return op

    def sizes():
        out, rest = [], n
        while rest > 0 and len(out) < 3:
            k = draw(_ints(0 if out else 1, rest)) if len(out) < 2 else rest
            out.append(k)
            rest -= k
        if rest:
            out.append(rest)
        return out or [0]

    if o == "split_with_sizes":
        op["sec"] = sizes()
    elif o == "split":
        if draw(st.booleans()):
            op["sec"] = draw(_ints(1, max(1, n)))
        else:
            op["sec"] = sizes()
            op["sectype"] = draw(st.sampled_from(["list", "tuple"]))
    else:
        k = draw(st.sampled_from(["int", "int", "list", "tuple", "tensor"]))
        if k == "int":
            op["sec"] = draw(_ints(1, 4))
        else:
            op["sec"] = sorted(draw(st.lists(_ints(0, n), min_size=1, max_size=3)))
            op["sectype"] = k
    return op


def gen_reorder(draw, s, batch):
    nd = len(s)
    o = draw(st.sampled_from(["flip", "flip", "roll", "roll", "permute", "transpose", "movedim"]))
    style = draw(st.sampled_from(["method", "torch", "var"]))
    if o == "flip":
        dims = draw(st.lists(st.sampled_from([0, 0] + list(range(nd)) + [-1, -nd]), min_size=1, max_size=2))
        dims = [d for i, d in enumerate(dims) if d % nd not in [e % nd for e in dims[:i]]]
        return {"op": o, "dims": dims, "style": style}
    if o == "roll":
        if draw(st.booleans()):
            return {"op": o, "shifts": draw(_ints(-3, 3)), "dims": draw(st.sampled_from([0, 0, 1, -1, -nd])), "style": style}
        dims = list(draw(st.permutations(list(range(nd)))))[:2]
        return {"op": o, "shifts": [draw(_ints(-2, 2)) for _ in dims], "dims": dims, "style": style}
    if o == "permute":
        return {"op": o, "perm": list(draw(st.permutations(list(range(nd))))), "style": style}
    return {"op": o, "a": _dim(draw, nd), "b": _dim(draw, nd, False), "style": style}


def gen_exprep(draw, s, batch):
    nd = len(s)
    if draw(st.booleans()):
        sizes = [draw(st.sampled_from([-1, n])) if n != 1 else draw(st.sampled_from([-1, 1, 2, 3])) for n in s]
        if draw(_ints(0, 4)) == 0:
            sizes = [2] + sizes
        return {"op": "expand", "sizes": sizes, "style": draw(st.sampled_from(["var", "list"]))}
    reps = [draw(st.sampled_from([1, 1, 1, 2])) for _ in s]
    reps[0] = draw(st.sampled_from([1, 2, 3]))
    if draw(_ints(0, 4)) == 0:
        reps = [2] + reps
    return {"op": "repeat", "reps": reps, "style": draw(st.sampled_from(["var", "list"]))}


def gen_reshape(draw, s, batch):
    nd = len(s)
    o = draw(st.sampled_from(["reshape", "view", "flatten", "squeeze", "unsqueeze"]))
    if o in ("reshape", "view"):
        k = draw(st.sampled_from(["same", "minus1", "swap01", "merge01", "flat_sp"]))
        if k == "same":
            shape = list(s)
        elif k == "minus1":
            shape = [-1] + list(s[1:])
        elif k == "swap01":
            shape = [s[1], s[0]] + list(s[2:])
        elif k == "merge01":
            shape = [s[0] * s[1], 1] + list(s[2:])
        else:
            shape = list(s[:2]) + [-1]
        if 0 in s and -1 in shape:
            shape = list(s)
        return {"op": o, "shape": shape, "style": draw(st.sampled_from(["var", "list"]))}
    if o == "flatten":
        a = draw(_ints(0, nd - 1))
        return {"op": o, "a": a, "b": draw(_ints(a, nd - 1)), "style": draw(st.sampled_from(["method", "torch"]))}
    if o == "squeeze":
        return {"op": o, "dim": draw(st.one_of(st.none(), _ints(-nd, nd - 1)))}
    return {"op": o, "dim": draw(_ints(-nd - 1, nd)), "style": draw(st.sampled_from(["method", "torch"]))}


def gen_elem(draw, s, batch, base_shape):
    k = draw(st.sampled_from(["unary", "unary", "binary", "binary", "binary", "inplace", "where"]))
    if k == "unary":
        return {"op": "unary", "fn": draw(st.sampled_from(sorted(UNARY)))}
    if k == "inplace":
        return {"op": "inplace", "fn": draw(st.sampled_from(sorted(INPLACE)))}
    pool = ["scalar", "self", "plain_full", "plain_c", "plain_n", "plain_up"]
    if tuple(s[1:] if batch else s) == tuple(base_shape[1:] if batch else base_shape):
        pool += ["twin", "twin", "other"]
    if batch and s[0] == 1:
        pool += ["plain_bn"]
    other = draw(st.sampled_from(pool))
    if k == "where":
        return {"op": "where", "other": other if other != "scalar" else "self", "sb": batch}
    fn = draw(st.sampled_from(sorted(BINARY)))
    if other == "scalar" and fn in ("maximum",):
        fn = "add"
    return {"op": "binary", "fn": fn, "other": other, "rev": draw(st.booleans()), "sb": batch}


def gen_reduce(draw, s, batch):
    nd = len(s)
    dim = draw(st.one_of(st.none(), _ints(-nd, nd - 1), _ints(0, 1), st.lists(_ints(0, nd - 1), min_size=1, max_size=2, unique=True)))
    return {"op": "reduce", "fn": draw(st.sampled_from(["sum", "mean", "amax"])), "dim": dim,
            "keepdim": draw(st.booleans()), "style": draw(st.sampled_from(["method", "torch", "kw"]))}


def gen_functional(draw, s, batch):
    D = len(s) - 2
    o = draw(st.sampled_from(["interp", "interp", "avg_pool", "max_pool", "pad", "grid_sample"]))
    if o == "interp":
        mode = draw(st.sampled_from(["nearest", {2: "bilinear", 3: "trilinear"}.get(D, "nearest")]))
        op = {"op": o, "mode": mode, "ac": draw(st.booleans())}
        if draw(st.booleans()):
            op["size"] = draw(st.sampled_from([list(s[2:]), [max(1, n - 1) for n in s[2:]], [2 * n for n in s[2:]]]))
        else:
            op["scale"] = draw(st.sampled_from([1, 2, 1.0, 0.5]))
        return op
    if o in ("avg_pool", "max_pool"):
        return {"op": o, "k": draw(st.sampled_from([1, 1, 2]))}
    if o == "pad":
        return {"op": o, "pad": draw(st.lists(st.sampled_from([0, 0, 1]), min_size=2, max_size=2 * D).filter(lambda p: len(p) % 2 == 0))}
    return {"op": o, "out": draw(st.sampled_from([list(s[2:]), [2] * D]))}


def gen_cast(draw, s, batch):
    fn = draw(st.sampled_from(["float", "double", "long", "contiguous", "detach", "clone", "torch_clone", "cpu", "to", "to_kw",
                               "to_device", "type"]))
    return {"op": "cast", "fn": fn, "dtype": draw(st.sampled_from(["float32", "float64", "int64"]))}


DEEPCOPY_VIAS = (None, "list", "pair", "items", "chunks")
PICKLE_VIAS = (None,) + PICKLE_PROTOS + ("torch_save", "list", "pair", "items", "chunks")
CASTCOPY_FNS = ("clone", "torch_clone", "contiguous", "detach", "to", "to_kw", "type", "cpu")


def gen_copy(draw, s, batch):
    """Copy-like ops: copy.copy, _make_instance, copy.deepcopy (alone, in a container, twice, of the entries), pickle (every
    protocol, torch.save, in a container, twice, of the entries) and the tensor methods that return a copy or an alias."""
    o = draw(st.sampled_from(["copy", "make_instance", "deepcopy", "deepcopy", "pickle", "pickle", "pickle", "castcopy"]))
    if o == "deepcopy":
        return {"op": o, "via": draw(st.sampled_from((None,) + DEEPCOPY_VIAS)), "pick": draw(_ints(0, 3))}
    if o == "pickle":
        return {"op": o, "via": draw(st.sampled_from((None,) + PICKLE_VIAS)), "pick": draw(_ints(0, 3))}
    if o == "castcopy":
        return {"op": "cast", "fn": draw(st.sampled_from(CASTCOPY_FNS)), "dtype": draw(st.sampled_from(["float32", "float64", "int64"]))}
    return {"op": o}


def gen_builder(draw, s, batch, base_shape):
    """Explicit batch builders applied to the current (possibly already transformed) batch."""
    n = s[0]
    if n == 0 or draw(st.booleans()):
        pool = ["self"] + (["other", "other", "twin"] if tuple(s[1:]) == tuple(base_shape[1:]) else [])
        return {"op": "append", "other": draw(st.sampled_from(pool))}
    if draw(st.booleans()):
        return {"op": "from_images"}
    return {"op": "from_images", "idx": draw(st.lists(_ints(-n, n - 1), min_size=1, max_size=4))}


FAMILIES_BATCH = (["getitem"] * 9 + ["narrowsel"] * 4 + ["catstack"] * 5 + ["split"] * 6 + ["reorder"] * 4 + ["exprep"] * 2
                  + ["reshape"] * 2 + ["elem"] * 4 + ["reduce"] * 2 + ["functional"] * 2 + ["cast"] * 3 + ["copy"] * 5 + ["builder"] * 4)
FAMILIES_IMAGE = (["getitem"] * 3 + ["narrowsel"] * 2 + ["catstack"] + ["split"] * 2 + ["reorder"] * 2 + ["reshape"] + ["elem"] * 3
                  + ["reduce"] + ["cast"] * 2 + ["copy"] * 3 + ["batch"] * 3)


def gen_op(draw, s, batch: bool, base_shape, fam: Optional[str] = None):
    if fam is None:
        fam = draw(st.sampled_from(FAMILIES_BATCH if batch else FAMILIES_IMAGE))
    if fam == "getitem":
        return gen_getitem(draw, s, batch)
    if fam == "narrowsel":
        return gen_narrowsel(draw, s, batch)
    if fam == "catstack":
        return gen_catstack(draw, s, batch, base_shape)
    if fam == "split":
        op = gen_split(draw, s, batch)
        return op if batch or op["op"] != "iter" else {"op": "batch"}
    if fam == "reorder":
        return gen_reorder(draw, s, batch)
    if fam == "exprep":
        return gen_exprep(draw, s, batch)
    if fam == "reshape":
        return gen_reshape(draw, s, batch)
    if fam == "elem":
        return gen_elem(draw, s, batch, base_shape)
    if fam == "reduce":
        return gen_reduce(draw, s, batch)
    if fam == "functional":
        return gen_functional(draw, s, batch)
    if fam == "cast":
        return gen_cast(draw, s, batch)
    if fam == "copy":
        return gen_copy(draw, s, batch)
    if fam == "builder":
        return gen_builder(draw, s, batch, base_shape)
    return {"op": "batch"}


def known_exclusion(op: dict, s, batch: bool) -> Optional[str]:
    """Id of the *known* finding whose sub-domain this op falls into (None if it may be generated)."""
    if not batch:
        return None
    nd = len(s)
    if K1_ACTIVE and op["op"] in K1_OPS and s[0] > 1 and touches_dim0(op, nd):
        return "K1"
    if K2_ACTIVE and op["op"] == "getitem" and index_class(op["ix"]) in ("mask", "fullmask", "none"):
        return "K2"
    if K7_ACTIVE and op["op"] in ("split", "split_with_sizes", "tensor_split"):
        if op["dim"] % nd != 0 or op.get("ds") == "pos" or (op["op"] == "tensor_split" and op.get("sectype", "int") in ("int", "tensor")):
            return "K7"
    return None


def simulate(op: dict, p: torch.Tensor, env: dict, D: int):
    """Apply op to the plain tracker; returns the plain result (tensor or list) or None if plain torch rejects it."""
    cat, call, _ = interpret(op, D)
    E = dict(env)
    E["self"] = p
    E["_p"] = p
    try:
        r = call(p, E)
    except Exception:  # noqa: BLE001 - the op is simply not valid for this shape/dtype
        return None
    if isinstance(r, torch.Tensor):
        return r
    if isinstance(r, (tuple, list)) and all(isinstance(t, torch.Tensor) for t in r):
        return list(r)
    return None


@st.composite
def program_cases(draw, multi: bool = False):
    """multi: one operation of the program (the first or the second) is a function with several outputs (gen_multi)."""
    kind = draw(st.sampled_from(["ImageBatch", "ImageBatch", "ImageBatch", "FlowFields", "FlowFields", "FlowFields", "Image", "FlowField"]))
    D = draw(st.sampled_from([2, 2, 2, 3]))
    batch = kind in BATCH_KINDS
    flow = kind in ("FlowFields", "FlowField")
    shape = draw(st.lists(st.integers(1, 4), min_size=D, max_size=D))
    case = {"kind": kind, "N": draw(st.sampled_from([1, 2, 2, 3, 4, 4] if multi else [1, 2, 3, 3, 4, 4, 5, 6])) if batch else 1, "C": D if flow else draw(st.integers(1, 3)),
            "shape": shape, "dtype": draw(st.sampled_from(["float32", "float32", "float64"])), "ac": draw(st.booleans())}
    if batch:
        case["M"] = draw(st.integers(1, 2))
        case["gplan"] = draw_plan(draw, case["N"] + case["M"], D)
    else:
        case["id"] = draw(st.integers(0, 3))
        case["gplan"] = draw_plan(draw, 2, D, base=case["id"])
    if flow:
        case["axes"] = draw(st.sampled_from(["world", "grid", "cube", "cube_corners"]))
    # memory layout of the wrapped data: its own storage, or a view (offset / strides / gaps) of a larger buffer
    layout = draw(st.sampled_from(["dense"] * 5 + ["offset"] * 2 + ["strided", "tposed", "crop"]))
    rg = draw(st.sampled_from([False] * 5 + [True]))
    if layout != "dense" or rg:
        case["init"] = {"layout": layout, "rg": rg}
    dt = _dt(case["dtype"])
    ids = list(range(case["N"])) if batch else [case["id"]]
    if batch:
        dense = torch.stack([item_data(j, case["C"], tuple(shape), dt) for j in ids], 0)
        oth = torch.stack([item_data(j, case["C"], tuple(shape), dt, 0.25) for j in range(case["N"], case["N"] + case["M"])], 0)
    else:
        dense = item_data(ids[0], case["C"], tuple(shape), dt)
        oth = item_data(ids[0] + 1, case["C"], tuple(shape), dt, 0.25)
    p = apply_layout(dense, layout)  # the tracker has the layout (and autograd flag) of the object: same ops are valid
    if rg:
        p = p.detach().requires_grad_(True)
    base_shape = tuple(p.shape)
    env = {"twin": dense + 0.5, "other": oth, "plain": aux(base_shape, dt)}
    ops, excluded = [], []
    nops = draw(st.sampled_from([1, 2, 2, 3, 3]))
    spatial = tuple(shape)
    after_view = layout != "dense"
    multi_at = draw(st.sampled_from([0, 0, 1])) if multi else -1
    for k_op in range(nops):
        nd = p.ndim
        if nd not in (D + 1, D + 2):
            break
        is_batch = nd == D + 2
        # a copy-like op follows an op that returned a view of its input (or a view-backed initial object) half of the time
        fam = "copy" if after_view and draw(st.booleans()) else None
        if multi and k_op == min(multi_at, nops - 1):
            op = gen_multi(draw, p, env, D)
        else:
            op = gen_op(draw, tuple(p.shape), is_batch, base_shape if is_batch == batch else (), fam)
        kid = known_exclusion(op, tuple(p.shape), is_batch)
        if kid is not None:
            excluded.append(kid)
            op = {"op": "cast", "fn": "clone", "dtype": "float32"}
        r = simulate(op, p, env, D)
        if r is None or (isinstance(r, list) and not r):
            op = {"op": "cast", "fn": "clone", "dtype": "float32"}
            r = simulate(op, p, env, D)
        ops.append(op)
        if isinstance(r, list):
            r = r[op.get("pick", 0) % len(r)]
        after_view = r.numel() > 0 and r.untyped_storage().data_ptr() == p.untyped_storage().data_ptr() and (
            op["op"] not in COPY_OPS and not (op["op"] == "cast" and op["fn"] in CASTCOPY_FNS))
        p = r
        if op["op"] == "narrow" and op.get("style") != "torch":
            spatial = tuple(p.shape[-D:]) if p.ndim >= D else spatial
        if p.ndim < D or tuple(p.shape[-D:]) != spatial:
            break
    case["ops"] = ops
    if excluded:
        case["excluded"] = sorted(set(excluded))
    return case


# ---------------------------------------------------------------------------------------
# deterministic survey: every call form once (and along every dimension class) on fixed small objects


def _sl(a=None, b=None, c=None):
    return {"t": "slice", "v": [a, b, c]}


def _tup(*v):
    return {"t": "tuple", "v": list(v)}


def _i(v):
    return {"t": "int", "v": v}


def survey_ops(batch: bool, nd: int, n0: int, c: int, sp) -> List[dict]:
    """Single-op programs for an object of shape (n0, c, *sp) [batch] or (c, *sp) [image]."""
    ops: List[dict] = []
    g = lambda ix: ops.append({"op": "getitem", "ix": ix})  # noqa: E731
    lead = n0 if batch else c
    g(_i(lead - 1)), g(_i(-1)), g(_sl(1)), g(_sl(None, None, 2)), g(_sl(0, 0)), g(ELL), g(NONE), g(_tup()), g(_tup(ELL))
    g({"t": "list", "v": [lead - 1, 0]}), g({"t": "tensor", "v": [lead - 1, 0]}), g({"t": "np", "v": [-1, 0]}), g({"t": "list", "v": []})
    mask = [i != 1 for i in range(lead)]
    g({"t": "blist", "v": mask}), g({"t": "btensor", "v": mask}), g({"t": "bnp", "v": mask}), g({"t": "fullmask", "thr": 1.5})
    g({"t": "tensor0", "v": lead - 1}), g({"t": "tensor2", "v": [[0, lead - 1], [lead - 1, 0]]})
    g(_tup(_sl(1), ELL)), g(_tup({"t": "list", "v": [lead - 1, 0]}, ELL)), g(_tup(ELL, _sl(1))), g(_tup(ELL, _sl())), g(_tup(_sl(1), ELL, _sl()))
    g(_tup(_sl(), NONE)), g(_tup(NONE, _sl())), g(_tup(_i(0), NONE))
    if batch:
        g(_tup(_sl(1), _sl(0, 1))), g(_tup(_sl(1), _i(0))), g(_tup(_i(1 % n0), _sl(0, 1))), g(_tup(_sl(), {"t": "list", "v": [0]}))
        g(_tup({"t": "list", "v": [0, n0 - 1]}, {"t": "list", "v": [0, c - 1]}))
        g(_tup(_sl(1), _sl(), *[_sl() for _ in sp])), g(_tup(_sl(1), _sl(), *[_sl(0, m) for m in sp])), g(_tup(_sl(1), _sl(), _sl(0, sp[0])))
        g(_tup(_sl(1), _sl(), _sl(1))), g(_tup(_i(0), _sl(), _sl(0, sp[0]))), g(_tup(_i(0), _sl(), _i(0))), g(_tup(_sl(1), _sl(), _i(0)))
        g(_tup({"t": "btensor", "v": mask}, _sl(0, 1)))
    else:
        g(_tup(_sl(0, 1), _sl())), g(_tup(_sl(), _sl(1))), g(_tup(_sl(), *[_sl(0, m) for m in sp]))
    dims = [0, 1, nd - 1, -nd, -1]
    for d in dims:
        n = ([n0, c] if batch else [c]) + list(sp)
        n = n[d % nd]
        for style in ("method", "torch"):
            ops.append({"op": "narrow", "dim": d, "start": 1 if n > 1 else 0, "len": max(1, n - 1), "style": style})
            ops.append({"op": "narrow", "dim": d, "start": 0, "len": n, "style": style})
            ops.append({"op": "select", "dim": d, "i": n - 1, "style": style})
            ops.append({"op": "index_select", "dim": d, "idx": list(range(n))[::-1], "style": style})
        ops.append({"op": "narrow", "dim": d, "start": 0, "len": 0, "style": "method"})
        ops.append({"op": "index_select", "dim": d, "idx": [n - 1, 0, 0, n - 1], "style": "method"})
        ops.append({"op": "take_along_dim", "dim": d, "idx": list(range(n))[::-1]})
        ops.append({"op": "gather", "dim": d, "idx": list(range(n))[::-1]})
        for style in ("method", "torch", "var"):
            ops.append({"op": "flip", "dims": [d], "style": style})
        ops.append({"op": "roll", "shifts": 1, "dims": d, "style": "method"})
        ops.append({"op": "roll", "shifts": [1], "dims": [d], "style": "torch"})
        for ds in ("pos", "kw"):
            for style in ("method", "torch"):
                ops.append({"op": "split", "sec": 1, "dim": d, "ds": ds, "style": style, "pick": 1})
                ops.append({"op": "split", "sec": [1, n - 1], "sectype": "list", "dim": d, "ds": ds, "style": style, "pick": 1})
                ops.append({"op": "split_with_sizes", "sec": [1, n - 1], "dim": d, "ds": ds, "style": style, "pick": 1})
                ops.append({"op": "tensor_split", "sec": n, "dim": d, "ds": ds, "style": style, "pick": 1})
                ops.append({"op": "tensor_split", "sec": [1], "sectype": "list", "dim": d, "ds": ds, "style": style, "pick": 1})
            ops.append({"op": "split", "sec": 2, "dim": d, "ds": ds, "style": "method", "pick": 1})
            ops.append({"op": "split", "sec": [n - 1, 1], "sectype": "tuple", "dim": d, "ds": ds, "style": "method", "pick": 1})
            if n >= 4:  # three or more chunks of non-uniform size
                ops.append({"op": "split", "sec": [1, n - 2, 1], "sectype": "list", "dim": d, "ds": ds, "style": "method", "pick": 2})
                ops.append({"op": "split_with_sizes", "sec": [1, n - 2, 1], "dim": d, "ds": ds, "style": "torch", "pick": 2})
                ops.append({"op": "tensor_split", "sec": [1, n - 1], "sectype": "list", "dim": d, "ds": ds, "style": "method", "pick": 2})
            ops.append({"op": "tensor_split", "sec": 2, "dim": d, "ds": ds, "style": "method", "pick": 1})
            ops.append({"op": "tensor_split", "sec": [1, 2], "sectype": "tuple", "dim": d, "ds": ds, "style": "method", "pick": 2})
            ops.append({"op": "tensor_split", "sec": [1], "sectype": "tensor", "dim": d, "ds": ds, "style": "torch", "pick": 1})
            ops.append({"op": "chunk", "sec": 2, "dim": d, "ds": ds, "style": "method", "pick": 1})
            ops.append({"op": "unbind", "dim": d, "ds": ds, "style": "method", "pick": 1})
            for names in (["self", "self"], ["self", "other"], ["other", "self"], ["self", "twin"], ["self", "plain"], ["plain", "self"],
                          ["self", "other", "self"]):
                if (d % nd != 0) and ("other" in names or "plain" in names) and batch:
                    continue
                if not batch and "plain" in names:
                    continue
                ops.append({"op": "cat", "operands": names, "dim": d, "ds": ds, "container": "list"})
            ops.append({"op": "cat", "operands": ["self", "self"], "dim": d, "ds": ds, "container": "tuple"})
            ops.append({"op": "stack", "operands": ["self", "twin"], "dim": d, "ds": ds, "container": "list"})
        for fn in ("sum", "mean", "amax"):
            for kd in (False, True):
                ops.append({"op": "reduce", "fn": fn, "dim": d, "keepdim": kd, "style": "method"})
        ops.append({"op": "reduce", "fn": "sum", "dim": [d % nd], "keepdim": True, "style": "torch"})
        ops.append({"op": "squeeze", "dim": d}), ops.append({"op": "unsqueeze", "dim": d, "style": "method"})
    for names in (["self", "self"], ["self", "other"], ["other", "self"]):
        ops.append({"op": "cat", "operands": names, "dim": 0, "ds": "default", "container": "list"})
    ops.append({"op": "split", "sec": 1, "dim": 0, "ds": "default", "style": "method", "pick": 1})
    ops.append({"op": "split", "sec": [1, lead - 1], "sectype": "list", "dim": 0, "ds": "default", "style": "method", "pick": 1})
    ops.append({"op": "split_with_sizes", "sec": [1, lead - 1], "dim": 0, "ds": "default", "style": "method", "pick": 1})
    ops.append({"op": "tensor_split", "sec": lead, "dim": 0, "ds": "default", "style": "method", "pick": 1})
    ops.append({"op": "tensor_split", "sec": 2, "dim": 0, "ds": "default", "style": "torch", "pick": 1})
    ops.append({"op": "tensor_split", "sec": [1], "sectype": "list", "dim": 0, "ds": "default", "style": "method", "pick": 1})
    ops.append({"op": "chunk", "sec": lead, "dim": 0, "ds": "default", "style": "method", "pick": 1})
    ops.append({"op": "unbind", "dim": 0, "ds": "default", "style": "method", "pick": 1})
    ops.append({"op": "reduce", "fn": "sum", "dim": None, "keepdim": False, "style": "method"})
    ops.append({"op": "reduce", "fn": "sum", "dim": [nd - 2, nd - 1], "keepdim": True, "style": "method"})
    ops.append({"op": "squeeze", "dim": None})
    if batch:
        ops.append({"op": "iter", "pick": 1})
        for other in ("self", "other", "twin"):
            ops.append({"op": "append", "other": other})
        ops.append({"op": "from_images"}), ops.append({"op": "from_images", "idx": [n0 - 1, 0, -1]})
    else:
        ops.append({"op": "batch"})
    ident = list(range(nd))
    ops.append({"op": "permute", "perm": ident, "style": "var"}), ops.append({"op": "permute", "perm": ident[::-1], "style": "list"})
    ops.append({"op": "permute", "perm": [1, 0] + ident[2:], "style": "var"}), ops.append({"op": "permute", "perm": ident[:-2] + [nd - 1, nd - 2], "style": "var"})
    for a, b in ((0, 1), (0, 0), (-1, -2), (1, 2)):
        for o in ("transpose", "movedim"):
            ops.append({"op": o, "a": a, "b": b, "style": "method"})
    shape = ([n0, c] if batch else [c]) + list(sp)
    ops.append({"op": "expand", "sizes": [-1] * nd, "style": "var"}), ops.append({"op": "expand", "sizes": shape, "style": "list"})
    ops.append({"op": "expand", "sizes": [2] + shape, "style": "list"})
    ops.append({"op": "repeat", "reps": [1] * nd, "style": "var"}), ops.append({"op": "repeat", "reps": [2] + [1] * (nd - 1), "style": "var"})
    ops.append({"op": "repeat", "reps": [1, 2] + [1] * (nd - 2), "style": "list"}), ops.append({"op": "repeat", "reps": [1] * (nd - 1) + [2], "style": "list"})
    for o in ("reshape", "view"):
        ops.append({"op": o, "shape": shape, "style": "var"}), ops.append({"op": o, "shape": [-1] + shape[1:], "style": "list"})
        ops.append({"op": o, "shape": [shape[1], shape[0]] + shape[2:], "style": "list"}), ops.append({"op": o, "shape": shape[:2] + [-1], "style": "list"})
    ops.append({"op": "flatten", "a": 0, "b": 1, "style": "method"}), ops.append({"op": "flatten", "a": nd - 2, "b": nd - 1, "style": "torch"})
    ops.append({"op": "flatten", "a": 0, "b": 0, "style": "method"})
    for fn in sorted(UNARY):
        ops.append({"op": "unary", "fn": fn})
    for fn in sorted(INPLACE):
        ops.append({"op": "inplace", "fn": fn})
    for fn in sorted(BINARY):
        for other in ("scalar", "self", "twin", "other", "plain_full", "plain_c", "plain_n", "plain_up"):
            if other == "scalar" and fn == "maximum":
                continue
            for rev in (False, True):
                if not (rev and other == "scalar" and fn == "madd"):  # float has no .add()
                    ops.append({"op": "binary", "fn": fn, "other": other, "rev": rev, "sb": batch})
    for other in ("self", "twin", "other", "plain_full"):
        ops.append({"op": "where", "other": other, "sb": batch})
    if batch:
        D = nd - 2
        lin = {2: "bilinear", 3: "trilinear"}[D]
        for mode in ("nearest", lin):
            ops.append({"op": "interp", "mode": mode, "size": list(sp)}), ops.append({"op": "interp", "mode": mode, "scale": 2})
            ops.append({"op": "interp", "mode": mode, "scale": 1.0})
        for o in ("avg_pool", "max_pool"):
            ops.append({"op": o, "k": 1}), ops.append({"op": o, "k": 2})
        ops.append({"op": "pad", "pad": [0, 0] * D}), ops.append({"op": "pad", "pad": [1, 1]}), ops.append({"op": "pad", "pad": [0, 1] * D})
        ops.append({"op": "grid_sample", "out": list(sp)}), ops.append({"op": "grid_sample", "out": [2] * D})
    for fn in ("float", "double", "long", "contiguous", "detach", "clone", "torch_clone", "cpu"):
        ops.append({"op": "cast", "fn": fn, "dtype": "float32"})
    for fn in ("to", "to_kw", "to_device", "type"):
        for dt in ("float32", "float64", "int64"):
            ops.append({"op": "cast", "fn": fn, "dtype": dt})
    ops += copy_forms(casts=False)
    return ops


def copy_forms(casts: bool = True) -> List[dict]:
    """Every copy-like call form: copy.copy, _make_instance, deepcopy and pickle in all their variants (each pickle protocol,
    torch.save, inside a container, the same object twice, the entries along dim 0 together) and, with casts, the tensor
    methods that return a copy or an alias of the same type (clone, contiguous, detach, to / type with the same or another
    floating point dtype, cpu)."""
    ops: List[dict] = [{"op": "copy"}, {"op": "make_instance"}]
    ops += [{"op": "deepcopy", "via": v, "pick": 1} for v in DEEPCOPY_VIAS]
    ops += [{"op": "pickle", "via": v, "pick": 1} for v in PICKLE_VIAS]
    if casts:
        ops += [{"op": "cast", "fn": fn, "dtype": "float32"} for fn in ("clone", "torch_clone", "contiguous", "detach", "cpu", "double")]
        ops += [{"op": "cast", "fn": fn, "dtype": dt} for fn in ("to", "to_kw", "type") for dt in ("float32", "float64")]
    return ops


def view_ops(base: dict) -> List[dict]:
    """The single-op survey programs whose (picked) result, computed by plain torch on the base object, is a VIEW of the
    input (shares its storage) that can still be an image (batch): ndim and spatial shape kept. One op per distinct
    (call form, batch dim touched, result shape, storage offset, strides)."""
    batch = base["kind"] in BATCH_KINDS
    sp = list(base["shape"])
    D = len(sp)
    nd = D + (2 if batch else 1)
    dt = _dt(base["dtype"])
    ids = list(range(base["N"])) if batch else [base.get("id", 0)]
    dense = torch.stack([item_data(j, base["C"], tuple(sp), dt) for j in ids], 0) if batch else item_data(ids[0], base["C"], tuple(sp), dt)
    p = apply_layout(dense, (base.get("init") or {}).get("layout"))
    env = {"twin": dense + 0.5, "other": dense[:1] + 0.25 if batch else dense + 0.25, "plain": aux(tuple(dense.shape), dt)}
    out, seen = [], set()
    for op in survey_ops(batch, nd, base["N"], base["C"], sp):
        if op["op"] in COPY_OPS or op["op"] in ("inplace",) or known_exclusion(op, tuple(p.shape), batch):
            continue
        r = simulate(op, p, env, D)
        if isinstance(r, list):
            r = r[op.get("pick", 0) % len(r)] if r else None
        if r is None or r.numel() == 0 or r.untyped_storage().data_ptr() != p.untyped_storage().data_ptr():
            continue
        if r.ndim not in (D + 1, D + 2) or tuple(r.shape[-D:]) != tuple(sp):
            continue
        key = (op_name(op), touches_dim0(op, nd), tuple(r.shape), r.storage_offset(), tuple(r.stride()))
        if key not in seen:
            seen.add(key)
            out.append(op)
    return out


SURVEY_BASES = [
    {"kind": "ImageBatch", "N": 3, "C": 2, "shape": [3, 4], "dtype": "float32", "ac": True, "M": 1},
    {"kind": "FlowFields", "N": 3, "C": 2, "shape": [3, 4], "dtype": "float32", "ac": True, "M": 1, "axes": "world"},
    {"kind": "ImageBatch", "N": 2, "C": 2, "shape": [2, 2, 3], "dtype": "float64", "ac": False, "M": 1},
    {"kind": "FlowFields", "N": 3, "C": 3, "shape": [3, 3, 2], "dtype": "float32", "ac": False, "M": 1, "axes": "grid"},
    {"kind": "ImageBatch", "N": 1, "C": 1, "shape": [2, 3], "dtype": "float32", "ac": True, "M": 1},
    {"kind": "FlowFields", "N": 1, "C": 2, "shape": [2, 3], "dtype": "float32", "ac": True, "M": 1, "axes": "cube"},
    {"kind": "Image", "N": 1, "C": 2, "shape": [3, 4], "dtype": "float32", "ac": True, "id": 2},
    {"kind": "FlowField", "N": 1, "C": 2, "shape": [3, 4], "dtype": "float32", "ac": False, "id": 1, "axes": "world"},
    {"kind": "Image", "N": 1, "C": 3, "shape": [3, 3], "dtype": "float64", "ac": True, "id": 3},
    # batches whose items share geometry: item 1 differs from item 0 only in align_corners, item 2 uses the Grid object of
    # item 0, item 3 differs from item 0 by less than the tolerance of Grid.__eq__; the 'other' item equals item 1
    {"kind": "ImageBatch", "N": 4, "C": 2, "shape": [3, 4], "dtype": "float32", "ac": True, "M": 1,
     "gplan": {"mode": "fixed", "rot": False, "items": [
         {"geo": 0, "ac": True, "pert": None, "share": None}, {"geo": 0, "ac": False, "pert": None, "share": None},
         {"geo": 0, "ac": True, "pert": None, "share": 0}, {"geo": 0, "ac": True, "pert": ["center", 0], "share": None},
         {"geo": 0, "ac": False, "pert": None, "share": None}]}},
    # rotated grids: item 1 is an equal-valued copy of item 0, item 2 differs only in align_corners, the 'other' item
    # differs from item 0 in one spacing by less than the tolerance
    {"kind": "FlowFields", "N": 3, "C": 2, "shape": [3, 2], "dtype": "float32", "ac": False, "M": 1, "axes": "grid",
     "gplan": {"mode": "fixed", "rot": True, "items": [
         {"geo": 2, "ac": False, "pert": None, "share": None}, {"geo": 2, "ac": False, "pert": None, "share": None},
         {"geo": 2, "ac": True, "pert": None, "share": None}, {"geo": 2, "ac": False, "pert": ["spacing", 1], "share": None}]}},
]


def _item(geo, ac, hist=None, twin=False, share=None, pert=None) -> dict:
    e = {"geo": geo, "ac": ac, "pert": pert, "share": share, "hist": hist}
    if twin:
        e["twin"] = True
    return e


# objects whose grids have a history (derived by deepali's own methods; stored sizes 2.5 x 3.5, 2.67 x 3.76, 2.25 x 3.75, ...)
HIST_BASES = [
    # item 0: downsample of 7 x 5; item 1: resample; item 2: constructed grid with the public attributes of item 0 (integer
    # stored size); the 'other' item: downsample(2) of 15 x 9
    {"kind": "ImageBatch", "N": 3, "C": 2, "shape": [3, 4], "dtype": "float32", "ac": True, "M": 1,
     "gplan": {"mode": "fixed", "rot": False, "items": [
         _item(0, True, {"kind": "down", "par": [1, 1], "pac": True}), _item(1, False, {"kind": "resample", "par": [1, 0], "pac": False}),
         _item(0, True, {"kind": "down", "par": [1, 1], "pac": True}, twin=True), _item(3, True, {"kind": "down2", "par": [1, 3], "pac": True})]}},
    # rotated; item 0: the grid Image.downsample() derives from 4 x 5 (align_corners of the precursor False, set True
    # afterwards); item 1: the same with align_corners False; item 2: downsample(2); 'other': resample
    {"kind": "FlowFields", "N": 3, "C": 2, "shape": [3, 2], "dtype": "float32", "ac": False, "M": 1, "axes": "world",
     "gplan": {"mode": "fixed", "rot": True, "items": [
         _item(1, True, {"kind": "down", "par": [0, 1], "pac": False, "via": "image"}), _item(1, False, {"kind": "down", "par": [0, 1], "pac": False, "via": "image"}),
         _item(2, False, {"kind": "down2", "par": [2, 3], "pac": False}), _item(3, True, {"kind": "resample", "par": [1, 1], "pac": True})]}},
    {"kind": "Image", "N": 1, "C": 2, "shape": [3, 4], "dtype": "float64", "ac": True, "id": 1,
     "gplan": {"mode": "fixed", "rot": False, "items": [
         _item(1, False, {"kind": "down", "par": [1, 1], "pac": False}), _item(1, False, {"kind": "down", "par": [1, 1], "pac": False}, twin=True)]}},
    {"kind": "FlowField", "N": 1, "C": 2, "shape": [2, 3], "dtype": "float32", "ac": True, "id": 0, "axes": "grid",
     "gplan": {"mode": "fixed", "rot": True, "items": [
         _item(0, True, {"kind": "resample", "par": [0, 1], "pac": True}), _item(1, True, {"kind": "down", "par": [1, 0], "pac": True})]}},
]


# one copy-like call form per mechanism (the variants - pickle protocols, containers - are covered by copy_forms())
COPY_MECHANISMS = [{"op": "copy"}, {"op": "make_instance"}, {"op": "deepcopy", "via": None}, {"op": "deepcopy", "via": "pair", "pick": 1},
                   {"op": "pickle", "via": None}, {"op": "pickle", "via": "torch_save"}] + [
    {"op": "cast", "fn": fn, "dtype": dt} for fn, dt in (("clone", "float32"), ("torch_clone", "float32"), ("contiguous", "float32"),
                                                          ("detach", "float32"), ("to", "float32"), ("to_kw", "float64"), ("type", "float32"))]


def consumer_ops(batch: bool) -> List[dict]:
    """Operations that read the current object together with further operands, or hand its grids on."""
    ops: List[dict] = []
    for names in (["self", "other"], ["other", "self"], ["self", "self"], ["self", "twin", "other"]):
        ops.append({"op": "cat", "operands": names, "dim": 0, "ds": "default", "container": "list"})
    ops.append({"op": "cat", "operands": ["self", "other"], "dim": 0, "ds": "kw", "container": "tuple"})
    ops.append({"op": "cat", "operands": ["self", "twin"], "dim": 1, "ds": "pos", "container": "list"})
    ops.append({"op": "stack", "operands": ["self", "twin"], "dim": 0, "ds": "kw", "container": "list"})
    for rev in (False, True):
        ops.append({"op": "binary", "fn": "add", "other": "twin", "rev": rev, "sb": batch})
    ops.append({"op": "where", "other": "twin", "sb": batch})
    ops.append({"op": "inplace", "fn": "add_"})
    ops.append({"op": "getitem", "ix": _sl(0, 1)})
    ops.append({"op": "cast", "fn": "clone", "dtype": "float32"})
    if batch:
        ops += [{"op": "append", "other": "other"}, {"op": "append", "other": "self"}, {"op": "from_images"}, {"op": "iter", "pick": 1},
                {"op": "split", "sec": [1, 1], "sectype": "list", "dim": 0, "ds": "kw", "style": "method", "pick": 1}]
    else:
        ops.append({"op": "batch"})
    return ops


def survey_programs(batch: bool, nd: int, n0: int, sp) -> List[List[dict]]:
    """Fixed programs of 3 operations mixing structural operations, explicit builders and copies."""
    clone = {"op": "cast", "fn": "clone", "dtype": "float32"}
    if not batch:
        return [
            [{"op": "batch"}, {"op": "deepcopy"}, {"op": "getitem", "ix": _i(0)}],
            [{"op": "batch"}, {"op": "append", "other": "self"}, {"op": "iter", "pick": 1}],
            [{"op": "deepcopy"}, {"op": "batch"}, {"op": "pickle"}],
            [clone, {"op": "batch"}, {"op": "from_images"}],
            [{"op": "pickle", "via": "torch_save"}, {"op": "batch"}, {"op": "deepcopy", "via": "list"}],
        ]
    n = sp[-1]
    return [
        [{"op": "cat", "operands": ["self", "other"], "dim": 0, "ds": "kw", "container": "list"}, {"op": "deepcopy"}, {"op": "getitem", "ix": _i(-1)}],
        [{"op": "deepcopy"}, {"op": "append", "other": "other"}, {"op": "from_images", "idx": [-1, 0]}],
        [{"op": "pickle"}, {"op": "getitem", "ix": _sl(1)}, clone],
        [{"op": "narrow", "dim": nd - 1, "start": 1 if n > 1 else 0, "len": max(1, n - 1), "style": "method"}, {"op": "deepcopy"}, {"op": "iter", "pick": 1}],
        [{"op": "from_images"}, {"op": "pickle", "via": "torch_save"}, {"op": "append", "other": "self"}],
        [{"op": "getitem", "ix": _i(n0 - 1)}, {"op": "batch"}, {"op": "append", "other": "self"}],
        [{"op": "copy"}, {"op": "inplace", "fn": "add_"}, {"op": "deepcopy"}],
        [{"op": "split", "sec": 1, "dim": 0, "ds": "kw", "style": "method", "pick": 1}, {"op": "deepcopy", "via": "list"},
         {"op": "cat", "operands": ["self", "self"], "dim": 0, "ds": "default", "container": "tuple"}],
        [{"op": "append", "other": "twin"}, clone, {"op": "getitem", "ix": {"t": "list", "v": [n0, 0, n0 - 1]}}],
        [{"op": "getitem", "ix": {"t": "list", "v": [n0 - 1, 0]}}, {"op": "pickle", "via": "proto2"}, {"op": "from_images"}],
    ]


# initial objects that wrap a view: contiguous at an offset, strided, transposed memory, cropped; some requiring grad
SURVEY_VIEW_BASES = [
    dict(SURVEY_BASES[0], N=4, init={"layout": "offset", "rg": False}),
    dict(SURVEY_BASES[1], init={"layout": "offset", "rg": True}),
    dict(SURVEY_BASES[3], init={"layout": "strided", "rg": False}),
    dict(SURVEY_BASES[0], init={"layout": "tposed", "rg": False}),
    dict(SURVEY_BASES[1], init={"layout": "crop", "rg": False}),
    dict(SURVEY_BASES[0], init={"layout": "dense", "rg": True}),
    dict(SURVEY_BASES[6], init={"layout": "offset", "rg": False}),
    dict(SURVEY_BASES[7], init={"layout": "offset", "rg": True}),
    dict(SURVEY_BASES[8], init={"layout": "crop", "rg": False}),
    dict(SURVEY_BASES[7], init={"layout": "strided", "rg": False}),
]
# bases of the view x copy cross product
CROSS_BASES = [dict(SURVEY_BASES[0], N=4), SURVEY_BASES[1], SURVEY_BASES[2], SURVEY_BASES[3], SURVEY_BASES[6], SURVEY_BASES[7],
               SURVEY_BASES[9], SURVEY_VIEW_BASES[0], SURVEY_VIEW_BASES[1], SURVEY_VIEW_BASES[2], SURVEY_VIEW_BASES[6]]


def survey_cases(tier: str = "quick"):
    out = []
    # every op that returns a view of its input, followed by every copy-like op (quick tier: on 6 of the 15 objects)
    # (and on one object with fractional grid sizes, there with one call form per copy mechanism)
    for base in (CROSS_BASES + HIST_BASES if tier == "thorough" else [CROSS_BASES[i] for i in (0, 3, 4, 5, 8)] + HIST_BASES[:1]):
        for vop in view_ops(base):
            for cop in (COPY_MECHANISMS if tier != "thorough" and base is HIST_BASES[0] else copy_forms()):
                out.append(dict(base, ops=[vop, cop]))
    # every copy-like op followed by every op that uses the copy as one operand among several (the copy must serve as the
    # original would, and be left as it was)
    for base in HIST_BASES + ([SURVEY_BASES[0], SURVEY_BASES[3], SURVEY_BASES[9], SURVEY_VIEW_BASES[6]] if tier == "thorough" else [SURVEY_BASES[9]]):
        batch = base["kind"] in BATCH_KINDS
        sec = [1, base["N"] - 1]
        for cop in COPY_MECHANISMS:
            for use in consumer_ops(batch):
                use = dict(use, sec=sec) if use["op"] == "split" else use
                out.append(dict(base, ops=[cop, use]))
    for base in SURVEY_BASES + SURVEY_VIEW_BASES + HIST_BASES:
        batch = base["kind"] in BATCH_KINDS
        sp = list(base["shape"])
        nd = len(sp) + (2 if batch else 1)
        shape0 = tuple(([base["N"], base["C"]] if batch else [base["C"]]) + sp)
        for prog in survey_programs(batch, nd, base["N"], sp):
            if not any(known_exclusion(op, shape0, batch) for op in prog):
                out.append(dict(base, ops=prog))
        for op in survey_ops(batch, nd, base["N"], base["C"], sp):
            shape = tuple(([base["N"], base["C"]] if batch else [base["C"]]) + sp)
            excluded = known_exclusion(op, shape, batch)
            case = dict(base)
            if excluded:
                case["ops"] = [{"op": "cast", "fn": "clone", "dtype": "float32"}]
                case["excluded"] = [excluded]
            else:
                case["ops"] = [op]
            out.append(case)
    return out


# ---------------------------------------------------------------------------------------
# functions with several outputs: survey of every discovered call form, and random programs that contain one


def _multi_base(kind: str, N: int, shape, dtype="float32", M: Optional[int] = None, axes: Optional[str] = None, C: int = 2) -> dict:
    """Object with N items (all grids distinct, align_corners alternating) and an 'other' batch of M items (default: N)."""
    batch = kind in BATCH_KINDS
    n_items = (N + (N if M is None else M)) if batch else 2
    plan = {"mode": "fixed", "rot": False, "items": [_item(j, j % 2 == 0) for j in range(n_items)]}
    base = {"kind": kind, "N": N if batch else 1, "C": C, "shape": list(shape), "dtype": dtype, "ac": True, "gplan": plan}
    if batch:
        base["M"] = N if M is None else M
    else:
        base["id"] = 0
    if axes:
        base["axes"] = axes
    return base


# batch sizes 1..4 so that "the batch sizes of the outputs sum to N" (2 outputs of 1 entry, N = 2; topk(2), N = 4; 3 chunks ...)
# and "an output has N entries again" both occur; square spatial shape (functions of matrices apply); C == N for N = 2
MULTI_BASES = [_multi_base("ImageBatch", n, [3, 3]) for n in (1, 2, 3, 4)] + [
    _multi_base("FlowFields", n, [3, 3], axes=ax) for n, ax in ((1, "cube"), (2, "world"), (3, "grid"), (4, "cube_corners"))] + [
    _multi_base("ImageBatch", 3, [2, 2, 2], dtype="float64", C=3), _multi_base("FlowFields", 2, [2, 3, 2], axes="world", C=3),
    _multi_base("ImageBatch", 2, [2, 3], M=1, C=1),
    _multi_base("Image", 1, [3, 3]), _multi_base("FlowField", 1, [3, 3], axes="grid"), _multi_base("Image", 1, [2, 2, 2], C=3)]


# quick tier: every call form on the ImageBatch with N = C = 2; the calls that work along / change the batch dimension on
# the ImageBatch with 1, 3, 4 items and on the FlowFields with 2 items; the calls with a second operand on single images
# (the rest: thorough tier)
MULTI_QUICK = ["batch", "all", "batch", "batch", None, "batch", None, None, None, None, None, "operands", "operands", None]


def _plain_of(base: dict):
    """(plain twin, operand environment, D) of a survey base object."""
    batch = base["kind"] in BATCH_KINDS
    sp, dt = tuple(base["shape"]), _dt(base["dtype"])
    if batch:
        N, M = base["N"], base.get("M", 1)
        dense = torch.stack([item_data(j, base["C"], sp, dt) for j in range(N)], 0)
        oth = torch.stack([item_data(j, base["C"], sp, dt, 0.25) for j in range(N, N + M)], 0)
    else:
        dense = item_data(base.get("id", 0), base["C"], sp, dt)
        oth = item_data(base.get("id", 0) + 1, base["C"], sp, dt, 0.25)
    p = apply_layout(dense, (base.get("init") or {}).get("layout"))
    return p, {"twin": dense + 0.5, "other": oth, "plain": aux(tuple(dense.shape), dt)}, len(sp)


def multi_survey_cases(tier: str = "quick"):
    """Every discovered multi-output call form x every parameter combination plain torch accepts, on each of MULTI_BASES:
    along every dimension (quick: along the batch, channel and last dimension, and on most bases only the calls that work
    along or change the batch dimension: MULTI_QUICK)."""
    out = []
    for b, base in enumerate(MULTI_BASES):
        p, env, D = _plain_of(base)
        nd = p.ndim
        dims = list(range(-nd, nd)) if tier == "thorough" else sorted({0, 1, nd - 1, -nd})
        select = "all"
        if tier != "thorough":
            select = MULTI_QUICK[b]
            if select is None:
                continue
        for op in multi_ops_for(p, env, D, dims, select):
            out.append(dict(base, ops=[op]))
            if base["kind"] in BATCH_KINDS and tier == "thorough" and op.get("dim", 1) % nd == 0:
                # what was split off / selected is used further: a copy, and the batch it is appended to
                out.append(dict(base, ops=[dict(op, pick=1), {"op": "deepcopy", "via": None}]))
    return out


def gen_multi(draw, p: torch.Tensor, env: dict, D: int) -> dict:
    """A multi-output call form with drawn parameters that plain torch accepts for `p` (up to 4 attempts; else clone)."""
    forms = multi_forms()
    nd = p.ndim
    for _ in range(4):
        ns, fn, tpl = draw(st.sampled_from(forms))
        dims = [0, 0] + list(range(-nd, nd))
        par = draw(st.sampled_from(multi_params(tpl, nd, dims)))
        op = dict({"op": "multi", "ns": ns, "fn": fn, "tpl": tpl, "pick": draw(_ints(0, 3))}, **par)
        r = simulate(op, p, env, D)
        if isinstance(r, list) and r:
            return op
    return {"op": "cast", "fn": "clone", "dtype": "float32"}


@st.composite
def multi_program_cases(draw):
    """Programs as in facet programs in which one operation (the first, or the one after a structural first operation) is a
    function with several outputs; N in 1..4."""
    return draw(program_cases(multi=True))


# ---------------------------------------------------------------------------------------
# explicit batch builders: from_images, append, batch(), iteration, collate_samples


@dataclasses.dataclass
class SampleDC:
    img: Any = None
    imgs: Any = None
    flow: Any = None
    flows: Any = None
    label: Any = None
    name: Any = None
    nothing: Any = None


SampleNT = collections.namedtuple("SampleNT", ["img", "imgs", "flow", "flows", "label", "name", "nothing"],
                                  defaults=[None] * 7)
FIELDS = ["img", "imgs", "flow", "flows", "label", "name", "nothing"]


@st.composite
def constructor_cases(draw):
    what = draw(st.sampled_from(["from_images", "from_images", "append", "append", "batch", "iter_roundtrip", "cat_mixed_axes",
                                 "collate", "collate", "collate", "collate"]))
    D = draw(st.sampled_from([2, 2, 3]))
    case = {"what": what, "shape": draw(st.lists(st.integers(1, 4), min_size=D, max_size=D)), "C": draw(st.integers(1, 3)),
            "dtype": draw(st.sampled_from(["float32", "float64"])), "ac": draw(st.booleans()),
            "flow": draw(st.booleans()), "axes": draw(st.sampled_from(["world", "grid", "cube", "cube_corners"])),
            "gplan": draw_plan(draw, 6, D)}
    ids = st.lists(st.integers(0, 5), min_size=1, max_size=4)
    if what in ("from_images", "iter_roundtrip"):
        case["ids"] = draw(ids)
        # flow fields with different vector axes must not silently become one batch with a single axes label
        case["mixed_axes"] = bool(what == "from_images" and case["flow"] and draw(st.sampled_from([False, True])))
        if case["mixed_axes"] and len(case["ids"]) < 2:
            case["ids"] = case["ids"] + [draw(st.integers(0, 5))]
    elif what in ("append", "cat_mixed_axes"):
        case["ids"] = draw(ids)
        case["ids2"] = draw(ids)
        case["mixed_axes"] = bool(case["flow"] and draw(st.sampled_from([False, False, True]))) or what == "cat_mixed_axes"
        if what == "cat_mixed_axes":
            case["flow"] = True
            case["fn"] = draw(st.sampled_from(["cat", "cat_kw", "cat_tuple"]))
    elif what == "batch":
        case["ids"] = [draw(st.integers(0, 5))]
    else:
        case["container"] = draw(st.sampled_from(["dict", "dataclass", "namedtuple", "ordereddict"]))
        fields = draw(st.lists(st.sampled_from(FIELDS), min_size=1, max_size=5, unique=True))
        if not any(f in fields for f in ("img", "imgs", "flow", "flows")):
            fields.append(draw(st.sampled_from(["img", "imgs", "flow", "flows"])))
        case["fields"] = fields
        ns = draw(st.integers(1, 3))
        case["nsamples"] = ns
        case["per"] = [draw(st.integers(1, 2)) for _ in range(ns)]  # batch size of the ImageBatch / FlowFields fields
        case["order"] = list(draw(st.permutations(list(range(6)))))  # id pool (distinct grids), used cyclically
        mixed = draw(st.sampled_from([False, False, False, True]))
        case["mixed_axes"] = bool(mixed and ns >= 2 and any(f in fields for f in ("flow", "flows")))
        case["nested"] = draw(st.booleans())
    return case


def check_batch(b, cls, ids, C, shape, dt, G, axes, kindname: str):
    """The batch `b` must hold the items `ids` (data, grid, axes) in this order."""
    if type(b) is not cls:
        raise Violation(f"type:{kindname}", f"result is {type(b).__name__}, expected {cls.__name__}")
    exp_shape = (len(ids), C) + tuple(shape)
    if tuple(b.shape) != exp_shape:
        raise Violation(f"shape:{kindname}", f"shape {tuple(b.shape)} != {exp_shape}")
    grids = b.grids()
    if not isinstance(grids, tuple):
        raise Violation(f"grids_type:{kindname}", f"{cls.__name__}.grids() returned a {type(grids).__name__}, not a tuple")
    if len(grids) != len(ids):
        raise Violation(f"grid_count:{kindname}", f"{len(grids)} grids for {len(ids)} items")
    data = b.tensor()
    for i, j in enumerate(ids):
        if not torch.equal(data[i], item_data(j, C, shape, dt)):
            raise Violation(f"data_order:{kindname}", f"entry {i} does not hold the data of item {j}")
        bad = grid_mismatch(grids[i], G[j])
        if bad:
            raise Violation(f"misaligned_grid:{kindname}", f"entry {i} holds item {j} but its grid differs: {bad}")
    if axes is not None and b.axes().value != axes:
        raise Violation(f"axes_lost:{kindname}", f"axes {b.axes().value}, items had {axes}")


def run_constructors(case):
    """Builders read their inputs: afterwards every image / batch given to them is as it was (grids, axes, data)."""
    track: List[tuple] = []
    info = _run_constructors(case, track)
    for obj, before, plain in track:
        check_operand_unchanged(obj, before, plain, case["what"], "input")
    return info


def _run_constructors(case, track: List[tuple]):
    from deepali.core import Axes
    from deepali.data import FlowField, FlowFields, Image, ImageBatch
    from deepali.data.collate import collate_samples

    shape, dt, ac, flow = tuple(case["shape"]), _dt(case["dtype"]), case["ac"], case["flow"]
    D = len(shape)
    C = D if flow else case["C"]
    axes = case["axes"] if flow else None
    plan = case.get("gplan")
    if plan is None:
        G, root = {j: item_desc(j, shape, ac) for j in range(6)}, None
    else:
        G, root = plan_tables(plan, shape)
    pool = GridPool(G, root)  # one pool per case: items that share a Grid object do so across all samples / batches
    ICls, BCls = (FlowField, FlowFields) if flow else (Image, ImageBatch)
    what = case["what"]
    other_axes = "grid" if case["axes"] != "grid" else "world"

    def item(j, fl=flow, ax=axes):
        c = D if fl else case["C"]
        d = item_data(j, c, shape, dt)
        g = pool.grid(j)
        obj = FlowField(d, g, Axes(ax)) if fl else Image(d, g)
        track.append((obj, operand_state(obj), d.clone()))
        return obj

    def batch(ids, fl=flow, ax=axes):
        c = D if fl else case["C"]
        d = torch.stack([item_data(j, c, shape, dt) for j in ids], 0)
        gs = [pool.grid(j) for j in ids]
        obj = FlowFields(d, gs, Axes(ax)) if fl else ImageBatch(d, gs)
        track.append((obj, operand_state(obj), d.clone()))
        return obj

    def check_not_relabelled(b, ids, axes_of_entry, kindname):
        """A flow-field result must not hold the unchanged vectors of an item under another axes label."""
        if not isinstance(b, (FlowFields, FlowField)) or tuple(b.shape) != (len(ids), D) + shape:
            return
        data = b.tensor()
        for i, j in enumerate(ids):
            if b.axes().value == axes_of_entry[i]:
                continue
            # the entry must hold the item's displacement expressed w.r.t. the result's axes: compare with the
            # float64 model of the vector map of the item's own grid (unchanged numbers are only right when that
            # map is the identity, e.g. grid -> cube for an axis with 2 samples)
            g = pool.grid(j)
            m = ref.GridModel([int(n) for n in g.size()], g.spacing().double().numpy(), center=g.center().double().numpy(),
                              direction=g.direction().double().numpy(), align_corners=g.align_corners())
            if "cube_corners" in (axes_of_entry[i], b.axes().value) and min(int(n) for n in g.size()) < 2:
                continue  # cube_corners units are undefined along an axis with a single sample
            M = m.matrix(axes_of_entry[i], b.axes().value)[:D, :D]
            src = item_data(j, D, shape, dt).double().numpy()
            expect = np.einsum("ab,b...->a...", M, src)
            # a direction matrix that is not exactly orthonormal (float32 rounding; one entry perturbed by 2^-17 in 'pert'
            # plans) makes "the" vector map ambiguous by that defect: its inverse and its transpose differ by |R R^T - I|
            Rd = g.direction().double().numpy()
            defect = float(np.abs(Rd @ Rd.T - np.eye(D)).max())
            tol = (64 * 2.0 ** -23 + 2.0 * defect) * max(1e-30, float(np.abs(M).max()) * float(np.abs(src).max()))
            if float(np.abs(data[i].double().numpy() - expect).max()) > tol:
                raise Violation(f"axes_relabelled:{kindname}",
                                f"entry {i} does not hold the vectors of its flow field (axes {axes_of_entry[i]}) "
                                f"expressed w.r.t. the result's axes {b.axes().value}")

    labels = [f"what={what}", f"flow={flow}", f"D={D}"] + plan_labels(plan, 6, G)
    nt = False
    if what == "from_images" and case.get("mixed_axes"):
        ids = case["ids"]
        ax_i = [case["axes"] if i < len(ids) - 1 else other_axes for i in range(len(ids))]
        try:
            b = BCls.from_images([item(j, True, a) for j, a in zip(ids, ax_i)])
        except ValueError:
            return {"nontrivial": True, "labels": labels + ["mixed_axes_rejected"]}
        check_not_relabelled(b, ids, ax_i, "from_images")
        return {"nontrivial": True, "labels": labels + ["mixed_axes_accepted"]}
    elif what in ("append", "cat_mixed_axes") and case.get("mixed_axes"):
        ids, ids2 = case["ids"], case["ids2"]
        b1, b2 = batch(ids, True, case["axes"]), batch(ids2, True, other_axes)
        try:
            if what == "append":
                b = b1.append(b2)
            elif case["fn"] == "cat_kw":
                b = torch.cat([b1, b2], dim=0)
            else:
                b = torch.cat((b1, b2) if case["fn"] == "cat_tuple" else [b1, b2], 0)
        except ValueError:
            return {"nontrivial": True, "labels": labels + ["mixed_axes_rejected"]}
        check_not_relabelled(b, ids + ids2, [case["axes"]] * len(ids) + [other_axes] * len(ids2), what if what == "append" else "cat")
        return {"nontrivial": True, "labels": labels + ["mixed_axes_accepted"]}
    elif what == "from_images":
        ids = case["ids"]
        b = BCls.from_images([item(j) for j in ids])
        check_batch(b, BCls, ids, C, shape, dt, G, axes, "from_images")
        nt = len(set(ids)) >= 2
    elif what == "append":
        ids, ids2 = case["ids"], case["ids2"]
        b = batch(ids).append(batch(ids2))
        check_batch(b, BCls, ids + ids2, C, shape, dt, G, axes, "append")
        nt = len(set(ids + ids2)) >= 2
    elif what == "batch":
        j = case["ids"][0]
        b = item(j).batch()
        check_batch(b, BCls, [j], C, shape, dt, G, axes, "batch")
        nt = j > 0
    elif what == "iter_roundtrip":
        ids = case["ids"]
        src = batch(ids)
        items = list(src)
        if len(items) != len(ids):
            raise Violation("iter_count", f"{len(items)} items from a batch of {len(ids)}")
        for i, (im, j) in enumerate(zip(items, ids)):
            if type(im) is not ICls:
                raise Violation("type:iter", f"item {i} is {type(im).__name__}, expected {ICls.__name__}")
            if not torch.equal(im.tensor(), item_data(j, C, shape, dt)):
                raise Violation("data_order:iter", f"item {i} does not hold the data of item {j}")
            bad = grid_mismatch(im.grid(), G[j])
            if bad:
                raise Violation("misaligned_grid:iter", f"item {i} holds item {j} but its grid differs: {bad}")
            if flow and im.axes().value != axes:
                raise Violation("axes_lost:iter", f"item {i} has axes {im.axes().value}, batch had {axes}")
        b = BCls.from_images(items)
        check_batch(b, BCls, ids, C, shape, dt, G, axes, "from_images")
        nt = len(set(ids)) >= 2
    else:
        fields, ns, per, order = case["fields"], case["nsamples"], case["per"], case["order"]
        counter = [0]

        def next_id():
            j = order[counter[0] % len(order)]
            counter[0] += 1
            return j

        samples, expect = [], {f: [] for f in fields}
        for s in range(ns):
            vals = {}
            ax_s = other_axes if (case["mixed_axes"] and s == ns - 1) else case["axes"]
            for f in fields:
                if f == "img":
                    j = next_id()
                    vals[f] = item(j, False, None)
                    expect[f].append(j)
                elif f == "imgs":
                    js = [next_id() for _ in range(per[s])]
                    vals[f] = batch(js, False, None)
                    expect[f] += js
                elif f == "flow":
                    j = next_id()
                    vals[f] = item(j, True, ax_s)
                    expect[f].append(j)
                elif f == "flows":
                    js = [next_id() for _ in range(per[s])]
                    vals[f] = batch(js, True, ax_s)
                    expect[f] += js
                elif f == "label":
                    vals[f] = s + 1
                    expect[f].append(s + 1)
                elif f == "name":
                    vals[f] = f"sample{s}"
                    expect[f].append(f"sample{s}")
                else:
                    vals[f] = None
            if case["nested"]:
                vals = {"meta": {"index": s}, **vals}
            if case["container"] == "dict":
                smp = vals
            elif case["container"] == "ordereddict":
                smp = collections.OrderedDict(vals)
            elif case["container"] == "dataclass":
                vals.pop("meta", None)
                smp = SampleDC(**vals)
            else:
                vals.pop("meta", None)
                smp = SampleNT(**vals)
            samples.append(smp)
        if case["mixed_axes"]:
            try:
                collate_samples(samples)
            except ValueError:
                return {"nontrivial": True, "labels": labels + ["mixed_axes_rejected", f"container={case['container']}"]}
            raise Violation("mixed_axes_not_rejected", "collate_samples() accepted flow fields with mixed axes")
        out = collate_samples(samples)
        if type(out) is not type(samples[0]):
            raise Violation("collate_container", f"collated {type(out).__name__} from {type(samples[0]).__name__} samples")
        get = (lambda f: out[f]) if isinstance(out, dict) else (lambda f: getattr(out, f))
        for f in fields:
            v = get(f)
            if f == "img" or f == "imgs":
                check_batch(v, ImageBatch, expect[f], case["C"], shape, dt, G, None, f"collate_{f}")
            elif f == "flow" or f == "flows":
                check_batch(v, FlowFields, expect[f], D, shape, dt, G, case["axes"], f"collate_{f}")
            elif f == "label":
                if not (isinstance(v, torch.Tensor) and v.tolist() == expect[f]):
                    raise Violation("collate_label", f"labels {v} != {expect[f]}")
            elif f == "name":
                if list(v) != expect[f]:
                    raise Violation("collate_name", f"names {v} != {expect[f]}")
            elif v is not None:
                raise Violation("collate_none", f"None field collated to {v!r}")
        if case["nested"] and isinstance(out, dict):
            idx = out["meta"]["index"]
            if not (isinstance(idx, torch.Tensor) and idx.tolist() == list(range(ns))):
                raise Violation("collate_nested", f"nested field collated to {idx}")
        nt = ns >= 2 or any(p >= 2 for p in per)
        labels += [f"container={case['container']}", f"ns={ns}"] + [f"field={f}" for f in fields]
    return {"nontrivial": nt, "labels": labels}


# ---------------------------------------------------------------------------------------


def selftest():
    """The shadow model on plain tensors: ids follow the data through structural ops."""
    ids = torch.arange(3, dtype=torch.float64).reshape(3, 1, 1, 1).expand(3, 2, 2, 2).clone()
    E = {"_p": ids, "self": ids}
    _, call, _ = interpret({"op": "flip", "dims": [0], "style": "method"}, 2)
    assert [entry_owner(t, t) for t in call(ids, E)] == [2, 1, 0]
    _, call, _ = interpret({"op": "getitem", "ix": {"t": "btensor", "v": [True, False, True]}}, 2)
    assert [entry_owner(t, t) for t in call(ids, E)] == [0, 2]
    _, call, _ = interpret({"op": "split", "sec": [1, 2], "sectype": "list", "dim": 0, "ds": "kw", "style": "torch"}, 2)
    assert [[entry_owner(t, t) for t in c] for c in call(ids, E)] == [[0], [1, 2]]
    lo = shadow_reduce(ids, 0, True, (1, 2, 2, 2), "lo")
    hi = shadow_reduce(ids, 0, True, (1, 2, 2, 2), "hi")
    assert entry_owner(lo[0], hi[0]) == "mixed"
    d = narrow_desc(item_desc(1, (3, 4), True), 0, 1, 2)
    assert d["size"] == [2, 3] and abs(d["center"][0] - (100.0 + 1.5 * (1 + 0.5 - 1.5))) < 1e-12
    assert touches_dim0({"op": "flip", "dims": [-4]}, 4) and not touches_dim0({"op": "flip", "dims": [1]}, 4)
    # functions with several outputs: the discovery finds the usual ones, and the intervention shadow tells who owns what
    forms = set(multi_forms())
    for need in (("torch", "max", "x_dim_kd"), ("Tensor", "topk", "x_i_dim"), ("torch", "unbind", "x"), ("Tensor", "chunk", "x_i"),
                 ("torch", "var_mean", "x_dims_kd"), ("torch", "sort", "x_dim"), ("torch", "broadcast_tensors", "x_y"), ("linalg", "svd", "x")):
        assert need in forms, need
    data = torch.stack([item_data(j, 2, (2, 2), torch.float32) for j in range(3)], 0)
    sh = torch.arange(3, dtype=torch.float64).reshape(3, 1, 1, 1).expand(3, 2, 2, 2).clone()

    def owners(op):
        _, call, _ = interpret(dict({"op": "multi"}, **op), 2)
        E0 = {"_p": data, "self": data}
        lo_, hi_, cr = multi_shadow(call, True, [("self", data, sh, sh)], E0, list(call(data, E0)))
        return [[entry_owner(a[i], b[i]) for i in range(a.shape[0])] for a, b in zip(lo_, hi_)], cr

    own, cr = owners({"ns": "torch", "fn": "max", "tpl": "x_dim_kd", "dim": 0, "keepdim": True})
    assert own == [["mixed"], ["mixed"]] and cr == [[True], [True]]
    own, cr = owners({"ns": "torch", "fn": "max", "tpl": "x_dim_kd", "dim": 1, "keepdim": True})
    assert own == [[0, 1, 2], [0, 1, 2]] and cr == [[False] * 3] * 2
    own, cr = owners({"ns": "Tensor", "fn": "chunk", "tpl": "x_i", "i": 2})
    assert own == [[0, 1], [2]] and not any(c for r_ in cr for c in r_)
    own, cr = owners({"ns": "torch", "fn": "sort", "tpl": "x_dim", "dim": 0})
    assert own[0] == ["mixed"] * 3 and all(cr[0]) and all(cr[1])
    # grid plans: a perturbed grid differs from the unperturbed one in float32 but stays within allclose(rtol=1e-5, atol=1e-8),
    # the comparison of Grid.__eq__; the rotated direction is orthonormal up to float32 rounding
    for k in range(6):
        for rot in (False, True):
            base = geo_desc(k, (2, 3, 4), True, rot)
            dd = np.array(base["direction"])
            assert np.abs(dd @ dd.T - np.eye(3)).max() < 4 * EPS32
            for what in ("center", "spacing", "direction"):
                for a in range(3):
                    q = geo_desc(k, (2, 3, 4), True, rot, [what, a])
                    va, vb = np.array(q[what], dtype=np.float64).ravel(), np.array(base[what], dtype=np.float64).ravel()
                    assert (va != vb).sum() == 1 and np.all(np.abs(va - vb) <= 1e-8 + 1e-5 * np.minimum(np.abs(va), np.abs(vb)))
                    assert all(q[o] == base[o] for o in ("size", "center", "spacing", "direction", "ac") if o != what)
    nd = narrow_desc(geo_desc(1, (3, 4), False, True), 1, 0, 3)
    assert nd["center"] == geo_desc(1, (3, 4), False, True)["center"] and nd["derived"] and nd["ac"] is False
    # grids with a history: the generator yields what it claims (right size(), fractional stored size where announced), and
    # the constructed twin differs from the derived grid in the stored size only (so Grid.__eq__ tells them apart)
    for ac in (False, True):
        base = geo_desc(1, (3, 4), ac, True)
        for hist, stored in (({"kind": "down", "par": [1, 1], "pac": ac}, [3.5, 2.5]), ({"kind": "down", "par": [0, 1], "pac": ac, "via": "image"}, [4.0, 2.5]),
                             ({"kind": "down2", "par": [1, 3], "pac": ac}, [3.75, 2.25]), ({"kind": "resample", "par": [1, 0], "pac": ac}, None),
                             ({"kind": "flag", "par": [0, 0], "pac": ac}, [4.0, 3.0])):
            g, t = make_item_grid(base, hist), make_item_grid(base, hist, True)
            d = snap_desc(g)
            assert d["size"] == [4, 3] and d["ac"] == ac and (stored is None or d["fsize"] == stored) and (hist["kind"] == "flag") != is_fractional(d)
            assert grid_slots(g)[1:] == grid_slots(t)[1:] and list(g.size()) == list(t.size()) and not is_fractional(snap_desc(t))
            assert (g == t) == (hist["kind"] == "flag") and grid_mismatch(make_item_grid(base, hist), dict(d)) is None
            assert grid_mismatch(t, d) is None or "stored size" in grid_mismatch(t, d)


def _nt_program(case):
    return case.get("N", 1) >= 2


FACETS = [
    Facet("programs", run_program, strategy=program_cases,
          rule="initial ImageBatch/FlowFields (N in 1..4) or Image/FlowField whose item grids follow a drawn grid plan (distinct "
               "geometries with per-item align_corners; or items related to an earlier item: same geometry with the other "
               "align_corners, the same Grid object, an equal-valued distinct Grid, one attribute perturbed below the tolerance of "
               "Grid.__eq__, the constructed integer twin of a derived grid; optional rotation; half of the geometries derived by "
               "Grid/Image.downsample of odd sizes, downsample(2), resample, align_corners(flag): fractional stored sizes in about 1/3 "
               "of the cases), C in 1..3, spatial sizes 1..4, D in {2,3}; 1-3 ops drawn shape-aware from the grammar "
               "incl. append/from_images/batch() on intermediate results (simulated on the plain twin while drawing; ops plain torch "
               "rejects are replaced by clone); the wrapped data is dense (50%) or a view of a larger buffer (offset 20%, strided / "
               "transposed / cropped 10% each), 1 in 6 objects requires grad; after an op whose plain result is a view of its input "
               "(and first, for view-backed objects) the next op is copy-like with probability 1/2; plus a deterministic survey of "
               "every call form on 25 fixed objects (2 with shared-geometry grid plans, 10 view-backed / requiring grad, 4 whose grids "
               "have a history with fractional stored sizes), the cross product (every view-returning survey op) x (every copy-like "
               "call form) on 15 objects (quick: 6) and (every copy mechanism) x (every op using the copy as one of several operands) "
               "on 8 objects (quick: 5); non-trivial = N >= 2 and "
               "some op that reorders/selects/splits/joins along dim 0 returned a deepali type",
          quick=2000, thorough=30000, shards=16, quick_shards=4, nontrivial=_nt_program,
          enumerate=survey_cases, exhaustive_tiers=("quick", "thorough")),
    Facet("multi_output", run_program, strategy=multi_program_cases,
          rule="every function of torch / torch.Tensor / torch.nn.functional / torch.linalg / torch.fft / torch.special that dispatches "
               "through __torch_function__ and returns several tensors (tuple, list, torch.return_types.*) for some argument template "
               "(f(x), f(x, dim=), f(x, dim=, keepdim=), f(x, int), f(x, int, dim) positional and keyword, f(x, list[, dim=]), f(x, y), "
               "f([x, y]), return_inverse / return_counts / return_indices=True; discovered by calling them on a plain probe tensor: "
               "about 100 functions, 270 call forms; those drawing random numbers left out) x every parameter combination plain torch accepts (dim over the batch, "
               "channel and last dimension incl. negative spelling, thorough: every dim; keepdim both; k in 1..3; section lists) on 14 "
               "objects (ImageBatch / FlowFields with N = 1, 2, 3, 4 distinct grids, 2-D and 3-D, C = N, C = 1, Image / FlowField; "
               "quick: all forms on the ImageBatch with N = C = 2, the forms that work along or change the batch dimension on the "
               "ImageBatch with 1, 3, 4 items and the FlowFields with 2 items, the forms with a second operand on Image / FlowField), "
               "plus random programs of 1-3 operations containing one such function (N in 1..4, grid plans, layouts as in facet "
               "programs). Ownership of each output entry is found by intervention on plain torch. non-trivial = N >= 2 and some "
               "output has the dimensions and spatial shape of the input (it could have been described as a batch again)",
          quick=300, thorough=6000, shards=8, quick_shards=2, nontrivial=_nt_program,
          enumerate=multi_survey_cases, exhaustive_tiers=("quick", "thorough")),
    Facet("constructors", run_constructors, strategy=constructor_cases,
          rule="from_images / append / batch() / iteration+from_images / collate_samples (dict, OrderedDict, dataclass, namedtuple; "
               "Image, ImageBatch, FlowField, FlowFields, int, str, None and nested fields) on items drawn from 6 ids whose grids "
               "follow a drawn grid plan (as in facet programs); flow fields with mixed axes given to collate_samples must raise "
               "ValueError, given to append / from_images / torch.cat must raise ValueError or not be relabelled; non-trivial = at "
               "least two items",
          quick=600, thorough=8000, shards=4, quick_shards=1),
]
