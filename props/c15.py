"""C15 - No hidden mutation: functions leave inputs alone, copies leave originals alone.

Three facets:

functional_args  a TABLE of argument recipes for every name in deepali.core.functional.__all__ and
                 deepali.losses.functional.__all__ (completeness is checked in selftest()).  Every tensor
                 argument (recursively in lists/tuples/dicts) is cloned before the call, compared bit-wise
                 (NaN-aware) after the call, and once more after the harness has modified the RESULT in place.
                 Tensor CONTENT is a case dimension of its own (`contents`, one entry per argument slot): generic
                 hash noise, or a special content that turns (a step of) the operation into a no-op so that the
                 value-dependent shortcut branches are taken - range exactly [0,1] / [c,c+1] / [-0.5,0.5], constant,
                 zeros, ones, binary, integer-valued floats, empty / full masks, zero or constant displacement,
                 identity matrices, the sampling grid's own coordinates (see special_array()); plus recipes with
                 scalar arguments that make a step a no-op (intensity window of width 1, side_length=1, sigma=0,
                 padding value 0, ...).  SECONDARY arguments (every parameter besides the data whose annotation admits a
                 tensor: sigma, spacing, size, shape, margin, num, value, padding, min / max, x_max, norm, offset, pos_weight,
                 ...) are also passed as tensors - 0-dim, 1-element, per-dimension and per-batch forms, dtype float32 /
                 float64 / int64 crossed with both data dtypes, contiguous and view layouts - together with every value of the
                 options that switch on per-dimension handling (dims subsets, levels, derivative mode, padding mode):
                 `sec_*` recipes, option combination selected by the case key `w`, all combinations enumerated; the self-test
                 check_secondary_complete() asserts that every such parameter of every function receives a tensor.
accessors        every with-argument accessor ("returns a new object with X changed") of Grid, Cube, Image,
                 ImageBatch, FlowField(s) and of every transform class leaves the receiver's structural and
                 behavioural fingerprint unchanged.  The structural fingerprint of a module contains everything
                 torch.nn.Module serialises or consults: state_dict() keys and values, persistent flags /
                 `_non_persistent_buffers_set` of every sub-module, training flags, all hook dictionaries.  Receivers
                 are exercised fresh, after update() and after __call__() (non-persistent buffers u / v / p exist);
                 data receivers with every special content, transforms also with identity parameters.
                 Every public method that deepali defines for Image / ImageBatch / FlowField / FlowFields is called through
                 an `M` op whose variants set EVERY parameter of the method (self-test check_data_methods_complete()), with
                 values that differ from the receiver's state: align_corners opposite to the flag of the receiver's grid,
                 sigma / size / spacing / margin / bounds as tensors, dims subsets, levels, start / end, modes, paddings.
                 Fingerprints record every attribute of every referenced Grid / Cube (all slots: fractional internal size,
                 spacing, center, direction AND the align_corners flag, which Grid.__eq__ ignores) plus object identity;
                 besides the receiver, sibling objects built from the very same Grid object(s) (an Image, an ImageBatch, a
                 Translation) and every argument object (snapshot taken when the argument is created) must be unchanged.
copies           histories over {copy.copy, copy.deepcopy, clone(), pickle} x {modify original, modify copy}
                 x {in place on tensors, `_` setters, data_, unlink_, condition_, remove_update_hook, train flag} with
                 evaluations (update() / __call__) of either side in between: deep copies are independent in both
                 directions, shallow copies share tensors but not attribute / buffer / module containers nor the
                 persistence bookkeeping of buffers.

Aliasing policy of the functional facet (per recipe, column `policy` of the table):

  fresh  the docstring promises a new tensor / a copy, or the recipe is a computing form (the result is a
         function value, not the argument): the result is modified in place by the harness and the arguments
         must still be bit-identical.  A violation is reported as `result_aliases_arg:<fn>`.
  ref    the docstring says that a reference / view of the argument is (or may be) returned (e.g. expv steps=0,
         downsample levels=0, finite_differences order=0, as_homogeneous_matrix, image_slice, homogeneous_transform
         with vectors=True and a translation).  No probe; aliasing is only recorded as a label.
  pass   degenerate / view / conversion forms whose docstring says nothing and whose implementation hands the
         argument (or a view of it) through: crop/pad with zero margins, center_crop (always a slice view),
         grid_resize to the current size, conv without kernels, move_dim, as_tensor of a tensor, reduce_loss("none"),
         masked_loss(mask=None), ...  This is the library-wide convention that several docstrings spell out
         ("a reference to the unmodified input is returned"); it is not hidden mutation by the function itself, so
         it is recorded as label `alias_undocumented:<fn>` and NOT flagged.  Setting VERIF_C15_STRICT_ALIAS=1
         turns these recipes into `fresh` ones (then each undocumented pass-through is reported).
  in-place variants (inplace=True, out=...) must modify exactly the designated tensor and nothing else.
"""
from __future__ import annotations

import copy as _copy
import io
import math
import os
import pickle

import numpy as np
import torch
from hypothesis import strategies as st

from vlib import gen, ref
from vlib.case import hash_noise, tdtype
from vlib.core import Facet, Skip, Violation

PROPERTY = "C15"
MANIFEST = {
    "text": "Generated-input search (Hypothesis) plus complete enumeration of a recipe table that covers every public "
            "function of deepali.core.functional and deepali.losses.functional (completeness against both __all__ lists is "
            "a self-test, exit 2 if a function has no recipe): every tensor argument, in contiguous / expanded / strided / "
            "offset / transposed memory layouts and float32/float64/integer dtypes, with generic content and with special "
            "contents that make a step of the operation a no-op (unit / offset-unit / centred range, constant, zeros, ones, "
            "binary, integer-valued, empty and full masks, zero displacement, identity matrices and coordinates; scalar options "
            "such as a unit-width intensity window or side_length=1), and every secondary argument whose annotation admits a "
            "tensor (sigma, spacing, size, margin, bounds, padding value, norm, ... as 0-dim / 1-element / per-dimension / per-batch "
            "float32 / float64 / int64 tensors crossed with both data dtypes and with all values of the options that enable "
            "per-dimension handling: dims subsets, levels, derivative modes; completeness is a self-test), is compared bit-wise (NaN-aware) with a "
            "clone taken before the call, again after the harness has modified the result in place (exposes returned "
            "aliases where a new tensor is promised); explicit in-place variants must modify exactly their target. "
            "Every with-argument accessor of Grid, Cube, Image, ImageBatch, FlowField(s) (every public method, every parameter set, "
            "align_corners opposite to the grid's flag, tensor-valued sizes / sigmas / spacings; completeness is a self-test) and of all transform classes "
            "(Parameter / buffer / callable parameters; fresh, after update() and after __call__()) must leave its argument objects, sibling "
            "objects that share the receiver's Grid object(s), and the receiver's "
            "structural fingerprint (tensor values and identities, parameter/buffer/module names, grid, conditioning, nested "
            "flags, every attribute of every referenced Grid incl. fractional size and the align_corners flag, state_dict() keys and values, "
            "persistent flags and _non_persistent_buffers_set, training flags, hook "
            "dictionaries) and its behaviour on probe points unchanged. Histories of copy.copy / deepcopy / clone / pickle, "
            "modifications and evaluations of either side check that deep copies are independent in both directions and that "
            "shallow copies do not share attribute, buffer or module containers nor buffer persistence bookkeeping. "
            "Exploration: no proof of absence.",
    "note": "Trusted: torch.equal / clone, Python object identity, the fingerprint routine in props/c15.py. Undocumented "
            "pass-through returns in no-op argument forms (crop margin 0, ...) are labelled, not flagged (policy `pass`, "
            "see module docstring). CPU only; shapes <= 8 per axis; a mutation that needs a larger tensor or another "
            "argument form than the recipes generate is invisible.",
    "technique": "property-based testing (Hypothesis) with before/after state comparison (bit-wise snapshots, structural "
                 "and behavioural fingerprints) over a complete API recipe table and over copy/modify histories",
}
ASSUMPTIONS = [
    "recipes use valid documented arguments; argument forms that crash because of defects of other properties "
    "(F15 conv with n-D kernel, F25 compose_flows/logv with batch > 1, F6 (N,D,1) translations in as_homogeneous_matrix, "
    "F1/F3 generic Euler orders, K6 ncc_loss mask, F14 region_of_interest in 2-D, F31 copy.copy of flow fields) are not generated",
    "further argument forms not generated because deepali crashes on them (crash defects, not mutations, seen while writing the "
    "recipes): conv() with a padding mode given as str, tversky_index with a label-map "
    "target for more than two classes (N16-1) or any weight for a 1-channel prediction (F26), "
    "MultiLevelTransform of non-rigid members with more than one group (N06-3), FlowField(s).curl(), Translation.matrix() (F6), "
    "EulerRotation.matrix(m) in 2-D (N08-2), rotation_matrix_to_quaternion of a non-contiguous matrix (N08-4, skipped and counted); "
    "callable parameters are a plain picklable callable, not an nn.Module",
    "aliasing policy: undocumented pass-through returns in no-op forms are labelled (alias_undocumented:<fn>), not flagged",
    "shallow copies of transforms: sharing of parameter tensors is asserted; whether replacing a parameter (data_) on one "
    "side is seen by the other is documented as shared-container behaviour and is not asserted either way",
    "SpatialTransform.__copy__ documents that shallow copies share the containers of parameters AND hooks: that "
    "remove_update_hook() on a shallow copy also removes the hook of the original is therefore not flagged (it is asserted "
    "for deep copies, and no accessor may change the hooks of its receiver)",
    "special contents are exact dyadic values (k/64, c in {2, -3, 0.5, -0.25, ...}); a shortcut that needs another exact "
    "value (e.g. a range of exactly 255) is only reached through the scalar-argument recipes",
    "in-place variants called with a special content may legitimately be value no-ops: `inplace_not_applied` is only "
    "asserted for generic content",
    "secondary tensor arguments: only parameters whose annotation admits a tensor are passed as tensors (sizes of grid_resize / "
    "grid_reshape must be integer tensors - Grid.resize() raises TypeError otherwise; region_of_interest() start / size and fill_border() "
    "margins are documented as int sequences and are not passed as tensors); ncc_loss(mask=...) cannot be called at all (K6)",
    "option values not generated because deepali (or torch) rejects them: mode='nearest' of downsample / upsample / pyramid "
    "(F.interpolate refuses align_corners), stride / padding of avg_pool of data objects (Grid.pool raises NotImplementedError), "
    "pyramid(spacing=...) that makes the finest grid size fractional together with align_corners=True (Grid._resize assertion, C03), "
    "normalize(mode='zscore') without any bound (torch.clamp(None, None)); file I/O methods are not called "
    "(Image.same_domain_as() and FlowField(s).curl() raised for every input before the repairs N15-3 / N15-4 and are exercised "
    "like every other method now; a crash inside deepali is reported as a violation)",
    "unlink_() on one shallow copy must not remove the parameters of the other (in-code contract of unlink_: the name is released "
    "'without modifying the container of parameters shared with other shallow copies'); data_() is still not asserted either way",
    "a transform with callable parameters whose grid was replaced by grid_() is not evaluated afterwards in the copies "
    "facet (the callable still returns parameters of the old shape; deepali raises ValueError, which is correct)",
]

STRICT_ALIAS = os.environ.get("VERIF_C15_STRICT_ALIAS", "") == "1"
LAYOUTS = ["contig", "expand", "stride", "offset", "transposed"]


# =======================================================================================
# tensors from case descriptors


def _content(shape, key, lo, hi, dtype, quant=False):
    a = hash_noise(tuple(int(n) for n in shape), key, lo, hi)
    if quant:
        a = np.floor(a)
    if dtype in (torch.float32, torch.float64):
        return torch.tensor(a, dtype=dtype)
    if dtype == torch.bool:
        return torch.tensor(a >= (lo + hi) / 2)
    return torch.tensor(np.floor(a), dtype=dtype)


def layout_tensor(shape, key, lo, hi, dtype, layout, quant=False):
    """Return (tensor, base): `tensor` has the requested shape/content and memory layout, `base` owns the storage."""
    shape = tuple(int(n) for n in shape)
    if layout == "expand" and len(shape) >= 1 and shape[0] > 1:
        base = _content((1,) + shape[1:], key, lo, hi, dtype, quant)
        return base.expand(shape), base
    if layout == "stride" and len(shape) >= 1 and shape[-1] >= 1:
        base = _content(shape[:-1] + (2 * shape[-1],), key, lo, hi, dtype, quant)
        return base[..., ::2], base
    if layout == "offset" and len(shape) >= 1:
        n = int(np.prod(shape))
        base = _content((n + 3,), key, lo, hi, dtype, quant)
        return base[3:].view(shape), base
    if layout == "transposed" and len(shape) >= 2:
        base = _content(shape[:-2] + (shape[-1], shape[-2]), key, lo, hi, dtype, quant)
        return base.transpose(-1, -2), base
    t = _content(shape, key, lo, hi, dtype, quant)
    return t, t


# ---------------------------------------------------------------------------------------
# content dimension: besides generic hash noise, "special" contents that make (a step of) an operation a no-op, so
# that value-dependent shortcut branches (scale == 1, shift == 0, degenerate range, empty mask, identity map, ...)
# are taken.  All special values are dyadic rationals, hence exact in float32 and float64.

CONTENTS = ["noise", "unit", "unit_offset", "center", "const", "zeros", "ones", "binary", "intvals", "identity"]
SPECIAL_CONTENTS = CONTENTS[1:]
_FLOATS = (torch.float32, torch.float64)


def _unit_array(shape, key):
    """Values k/64 in [0, 1] whose minimum is exactly 0 and whose maximum is exactly 1."""
    a = np.floor(hash_noise(shape, key, 0.0, 1.0) * 64.0) / 64.0
    f = a.reshape(-1)
    i, j = int(f.argmin()), int(f.argmax())
    if i == j:
        i, j = 0, f.size - 1
    f[i], f[j] = 0.0, 1.0
    return f.reshape(shape)


def special_array(role, content, shape, key, dtype, D=None):
    """float64 array of the special `content` for an argument of kind `role`, or None when this content is not
    meaningful for the role / dtype (the caller then falls back to generic noise).

    role img     unit: range exactly [0, 1]; unit_offset: range exactly [c, c + 1], c != 0; center: [-0.5, 0.5];
                 const: constant c not in {0, 1}; zeros; ones; binary: {0, 1} with both values present;
                 intvals: integer valued floats
         flow    zeros / identity: zero displacement; const: constant displacement; intvals: whole-voxel like values
         mask    zeros: empty mask; ones: full mask
         labels  zeros: one class only
         coords  identity: the normalised coordinates of the sampling grid itself (align_corners=True); zeros; const
         hom     identity: identity matrices / zero translation; zeros
         pts     zeros; const: all points coincide
    """
    shape = tuple(int(n) for n in shape)
    n = int(np.prod(shape)) if shape else 1
    isf = dtype in _FLOATS
    isb = dtype == torch.bool
    if n < 2 or not shape:
        return None
    if role == "img":
        if content == "zeros":
            return np.zeros(shape)
        if content == "ones":
            return np.ones(shape)
        if isb:
            return None
        if content == "binary":
            b = (hash_noise(shape, key, 0.0, 1.0) >= 0.5).astype(np.float64).reshape(-1)
            b[0], b[-1] = 0.0, 1.0
            return b.reshape(shape)
        if content == "const":
            return np.full(shape, [2.0, -1.5, 0.25, 3.0][key % 4] if isf else 3.0)
        if not isf:
            return None
        if content == "unit":
            return _unit_array(shape, key)
        if content == "unit_offset":
            return _unit_array(shape, key) + [2.0, -3.0, 0.5, -0.25][key % 4]
        if content == "center":
            return _unit_array(shape, key) - 0.5
        if content == "intvals":
            return np.floor(hash_noise(shape, key, 0.0, 5.0)) - 1.0
        return None
    if role == "flow":
        if not isf:
            return None
        if content in ("zeros", "identity"):
            return np.zeros(shape)
        if content == "const":
            return np.full(shape, [0.125, -0.0625, 0.25][key % 3])
        if content == "intvals":
            return np.floor(hash_noise(shape, key, 0.0, 3.0)) - 1.0
        return None
    if role == "mask":
        if content == "zeros":
            return np.zeros(shape)
        if content == "ones":
            return np.ones(shape)
        return None
    if role == "labels":
        if content == "zeros":
            return np.zeros(shape)
        return None
    if role == "coords":
        if not isf:
            return None
        if content == "zeros":
            return np.zeros(shape)
        if content == "const":
            return np.full(shape, 0.25)
        if content == "identity" and D is not None and len(shape) == D + 2 and shape[-1] == D:
            a = np.zeros(shape)
            for ax in range(D):  # tensor axis 1 + ax (..., X) holds coordinate component D - 1 - ax
                m = shape[1 + ax]
                line = np.linspace(-1.0, 1.0, m) if m > 1 else np.zeros(1)
                sh = [1] * (D + 1)
                sh[1 + ax] = m
                a[..., D - 1 - ax] = line.reshape(sh)
            return a
        return None
    if role == "hom":
        if not isf:
            return None
        if content == "zeros":
            return np.zeros(shape)
        if content == "identity":
            if len(shape) == 1:
                return np.zeros(shape)
            a = np.zeros(shape)
            for i in range(min(shape[-2], shape[-1])):
                a[..., i, i] = 1.0
            return a
        return None
    if role == "pts":
        if not isf:
            return None
        if content == "zeros":
            return np.zeros(shape)
        if content == "const":
            return np.full(shape, 0.25)
        return None
    return None


def embed_layout(arr, shape, key, dtype, layout):
    """(tensor, base) with exactly the values of `arr` (shape `shape`, or leading 1 for layout expand) in the
    requested memory layout; gaps of the base storage are filled with generic noise."""
    shape = tuple(int(n) for n in shape)
    t = torch.tensor(arr, dtype=dtype)
    if layout == "expand" and tuple(t.shape) != shape:
        return t.expand(shape), t
    if layout == "stride" and len(shape) >= 1 and shape[-1] >= 1:
        base = _content(shape[:-1] + (2 * shape[-1],), key + 1, 0.0, 1.0, dtype)
        base[..., ::2] = t
        return base[..., ::2], base
    if layout == "offset" and len(shape) >= 1:
        base = _content((t.numel() + 3,), key + 1, 0.0, 1.0, dtype)
        base[3:] = t.reshape(-1)
        return base[3:].view(shape), base
    if layout == "transposed" and len(shape) >= 2:
        base = t.transpose(-1, -2).contiguous()
        return base.transpose(-1, -2), base
    return t, t


class Ctx:
    """Per-case argument factory handed to the recipes."""

    def __init__(self, case):
        self.case = case
        self.contents = list(case.get("contents") or ["noise"])
        self.content_allowed = None  # restriction of special contents set by the recipe (None: all)
        self.special = []  # special contents actually used
        self.D = int(case["D"])
        self.N = int(case["N"])
        self.C = int(case["C"])
        self.shape = tuple(int(n) for n in case["shape"])  # (..., X)
        self.size = tuple(reversed(self.shape))  # (X, ...)
        self.dt = tdtype(case["dtype"])
        self.key = int(case["key"])
        self.v = int(case.get("v", 0))
        self.w = int(case.get("w", 0))  # selects the option combination of the secondary-argument recipes (see _pick)
        self.sdtype = str(case.get("sdtype", "float32"))  # dtype of secondary tensor arguments (sigma, spacing, size, ...)
        self.sec_allowed = None  # dtypes the recipe admits for its secondary tensors (R.sdt)
        self.secs = 0  # number of secondary tensor arguments created
        self.layouts = list(case["layouts"])
        self.allowed = None  # restriction of layouts set by the recipe
        self.bases = []
        self.views = 0
        self.no_expand = False

    def layout(self, slot):
        lay = self.layouts[slot % len(self.layouts)]
        if self.allowed is not None and lay not in self.allowed:
            lay = "contig"
        if lay == "expand" and self.no_expand:
            lay = "stride"
        return lay

    def content(self, slot):
        c = self.contents[slot % len(self.contents)]
        if c != "noise" and self.content_allowed is not None and c not in self.content_allowed:
            c = "noise"
        return c

    def ten(self, slot, shape, lo=0.0, hi=1.0, dtype=None, layout=None, quant=False, role=None):
        dtype = self.dt if dtype is None else dtype
        lay = self.layout(slot) if layout is None else layout
        content = self.content(slot) if role is not None else "noise"
        if content != "noise":
            shape = tuple(int(n) for n in shape)
            ashape = (1,) + shape[1:] if lay == "expand" and len(shape) >= 1 and shape[0] > 1 else shape
            arr = special_array(role, content, ashape, self.key * 16 + slot, dtype, self.D)
            if arr is not None:
                t, base = embed_layout(arr, shape, self.key * 16 + slot, dtype, lay)
                if base is not t:
                    self.views += 1
                self.bases.append((t, base))
                self.special.append(content)
                return t
        t, base = layout_tensor(shape, self.key * 16 + slot, lo, hi, dtype, lay, quant)
        if base is not t:
            self.views += 1
        self.bases.append((t, base))
        return t

    def sec(self, slot, shape, lo=0.5, hi=2.0, ilo=1, ihi=3, quant=False, layout=None):
        """Secondary (non-primary) argument given as a TENSOR: sigma, spacing, size, margins, bounds, padding value, ...
        The dtype is the case dimension `sdtype` (float32 / float64 / int64, restricted to what the recipe admits), so
        that together with the data dtype every combination occurs in which deepali's as_tensor() / cat_scalars() /
        Tensor.to() hands the caller's own tensor through without a copy.  Float values lie in [lo, hi) (whole numbers
        when quant=True), integer values in [ilo, ihi).  The memory layout follows the slot like any other argument."""
        allow = self.sec_allowed or SDT_F
        name = self.sdtype if self.sdtype in allow else allow[0]
        self.secs += 1
        if name == "int64":
            return self.ten(slot, shape, float(ilo), float(ihi), torch.int64, layout)
        return self.ten(slot, shape, float(ilo) if quant else lo, float(ihi) if quant else hi, tdtype(name), layout, quant=quant)

    def sec_vals(self, slot, values, dtype):
        """Secondary tensor argument with the given exact values (sizes, shapes), in the memory layout of the slot."""
        lay = self.layout(slot)
        arr = np.asarray(values, dtype=np.float64)
        t, base = embed_layout(arr, arr.shape, self.key * 16 + slot, dtype, "contig" if lay == "expand" else lay)
        if base is not t:
            self.views += 1
        self.bases.append((t, base))
        self.secs += 1
        return t

    # typical argument kinds ------------------------------------------------------------
    def img(self, slot, C=None, N=None, lo=0.0, hi=1.0, dtype=None, layout=None):
        N = self.N if N is None else N
        C = self.C if C is None else C
        return self.ten(slot, (N, C) + self.shape, lo, hi, dtype, layout, role="img")

    def flow(self, slot, N=None, amp=0.2, dtype=None, layout=None):
        N = self.N if N is None else N
        return self.ten(slot, (N, self.D) + self.shape, -amp, amp, dtype, layout, role="flow")

    def mask(self, slot, C=1, N=None, dtype=None, layout=None):
        N = self.N if N is None else N
        return self.ten(slot, (N, C) + self.shape, 0.0, 2.0, dtype, layout, quant=True, role="mask")

    def coords(self, slot, lead=None, N=None, dtype=None, layout=None, r=0.9):
        N = self.N if N is None else N
        lead = self.shape if lead is None else tuple(lead)
        return self.ten(slot, (N,) + lead + (self.D,), -r, r, dtype, layout, role="coords")

    def labels(self, slot, K, C=1, N=None, layout=None):
        N = self.N if N is None else N
        return self.ten(slot, (N, C) + self.shape, 0.0, float(K), torch.int64, layout, role="labels")

    def gen(self):
        g = torch.Generator()
        g.manual_seed(self.key)
        return g

    def grid(self, ac=True):
        from deepali.core import Grid

        return Grid(shape=self.shape, align_corners=ac)

    def rot(self, n=None):
        """Batch of proper rotation matrices (n, D, D) from closed-form angles."""
        n = self.N if n is None else n
        ms = []
        for b in range(n):
            a = 0.3 + 0.2 * b + 0.01 * (self.key % 7)
            ms.append(ref.rot2(a) if self.D == 2 else ref.euler_matrix([a, 0.5 * a, -0.7 * a], "ZXZ"))
        return np.stack(ms)


# =======================================================================================
# snapshots


def walk_tensors(obj, path=""):
    """Yield (path, tensor) for all tensors in nested lists/tuples/dicts."""
    if isinstance(obj, torch.Tensor):
        yield path, obj
    elif isinstance(obj, (list, tuple)):
        for i, o in enumerate(obj):
            yield from walk_tensors(o, f"{path}[{i}]")
    elif isinstance(obj, dict):
        for k in obj:
            yield from walk_tensors(obj[k], f"{path}[{k!r}]")


def same_bits(a: torch.Tensor, b: torch.Tensor) -> bool:
    if a.shape != b.shape or a.dtype != b.dtype:
        return False
    if a.numel() == 0:
        return True
    a = a.detach()
    b = b.detach()
    if a.is_floating_point() or a.is_complex():
        return bool(((a == b) | (a.isnan() & b.isnan())).all())
    return bool(torch.equal(a, b))


def walk_grids(obj, path=""):
    """Yield (path, Grid | Cube) for all grid objects in nested lists/tuples/dicts."""
    from deepali.core import Cube, Grid

    if isinstance(obj, (Grid, Cube)):
        yield path, obj
    elif isinstance(obj, (list, tuple)):
        for i, o in enumerate(obj):
            yield from walk_grids(o, f"{path}[{i}]")
    elif isinstance(obj, dict):
        for k in obj:
            yield from walk_grids(obj[k], f"{path}[{k!r}]")


class Snapshot:
    def __init__(self, args, kwargs, bases):
        self.items = []
        # Grid / Cube arguments: all attributes (tensors by value and identity, align_corners flag)
        self.grids = [(path, g, grid_fp(g)) for path, g in list(walk_grids(args, "args")) + list(walk_grids(kwargs, "kwargs"))]
        seen = set()
        for path, t in list(walk_tensors(args, "args")) + list(walk_tensors(kwargs, "kwargs")):
            if id(t) in seen:
                continue
            seen.add(id(t))
            self.items.append((path, t, t.detach().clone(), t._version, tuple(t.shape), t.stride(), t.dtype))
        self.bases = [(b, b.detach().clone()) for _, b in bases]

    def changed(self, skip=()):
        """Paths of argument tensors (or their storage bases) that differ from their clones."""
        out = []
        for path, t, c, _, shape, stride, dtype in self.items:
            if path in skip:
                continue
            if tuple(t.shape) != shape or t.dtype != dtype or t.stride() != stride:
                out.append(path + ":metadata")
            elif not same_bits(t, c):
                out.append(path)
        if not skip:
            for i, (b, c) in enumerate(self.bases):
                if not same_bits(b, c):
                    out.append(f"base#{i}")
        for path, g, fp0 in self.grids:
            if fp_diff(fp0, grid_fp(g)):
                out.append(path + ":grid" + "".join(fp_diff(fp0, grid_fp(g))[:2]))
        return out

    def bumped(self):
        return [p for p, t, _, v, *_ in self.items if t._version != v]

    def get(self, path):
        for p, t, c, *_ in self.items:
            if p == path:
                return t, c
        raise KeyError(path)


def shares_memory(a: torch.Tensor, b: torch.Tensor) -> bool:
    if a.numel() == 0 or b.numel() == 0:
        return False
    try:
        sa, sb = a.untyped_storage(), b.untyped_storage()
    except Exception:  # pragma: no cover
        return a.data_ptr() == b.data_ptr()
    return sa.data_ptr() == sb.data_ptr() and sa.data_ptr() != 0


def probe_result(result):
    """Modify every result tensor in place (add 1 / logical not). Returns number of probed tensors."""
    n = 0
    seen = set()
    with torch.no_grad():
        for _, r in walk_tensors(result, "result"):
            if id(r) in seen or r.numel() == 0:
                continue
            seen.add(id(r))
            if any(s == 0 and k > 1 for s, k in zip(r.stride(), r.shape)):
                # expanded result (documented for e.g. circle_image(num>1)): make it writable first
                continue
            if torch._debug_has_internal_overlap(r) == 1:
                continue
            if r.dtype == torch.bool:
                r.logical_not_()
            else:
                r.add_(1)
            n += 1
    return n


# =======================================================================================
# recipe table of the functional facet


class R:
    """One argument recipe: build(X) -> (args, kwargs)."""

    def __init__(self, tag, build, policy="fresh", inplace=None, layouts=None, dims=(2, 3), no_expand=False,
                 nmax=2, doc="", skip_on=None, contents=None, nw=1, sdt=None, qstep=1):
        self.tag = tag
        self.build = build
        self.policy = policy  # fresh | ref | pass
        self.inplace = inplace  # path of the tensor that must be modified (in-place variants)
        self.layouts = layouts
        self.dims = dims
        self.no_expand = no_expand or inplace is not None
        self.nmax = nmax
        self.doc = doc
        self.skip_on = skip_on  # (ExceptionType, substring, finding id): known crash of another property
        self.contents = contents  # None: every special content may be used; tuple: only these (() = generic noise only)
        self.nw = int(nw)  # number of option combinations of the secondary arguments (selected by X.w, all enumerated)
        self.sdt = sdt  # dtypes admitted for secondary TENSOR arguments (None: the recipe has no X.sec() argument)
        self.qstep = int(qstep)  # quick tier: enumerate every qstep-th option combination (coprime to the option radices)


class SKIP:
    def __init__(self, why):
        self.why = why


SDT_F = ("float32", "float64")
SDT_FI = ("float32", "float64", "int64")
SDT_I = ("int64",)


def _pick(X, *lists):
    """One value of each option list, selected by the mixed-radix digits of X.w (all combinations are enumerated)."""
    w, out = X.w, []
    for lst in lists:
        out.append(lst[w % len(lst)])
        w //= len(lst)
    return out


def _ncomb(*lists):
    return int(np.prod([len(lst) for lst in lists]))


def _f(x):
    return torch.float64 if x.dt == torch.float64 else torch.float32


def _hom(X, slot, kind="hom", N=None):
    """Homogeneous transform tensors close to identity: kind hom (N,D,D+1), aff (N,D,D), vec (D,)."""
    N = X.N if N is None else N
    D = X.D
    if kind == "vec":
        return X.ten(slot, (D,), -0.3, 0.3, role="hom")
    cols = D + 1 if kind == "hom" else D
    t = X.ten(slot, (N, D, cols), -0.2, 0.2, role="hom")
    # near-identity content without touching the layout: add eye through an out-of-place op is not possible
    # (it would lose the layout), so the noise itself is used - all functions accept arbitrary matrices.
    return t


def _rotm(X, slot, n=None, hom=False):
    m = X.rot(n)
    if X.content(slot) == "identity":
        m = np.stack([np.eye(X.D)] * m.shape[0])
        X.special.append("identity")
    if hom:
        m = np.concatenate([m, np.zeros(m.shape[:-1] + (1,))], axis=-1)
    t = torch.tensor(m, dtype=X.dt)
    lay = X.layout(slot)
    if lay == "stride":
        base = torch.zeros(t.shape[:-1] + (2 * t.shape[-1],), dtype=X.dt)
        base[..., ::2] = t
        X.bases.append((base[..., ::2], base))
        X.views += 1
        return base[..., ::2]
    if lay == "offset":
        base = torch.zeros(t.numel() + 3, dtype=X.dt)
        base[3:] = t.reshape(-1)
        v = base[3:].view(t.shape)
        X.bases.append((v, base))
        X.views += 1
        return v
    X.bases.append((t, t))
    return t


def _pts(X, slot, M=5, N=None, d=None):
    N = X.N if N is None else N
    return X.ten(slot, (N, M, X.D if d is None else d), -0.9, 0.9, role="pts")


DERIV_MODES = [None, "central", "forward", "bspline", "gaussian", "sobel"]


def _dkw(X, spacing_tensor=True, bspline=True):
    """Keyword arguments of the derivative based functions, selected by the variant number."""
    mode = DERIV_MODES[X.v % len(DERIV_MODES)]
    if mode == "bspline" and not bspline:  # output is 3 samples smaller: not usable where the field itself is combined with it
        mode = "backward"
    kw = {"mode": mode}
    if X.v % 4 == 1:
        kw["sigma"] = 0.8
    if spacing_tensor and X.v % 3 == 0:
        kw["spacing"] = X.ten(7, (X.N, X.D), 0.5, 2.0, torch.float32)
    elif X.v % 3 == 1:
        kw["spacing"] = [0.5 + 0.25 * i for i in range(X.D)]
    if mode == "bspline" and X.v % 2 == 0:
        kw["stride"] = 2
    return kw


def _margin(X):
    return [max(1, min(1 + (X.v + i) % 2, (X.size[i] - 1) // 2)) for i in range(X.D)]


def _padkw(X):
    mode = ["constant", "replicate", "reflect" if X.D == 2 else "replicate", "zeros"][X.v % 4]
    return {"mode": mode, "value": 3} if mode == "constant" else {"mode": mode}


def _pm(name):
    from deepali.core.enum import PaddingMode

    return None if name is None else PaddingMode(name) if isinstance(name, str) else name


def _k1(X, slot, n=3, dtype=None):
    return X.ten(slot, (n,), 0.1, 1.0, dtype)


def _quat(X, slot):
    return X.ten(slot, (X.N, 4), 0.2, 1.0)


def _labels2(X, slot):
    return X.ten(slot, (X.N, 2) + X.shape, 0.0, 1.0)


CORE = {}
LOSS = {}

# --- basic tensor functions ------------------------------------------------------------------
CORE["abspow"] = [
    R("exp1", lambda X: ((X.img(0, lo=-1), 1), {})),
    R("exp2", lambda X: ((X.img(0, lo=-1), 2 + X.v % 2), {})),
]
CORE["as_tensor"] = [
    R("tensor", lambda X: ((X.img(0),), {}), policy="ref", doc="'Create tensor from array if argument is not of type torch.Tensor'"),
    R("cast", lambda X: ((X.img(0),), {"dtype": torch.float64 if X.dt == torch.float32 else torch.float32})),
    R("list", lambda X: (([1.0, 2.0, 3.0],), {"dtype": X.dt})),
]
CORE["as_float_tensor"] = [
    R("float", lambda X: ((X.img(0),), {}), policy="ref", doc="'Create tensor with floating point type from argument if it is not yet'"),
    R("int", lambda X: ((X.labels(0, 5),), {})),
]
CORE["as_one_hot_tensor"] = [
    R("labels", lambda X: ((X.labels(0, 3), 3), {"dtype": X.dt})),
    R("ignore", lambda X: ((X.labels(0, 4), 4), {"ignore_index": 3})),
    R("onehot_same_dtype", lambda X: ((X.img(0, C=3, dtype=torch.float32), 3), {}), policy="pass"),
    R("onehot_cast", lambda X: ((X.img(0, C=3, dtype=torch.float64), 3), {"dtype": torch.float32})),
]
CORE["atanh"] = [R("x", lambda X: ((X.img(0, lo=-0.9, hi=0.9),), {}))]
CORE["atleast_1d"] = [
    R("tensor", lambda X: ((X.img(0),), {}), policy="pass"),
    R("scalar", lambda X: ((X.ten(0, (), 0, 1),), {}), policy="pass"),
    R("cast", lambda X: ((X.img(0),), {"dtype": torch.float64 if X.dt == torch.float32 else torch.float32})),
]
CORE["batched_index_select"] = [
    R("dim1", lambda X: ((X.ten(0, (X.N, 6, 3)), 1, X.ten(1, (X.N, 4), 0, 6, torch.int64)), {})),
    R("dim2", lambda X: ((X.ten(0, (X.N, 3, 6)), 2, X.ten(1, (X.N, 2), 0, 6, torch.int64)), {})),
]
CORE["max_difference"] = [
    R("two", lambda X: ((X.img(0), X.img(1, lo=-2)), {})),
    R("same", lambda X: (lambda a: ((a, a), {}))(X.img(0))),
]
CORE["move_dim"] = [
    R("move", lambda X: ((X.img(0), 1, -1), {}), policy="pass"),
    R("back", lambda X: ((X.img(0), -1, 1), {}), policy="pass"),
    R("same", lambda X: ((X.img(0), 1, 1), {}), policy="pass"),
]
CORE["round_decimals"] = [
    R("dec0", lambda X: ((X.img(0, hi=9),), {})),
    R("dec2", lambda X: ((X.img(0, hi=9), 2), {})),
    R("out_self", lambda X: (lambda a: ((a, 1 + X.v % 2), {"out": a}))(X.img(0, hi=9)), inplace="args[0]"),
    R("out_other", lambda X: ((X.img(0, hi=9), 2), {"out": X.img(1)}), inplace="kwargs['out']"),
    R("out_other_dec0", lambda X: ((X.img(0, hi=9),), {"out": X.img(1)}), inplace="kwargs['out']"),
]
CORE["threshold"] = [
    R("both", lambda X: ((X.img(0), 0.2, 0.7), {})),
    R("none", lambda X: ((X.img(0), None, None), {})),
    R("tensor_bounds", lambda X: ((X.img(0), X.ten(1, (), 0.1, 0.3), X.ten(2, (), 0.6, 0.9)), {})),
    R("min_only", lambda X: ((X.img(0), 0.5), {})),
]
CORE["unravel_coords"] = [R("idx", lambda X: ((X.ten(0, (X.N, 7), 0, float(np.prod(X.shape)), torch.int64), X.size), {}))]
CORE["unravel_index"] = [R("idx", lambda X: ((X.ten(0, (X.N, 7), 0, float(np.prod(X.shape)), torch.int64), X.shape), {}))]
CORE["multinomial"] = [
    R("vector", lambda X: ((X.ten(0, (9,), 0.1, 1.0), 4), {"generator": X.gen()})),
    R("matrix_repl", lambda X: ((X.ten(0, (X.N, 9), 0.1, 1.0), 12), {"replacement": True, "generator": X.gen()})),
    R("out", lambda X: ((X.ten(0, (X.N, 9), 0.1, 1.0), 4), {"generator": X.gen(), "out": torch.full((X.N, 4), -1, dtype=torch.int64)}),
      inplace="kwargs['out']"),
]

# --- linear algebra / geometry -------------------------------------------------------------
CORE["affine_flow"] = [
    R("grid_obj", lambda X: ((_hom(X, 0), X.grid(X.v % 2 == 0)), {})),
    R("grid_tensor", lambda X: ((_hom(X, 0), X.coords(1)), {"channels_last": X.v % 2 == 1})),
    R("translation", lambda X: ((X.ten(0, (X.N, X.D, 1), -0.2, 0.2), X.coords(1, N=1)), {})),
    R("affine", lambda X: ((_hom(X, 0, "aff"), X.grid()), {})),
]
CORE["affine_rotation_matrix"] = [
    R("m33", lambda X: ((X.ten(0, (X.N, 3, 3), 0.2, 1.0),), {})),
    R("m34", lambda X: ((X.ten(0, (3, 4), 0.2, 1.0),), {})),
]
for _n in ("affine_transform_points", "affine_transform_vectors", "apply_affine_transform", "homogeneous_transform"):
    _vec = {"affine_transform_vectors": True, "affine_transform_points": False}.get(_n)

    def _mk(vec):
        def kw(X, force=None):
            if vec is None:
                return {"vectors": (X.v % 2 == 1) if force is None else force}
            return {}

        rs = [
            R("hom", lambda X, kw=kw: ((_hom(X, 0), _pts(X, 1)), kw(X))),
            R("aff", lambda X, kw=kw: ((_hom(X, 0, "aff"), X.coords(1)), kw(X))),
            R("hom_bcast", lambda X, kw=kw: ((_hom(X, 0, N=1), _pts(X, 1)), kw(X))),
            R("pts_bcast", lambda X, kw=kw: ((_hom(X, 0), _pts(X, 1, N=1)), kw(X))),
            R("matrix2d", lambda X, kw=kw: ((X.ten(0, (X.D, X.D + 1), -0.3, 0.3), X.ten(1, (X.D,), -1, 1)), kw(X))),
            R("int_points", lambda X, kw=kw: ((_hom(X, 0), X.ten(1, (X.N, 4, X.D), 0, 5, torch.int64)), kw(X))),
        ]
        if vec is not True:
            rs.append(R("trans_points", lambda X, kw=kw: ((X.ten(0, (X.N, X.D, 1), -0.3, 0.3), _pts(X, 1)), kw(X, False))))
        if vec is not False:
            rs.append(R("trans_vectors", lambda X, kw=kw: ((X.ten(0, (X.N, X.D, 1), -0.3, 0.3), _pts(X, 1)), kw(X, True)), policy="ref",
                        doc="homogeneous_transform: 'a tensor sharing the data memory of the input points is returned'"))
            rs.append(R("vec_trans_vectors", lambda X, kw=kw: ((X.ten(0, (X.D,), -0.3, 0.3), _pts(X, 1)), kw(X, True)), policy="ref",
                        doc="homogeneous_transform: 'a tensor sharing the data memory of the input points is returned'"))
        return rs

    CORE[_n] = _mk(_vec)
CORE["angle_axis_to_rotation_matrix"] = [R("aa", lambda X: ((X.ten(0, (X.N, 3), -1, 1),), {})),
                                         R("zero", lambda X: ((torch.zeros(X.N, 3, dtype=X.dt),), {}))]
CORE["angle_axis_to_quaternion"] = [R("aa", lambda X: ((X.ten(0, (X.N, 3), -1, 1),), {})),
                                    R("lead", lambda X: ((X.ten(0, (X.N, 2, 3), -1, 1),), {}))]
CORE["as_homogeneous_matrix"] = [
    R("hom", lambda X: ((_hom(X, 0),), {}), policy="ref", doc="'a reference to this tensor is returned without making a copy'"),
    R("aff", lambda X: ((_hom(X, 0, "aff"),), {})),
    R("vec", lambda X: ((_hom(X, 0, "vec"),), {})),
    R("col", lambda X: ((X.ten(0, (X.D, 1), -1, 1),), {})),
    R("cast", lambda X: ((_hom(X, 0),), {"dtype": torch.float64 if X.dt == torch.float32 else torch.float32})),
]
CORE["as_homogeneous_tensor"] = [
    R("hom", lambda X: ((_hom(X, 0),), {}), policy="pass"),
    R("vec", lambda X: ((_hom(X, 0, "vec"),), {}), policy="pass"),
    R("cast", lambda X: ((_hom(X, 0, "aff"),), {"dtype": torch.float64 if X.dt == torch.float32 else torch.float32})),
]
_ORDERS = ["XYZ", "ZYX", "ZXY", "XZX", "ZXZ", None, "zxz"]
for _n in ("euler_rotation_matrix", "rotation_matrix"):
    CORE[_n] = [
        R("angles", lambda X: ((X.ten(0, (X.N, 1 if X.D == 2 else 3), -1, 1),), {"order": _ORDERS[X.v % len(_ORDERS)], "homogeneous": X.v % 2 == 0})),
        R("vector", lambda X: ((X.ten(0, (1 if X.D == 2 else 3,), -1, 1), _ORDERS[X.v % len(_ORDERS)]), {})),
        R("int_angles", lambda X: ((X.ten(0, (X.N, 1 if X.D == 2 else 3), 0, 3, torch.int64),), {})),
    ]
CORE["euler_rotation_angles"] = [
    R("rot", lambda X: ((_rotm(X, 0),), {"order": ["ZXZ", "XZX", None][X.v % 3]})),
    R("hom", lambda X: ((_rotm(X, 0, hom=True),), {})),
]
CORE["euler_rotation_order"] = [R("args", lambda X: ((["zxz", "XYZ", None, "zyx"][X.v % 4],), {"ndim": X.D}))]
_HM = [("hom", "aff"), ("hom", "hom"), ("aff", "hom"), ("aff", "aff"), ("vec", "hom"), ("hom", "vec"), ("vec", "aff"), ("aff", "vec")]
CORE["hmm"] = [
    R("pair", lambda X: ((_hom(X, 0, _HM[X.v % 8][0]), _hom(X, 1, _HM[X.v % 8][1])), {})),
    R("bcast", lambda X: ((_hom(X, 0, "hom", N=1), _hom(X, 1, "aff")), {})),
    R("int", lambda X: ((X.ten(0, (X.N, X.D, X.D), 0, 3, torch.int64), _hom(X, 1)), {})),
]
CORE["homogeneous_matmul"] = [
    R("pair", lambda X: ((_hom(X, 0, _HM[X.v % 8][0]), _hom(X, 1, _HM[X.v % 8][1])), {})),
    R("triple", lambda X: ((_hom(X, 0), _hom(X, 1, "aff"), _hom(X, 2)), {})),
    R("vecs", lambda X: ((_hom(X, 0, "vec"), _hom(X, 1, "vec")), {})),
    R("single", lambda X: ((_hom(X, 0),), {}), policy="pass"),
]
CORE["homogeneous_matrix"] = [
    R("hom", lambda X: ((_hom(X, 0),), {}), doc="'Always makes a copy of tensor'"),
    R("hom_offset", lambda X: ((_hom(X, 0), X.ten(1, (X.N, X.D), -1, 1)), {}), doc="'Always makes a copy of tensor'"),
    R("aff_offset", lambda X: ((_hom(X, 0, "aff"), X.ten(1, (X.D,), -1, 1)), {})),
    R("hom_scalar_offset", lambda X: ((_hom(X, 0), X.ten(1, (), 0.5, 1)), {"dtype": X.dt})),
    R("vec", lambda X: ((_hom(X, 0, "vec"),), {})),
]
CORE["identity_transform"] = [
    R("shape", lambda X: (((X.N, X.D),), {"homogeneous": X.v % 2 == 0, "dtype": X.dt})),
    R("tensor_shape", lambda X: ((torch.tensor([X.N, X.D]),), {})),
]
CORE["normalize_quaternion"] = [R("q", lambda X: ((_quat(X, 0),), {}))]
CORE["quaternion_to_angle_axis"] = [R("q", lambda X: ((_quat(X, 0),), {}))]
CORE["quaternion_to_rotation_matrix"] = [R("q", lambda X: ((_quat(X, 0),), {}))]
CORE["quaternion_log_to_exp"] = [R("q", lambda X: ((X.ten(0, (X.N, 3), -1, 1),), {}))]
CORE["quaternion_exp_to_log"] = [R("q", lambda X: ((_quat(X, 0),), {}))]
CORE["rotation_matrix_to_angle_axis"] = [R("m", lambda X: ((torch.tensor(np.stack([ref.euler_matrix([0.3 + b, 0.2, -0.4], "ZXZ") for b in range(X.N)]), dtype=X.dt),), {}))]
CORE["rotation_matrix_to_quaternion"] = [R("m", lambda X: ((X.ten(0, (X.N, 3, 3), -1, 1),), {}), skip_on=(RuntimeError, "view size is not compatible", "N08-4"))]
CORE["scaling_transform"] = [
    R("scales", lambda X: ((X.ten(0, (X.N, X.D), 0.5, 2),), {"homogeneous": X.v % 2 == 0})),
    R("int", lambda X: ((X.ten(0, (X.D,), 1, 4, torch.int64),), {})),
]
CORE["shear_matrix"] = [R("angles", lambda X: ((X.ten(0, (X.N, 1 if X.D == 2 else 3), -0.5, 0.5),), {"homogeneous": X.v % 2 == 0}))]
CORE["tensordot"] = [
    R("dims2", lambda X: ((X.ten(0, (3, 4, 5)), X.ten(1, (4, 5, 2))), {})),
    R("dims1", lambda X: ((X.ten(0, (3, 4)), X.ten(1, (4, 2)), 1), {})),
    R("axes", lambda X: ((X.ten(0, (3, 4, 5)), X.ten(1, (5, 3, 2)), ([0, 2], [1, 0])), {})),
]
CORE["translation"] = [
    R("vec", lambda X: ((X.ten(0, (X.N, X.D), -1, 1),), {}), policy="pass"),
    R("col", lambda X: ((X.ten(0, (X.N, X.D, 1), -1, 1),), {}), policy="pass"),
    R("hom", lambda X: ((X.ten(0, (X.N, X.D), -1, 1),), {"homogeneous": True})),
    R("hom_col", lambda X: ((X.ten(0, (X.N, X.D, 1), -1, 1),), {"homogeneous": True})),
    R("int", lambda X: ((X.ten(0, (X.D,), 0, 4, torch.int64),), {})),
]
CORE["vectordot"] = [
    R("ab", lambda X: ((_pts(X, 0), _pts(X, 1)), {})),
    R("w", lambda X: ((_pts(X, 0), _pts(X, 1), _pts(X, 2)), {"dim": 1})),
]
CORE["vector_rotation"] = [R("ab", lambda X: ((X.ten(0, (X.N, 3), 0.1, 1), X.ten(1, (X.N, 3), -1, -0.1)), {}))]

# --- image data operations -----------------------------------------------------------------
CORE["avg_pool"] = [
    R("k2", lambda X: ((X.img(0), 2), {})),
    R("k3s1", lambda X: ((X.img(0), 3), {"stride": 1, "padding": None, "count_include_pad": X.v % 2 == 0})),
    R("k1", lambda X: ((X.img(0), 1), {"stride": 1})),
]
CORE["max_pool"] = [R("k2", lambda X: ((X.img(0), 2), {})), R("k1", lambda X: ((X.img(0), 1), {"stride": 1})),
                    R("k3s1", lambda X: ((X.img(0), 3), {"stride": 1, "padding": None}))]
CORE["min_pool"] = [R("k2", lambda X: ((X.img(0), 2), {})), R("k1", lambda X: ((X.img(0), 1), {"stride": 1}))]
CORE["bounding_box"] = [R("pts", lambda X: ((X.ten(0, (6, X.D), -1, 1),), {})), R("one", lambda X: ((X.ten(0, (1, X.D), -1, 1),), {}))]
CORE["bspline_interpolation_weights"] = [R("deg", lambda X: ((2 + X.v % 4, 1 + X.v % 3), {"dtype": X.dt})),
                                         R("strides", lambda X: ((3, (2, 3)), {}))]
CORE["center_crop"] = [
    R("smaller", lambda X: ((X.img(0), [n - 1 - X.v % 2 for n in X.size]), {}), policy="pass"),
    R("same", lambda X: ((X.img(0), list(X.size)), {}), policy="pass"),
    R("larger", lambda X: ((X.img(0), max(X.size) + 2), {}), policy="pass"),
    R("empty", lambda X: ((X.img(0), []), {}), policy="pass"),
    R("last_dims", lambda X: ((X.img(0), [X.size[0] - 2]), {}), policy="pass"),
]
CORE["center_pad"] = [
    R("larger", lambda X: ((X.img(0), [n + 1 + X.v % 3 for n in X.size]), _padkw(X))),
    R("same", lambda X: ((X.img(0), list(X.size)), {}), policy="pass"),
    R("smaller", lambda X: ((X.img(0), 2), {}), policy="pass"),
    R("empty", lambda X: ((X.img(0), []), {}), policy="pass"),
]
CORE["circle_image"] = [R("size", lambda X: (((7, 6),), {"num": X.v % 3, "sigma": 0.5 * (X.v % 2), "dtype": [None, X.dt][X.v % 2]}), dims=(2,)),
                        R("grid", lambda X: ((X.grid(),), {"x_max": 1.0}), dims=(2,))]
CORE["cshape_image"] = [R("size", lambda X: (((9, 8),), {"num": X.v % 2, "center": (4.0, 3.5), "radius": 3.0, "sigma": 0.5 * (X.v % 2), "dtype": [None, X.dt][X.v % 2]}), dims=(2,))]
CORE["empty_image"] = [R("size", lambda X: ((X.size,), {"num": X.v % 3, "channels": 1 + X.v % 2, "dtype": X.dt})),
                       R("grid", lambda X: ((X.grid(),), {}))]
CORE["ones_image"] = [R("shape", lambda X: ((), {"shape": X.shape, "num": X.v % 3, "dtype": X.dt}))]
CORE["zeros_image"] = [R("size", lambda X: ((X.size,), {"num": 1 + X.v % 2, "channels": 2}))]
CORE["zeros_flow"] = [R("size", lambda X: ((X.size,), {"num": 1 + X.v % 2, "dtype": X.dt})), R("grid", lambda X: ((X.grid(),), {}))]
CORE["grid_image"] = [R("size", lambda X: ((X.size,), {"num": X.v % 3, "stride": 2 + X.v % 2, "inverted": X.v % 2 == 0, "dtype": X.dt}))]
for _n in ("closest_point_distances", "closest_point_indices"):
    CORE[_n] = [R("xy", lambda X: ((_pts(X, 0, 6), _pts(X, 1, 4)), {"split_size": [10000, 4][X.v % 2]})),
                R("int", lambda X: ((X.ten(0, (X.N, 5, X.D), 0, 9, torch.int64), _pts(X, 1, 4)), {}))]
CORE["distance_matrix"] = [R("xy", lambda X: ((_pts(X, 0, 6), _pts(X, 1, 4)), {})),
                           R("f64", lambda X: ((X.ten(0, (X.N, 5, X.D), -1, 1, torch.float64), X.ten(1, (X.N, 3, X.D), -1, 1, torch.float64)), {}))]
CORE["compose_flows"] = [R("uv", lambda X: ((X.flow(0, N=1), X.flow(1, N=1)), {"align_corners": X.v % 2 == 0}), nmax=1)]
CORE["compose_svfs"] = [
    R("bch", lambda X: ((X.flow(0), X.flow(1)), dict(bch_terms=X.v % 6, **_dkw(X, bspline=False)))),
    R("bch0", lambda X: ((X.flow(0), X.flow(1)), {"bch_terms": 0})),
]
CORE["conv"] = [
    R("k1d", lambda X: ((X.img(0), _k1(X, 1, 3, torch.float32)), {"padding": _pm([None, "replicate", "reflect" if X.D == 2 else "zeros", 1, "none"][X.v % 5])})),
    R("klist", lambda X: ((X.img(0), [_k1(X, 1, 3)] + [None] * (X.D - 1)), {})),
    R("klist_all", lambda X: ((X.img(0), [_k1(X, 1 + i, 3 if i else 1) for i in range(X.D)]), {"padding": _pm("replicate" if X.v % 2 else None)})),
    R("no_kernels", lambda X: ((X.img(0), [None] * X.D), {}), policy="pass"),
    R("empty_list", lambda X: ((X.img(0), []), {}), policy="pass"),
    R("int_data", lambda X: ((X.img(0, hi=50, dtype=torch.int16), _k1(X, 1, 3, torch.float32)), {})),
    R("int_kernel", lambda X: ((X.img(0, hi=50, dtype=torch.int32), torch.tensor([1, 2, 1])), {})),
    R("transpose", lambda X: ((X.img(0), _k1(X, 1, 3)), {"stride": 2, "transpose": True})),
    R("stride2", lambda X: ((X.img(0), _k1(X, 1, 3)), {"stride": 2, "dilation": 1 + X.v % 2})),
]
CORE["conv1d"] = [
    R("last", lambda X: ((X.img(0), _k1(X, 1, 3)), {"padding": _pm([None, "zeros", 1, "none"][X.v % 4])})),
    R("pad_modes", lambda X: ((X.img(0), _k1(X, 1, 3)), {"padding": [_pm("replicate"), "reflect", _pm("constant"), "replicate"][X.v % 4], "dim": [-1, 2][X.v % 2]})),
    R("dim2", lambda X: ((X.img(0), _k1(X, 1, 1 + 2 * (X.v % 2))), {"dim": 2})),
    R("int_data", lambda X: ((X.img(0, hi=50, dtype=torch.int16), _k1(X, 1, 3, torch.float32)), {})),
    R("dtype", lambda X: ((X.img(0, hi=50), _k1(X, 1, 3)), {"dtype": [torch.int32, torch.float64, torch.float32][X.v % 3]})),
    R("transpose", lambda X: ((X.img(0), _k1(X, 1, 3)), {"stride": 2, "transpose": True})),
]
for _n in ("crop", "pad"):
    CORE[_n] = [
        R("margin", lambda X: ((X.img(0),), {"margin": 1})),
        R("margins", lambda X: ((X.img(0),), dict(margin=_margin(X), **_padkw(X)))),
        R("neg", lambda X: ((X.img(0),), {"margin": -1, "mode": ["constant", "replicate"][X.v % 2]})),
        R("num", lambda X: ((X.img(0),), {"num": [1, 0] * X.D})),
        R("tensor_margin", lambda X: ((X.img(0),), {"margin": torch.tensor(_margin(X))})),
        R("zero", lambda X: ((X.img(0),), {"margin": 0}), policy="pass"),
        R("zeros", lambda X: ((X.img(0),), {"num": [0] * (2 * X.D)}), policy="pass"),
        R("int", lambda X: ((X.img(0, hi=9, dtype=torch.int32),), {"margin": 1})),
    ]
CORE["cubic_bspline_control_point_grid"] = [R("grid", lambda X: ((X.grid(), 2 + X.v % 2), {}))]
CORE["cubic_bspline_control_point_grid_size"] = [R("size", lambda X: ((X.size, 2 + X.v % 2), {})), R("int", lambda X: ((9, 3), {}))]
CORE["curl"] = [R("flow", lambda X: ((X.flow(0),), _dkw(X)))]
CORE["divergence"] = [R("flow", lambda X: ((X.flow(0),), _dkw(X)))]
CORE["divergence_free_flow"] = [
    R("scalar", lambda X: ((X.img(0, C=1 if X.D == 2 else 2),), _dkw(X))),
    R("vector", lambda X: ((X.img(0, C=3),), _dkw(X)), dims=(3,)),
]
for _n, _cl in (("denormalize_flow", False), ("normalize_flow", False)):
    CORE[_n] = [
        R("flow", lambda X: ((X.flow(0, amp=2),), {"align_corners": X.v % 2 == 0, "side_length": [2, 1][X.v // 2 % 2]})),
        R("channels_last", lambda X: ((X.coords(0),), {"size": torch.Size(X.size), "channels_last": True})),
        R("size_tensor", lambda X: ((X.coords(0, lead=(5,)),), {"size": X.ten(1, (X.D,), 2, 9, torch.int64), "channels_last": True})),
        # size tensor of the same dtype as the data: torch.as_tensor() hands the argument itself through
        R("size_tensor_same_dtype", lambda X: ((X.coords(0, lead=(5,)),), {"size": X.ten(1, (X.D,), 2, 9, quant=True), "channels_last": True,
                                                                            "align_corners": X.v % 2 == 0, "side_length": [2, 1][X.v // 2 % 2]})),
        R("size_tensor_with_one", lambda X: ((X.coords(0, lead=(5,)),), {"size": torch.tensor([1.0] + [4.0] * (X.D - 1), dtype=X.dt), "channels_last": True,
                                                                          "align_corners": X.v % 2 == 0})),
    ]
for _n in ("denormalize_flow", "normalize_flow"):
    CORE[_n].append(R("side_length_one", lambda X: ((X.flow(0, amp=2),), {"side_length": 1, "align_corners": X.v % 2 == 0})))
    CORE[_n].append(R("side_length_one_channels_last", lambda X: ((X.coords(0),), {"side_length": 1, "channels_last": True, "size": torch.Size(X.size)})))
CORE["normalize_flow"].append(R("int", lambda X: ((X.ten(0, (X.N, X.D) + X.shape, -3, 3, torch.int64),), {})))
for _n in ("denormalize_grid", "normalize_grid"):
    CORE[_n] = [
        R("grid", lambda X: ((X.coords(0),), {"align_corners": X.v % 2 == 0, "side_length": [2, 1][X.v // 2 % 2]})),
        R("size", lambda X: ((X.coords(0, lead=(5,)),), {"size": torch.Size(X.size)})),
        R("size_tensor", lambda X: ((X.coords(0, lead=(5,)),), {"size": X.ten(1, (X.D,), 2, 9, torch.float32)})),
        R("size_tensor_same_dtype", lambda X: ((X.coords(0, lead=(5,)),), {"size": X.ten(1, (X.D,), 2, 9, quant=True), "align_corners": X.v % 2 == 0,
                                                                            "side_length": [2, 1][X.v // 2 % 2]})),
    ]
for _n in ("denormalize_grid", "normalize_grid"):
    CORE[_n].append(R("side_length_one", lambda X: ((X.coords(0),), {"side_length": 1, "align_corners": X.v % 2 == 0})))
CORE["normalize_grid"].append(R("channels_first", lambda X: ((X.flow(0, amp=3),), {"channels_last": False})))
CORE["normalize_grid"].append(R("int", lambda X: ((X.ten(0, (X.N,) + X.shape + (X.D,), 0, 5, torch.int64),), {})))
for _n in ("dot_batch", "dot_channels"):
    CORE[_n] = [R("ab", lambda X: ((X.img(0), X.img(1)), {})),
                R("weight", lambda X: ((X.img(0), X.img(1)), {"weight": X.mask(2, C=X.C)})),
                R("same", lambda X: (lambda a: ((a, a), {"weight": X.img(1)}))(X.img(0)))]
for _n in ("downsample", "upsample"):
    CORE[_n] = [
        R("levels0", lambda X: ((X.img(0), 0), {}), policy="ref", doc="'If zero, a reference to the unmodified input data tensor is returned'"),
        R("levels1", lambda X: ((X.img(0),), {"sigma": [None, 0, 0.7, [0.5, 0.9]][X.v % 4], "align_corners": X.v % 2 == 0})),
        R("neg", lambda X: ((X.img(0), -1), {"sigma": [None, 0.6][X.v % 2]})),
        R("dims", lambda X: ((X.img(0), 1), {"dims": [0], "sigma": 0.7})),
        R("sigma_tensor", lambda X: ((X.img(0), 1), {"sigma": X.ten(1, (X.D,), 0.5, 1.0, torch.float32)})),
        R("sigma_tensor1_dims", lambda X: ((X.img(0), 1), {"sigma": X.ten(1, (1,), 0.5, 1.0, torch.float32), "dims": [[0], [1], ["x", "y"]][X.v % 3]})),
        R("sigma_zero_tensor", lambda X: ((X.img(0), 1), {"sigma": torch.zeros(X.D if X.v % 2 else 1)})),
        R("levels2", lambda X: ((X.img(0), 2), {"sigma": [None, 0.7][X.v % 2]}), skip_on=(AssertionError, "", "C03: Grid._resize origin assertion when an axis is reduced to a single sample with align_corners=True")),
    ]
CORE["downsample"].append(R("min_size", lambda X: ((X.img(0), 1), {"min_size": max(X.shape)}), policy="fresh"))
CORE["evaluate_cubic_bspline"] = [
    R("stride", lambda X: ((X.img(0),), {"stride": 1 + X.v % 3, "derivative": [None, 0, 1, 2][X.v % 4]})),
    R("transpose", lambda X: ((X.img(0),), {"stride": 2, "transpose": True})),
    R("shape", lambda X: ((X.img(0),), {"stride": 2, "shape": torch.Size([n + 1 for n in X.shape]), "transpose": X.v % 2 == 0})),
    R("kernel", lambda X: ((X.img(0),), {"kernel": X.ten(1, (2, 4), 0, 0.5)})),
    R("kernels", lambda X: ((X.img(0),), {"kernel": [X.ten(1 + i, (1 + i % 2, 4), 0, 0.5) for i in range(X.D)]})),
    R("no_kernels", lambda X: ((X.img(0),), {"kernel": []}), policy="pass"),
]
CORE["expv"] = [
    R("steps0", lambda X: ((X.flow(0),), {"steps": 0}), policy="ref", doc="'If steps=0, a reference to flow is returned'"),
    R("steps0_scale1", lambda X: ((X.flow(0),), {"steps": 0, "scale": 1.0}), policy="ref", doc="'If steps=0, a reference to flow is returned'"),
    R("steps0_scale", lambda X: ((X.flow(0),), {"steps": 0, "scale": 0.5, "inverse": X.v % 2 == 1})),
    R("steps0_inverse", lambda X: ((X.flow(0),), {"steps": 0, "inverse": True})),
    R("steps", lambda X: ((X.flow(0),), {"steps": 1 + X.v % 3, "align_corners": X.v % 2 == 0, "scale": [None, 1.0, -0.5][X.v % 3]})),
    R("default", lambda X: ((X.flow(0),), {})),
]
CORE["flatten_channels"] = [R("data", lambda X: ((X.img(0),), {}), policy="pass"),
                            R("single", lambda X: ((X.img(0, N=1),), {}), policy="pass", nmax=1)]
CORE["finite_differences"] = [
    R("order0", lambda X: ((X.img(0), X.v % X.D), {"order": 0}), policy="ref", doc="'order: If zero, the input data is returned'"),
    R("modes", lambda X: ((X.img(0), X.v % X.D), {"mode": ["forward", "backward", "central", "forward_central_backward"][X.v % 4], "dilation": 1 + X.v // 4 % 2})),
    R("spacing", lambda X: ((X.img(0), "xyz"[X.v % X.D]), {"spacing": X.ten(1, (X.N,), 0.5, 2)})),
    R("int", lambda X: ((X.img(0, hi=9, dtype=torch.int32), 0), {})),
]
CORE["flow_derivatives"] = [
    R("order1", lambda X: ((X.flow(0),), dict(order=1, **_dkw(X)))),
    R("order2", lambda X: ((X.flow(0),), dict(order=2, **_dkw(X)))),
    R("which", lambda X: ((X.flow(0),), dict(which=["du/dx", "dv/dxy", "y"], **_dkw(X)))),
]
CORE["gaussian_pyramid"] = [
    R("levels", lambda X: ((X.img(0), 2), {"sigma": [None, 0.7][X.v % 2]}), policy="pass"),
    R("start1", lambda X: ((X.img(0), 1), {"start": 1}), policy="pass"),
    R("levels1", lambda X: ((X.img(0), 1), {}), policy="pass"),
]
CORE["image_slice"] = [R("data", lambda X: ((X.img(0),), {"offset": [None, 1][X.v % 2]}), policy="ref", doc="'View of image tensor slice'")]
CORE["fill_border"] = [
    R("copy", lambda X: ((X.img(0), 1 + X.v % 2, 7.0), {})),
    R("margins", lambda X: ((X.img(0), tuple(_margin(X))), {"value": -1.0, "inplace": False})),
    R("inplace", lambda X: ((X.img(0), 1, 7.0), {"inplace": True}), inplace="args[0]"),
    R("zero_margin", lambda X: ((X.img(0), 0, 7.0), {})),
]
CORE["grid_resample"] = [
    R("finer", lambda X: ((X.img(0), 1.0, 0.5 + 0.1 * (X.v % 3)), {"mode": ["linear", "nearest"][X.v % 2]})),
    R("aniso", lambda X: ((X.img(0), [1.0] * X.D, [0.7 + 0.2 * i for i in range(X.D)]), {"padding": ["border", 2.5][X.v % 2]})),
    R("tensors", lambda X: ((X.img(0), X.ten(1, (X.D,), 1, 2, torch.float32), X.ten(2, (X.D,), 0.5, 0.9, torch.float32)), {})),
    R("same", lambda X: ((X.img(0), 1.5, 1.5), {}), policy="pass"),
    R("same_tensor", lambda X: (lambda s: ((X.img(0), s, s.clone()), {}))(X.ten(1, (X.D,), 1, 2, torch.float32)), policy="pass"),
]
CORE["grid_reshape"] = [
    R("bigger", lambda X: ((X.img(0), [n + 1 + X.v % 2 for n in X.shape]), {"mode": ["linear", "nearest"][X.v % 2], "align_corners": X.v % 3 == 0})),
    R("same", lambda X: ((X.img(0), list(X.shape)), {}), policy="pass"),
    R("tensor", lambda X: ((X.img(0), torch.tensor([n + 2 for n in X.shape])), {})),
]
CORE["grid_resize"] = [
    R("bigger", lambda X: ((X.img(0), [n + 1 + X.v % 2 for n in X.size]), {"mode": ["linear", "nearest"][X.v % 2], "align_corners": X.v % 3 == 0})),
    R("smaller", lambda X: ((X.img(0), [n - 1 for n in X.size]), {})),
    R("same", lambda X: ((X.img(0), list(X.size)), {}), policy="pass"),
    R("same_tensor", lambda X: ((X.img(0), torch.tensor(X.size)), {}), policy="pass"),
]
CORE["grid_sample"] = [
    R("pad_value", lambda X: ((X.img(0), X.coords(1, r=1.3)), {"padding": [5.0, -2, 0.5][X.v % 3], "align_corners": X.v % 2 == 0})),
    R("pad_mode", lambda X: ((X.img(0), X.coords(1, r=1.3)), {"padding": ["border", "zeros", "reflection", None][X.v % 4], "mode": ["linear", "nearest"][X.v % 2]})),
    R("dtype_mix", lambda X: ((X.img(0, dtype=torch.float64), X.coords(1, dtype=torch.float32)), {"padding": 3.0})),
    R("dtype_mix2", lambda X: ((X.img(0, dtype=torch.float32), X.coords(1, dtype=torch.float64)), {"padding": 3.0})),
    R("int_nearest", lambda X: ((X.img(0, hi=99, dtype=torch.int16), X.coords(1)), {"mode": "nearest", "padding": [3, None][X.v % 2]})),
    R("int_linear", lambda X: ((X.img(0, hi=99, dtype=torch.uint8), X.coords(1)), {"padding": 7})),
    R("bcast_data", lambda X: ((X.img(0, N=1), X.coords(1, N=2)), {"padding": 2.0})),
    R("bcast_grid", lambda X: ((X.img(0, N=2), X.coords(1, N=1)), {"padding": 2.0})),
    R("unbatched_grid", lambda X: ((X.img(0), X.ten(1, X.shape + (X.D,), -1, 1)), {"padding": 1.5})),
    R("tensor_pad", lambda X: ((X.img(0), X.coords(1)), {"padding": X.ten(2, (), 1, 2)})),
    R("pad_value_zero", lambda X: ((X.img(0), X.coords(1, r=1.3)), {"padding": [0.0, 0, False][X.v % 3], "align_corners": X.v % 2 == 0})),
    R("same_grid", lambda X: ((X.img(0), X.coords(1, r=1.0)), {"padding": [None, 1.0, "border"][X.v % 3], "align_corners": True})),
]
CORE["grid_sample_mask"] = [
    R("float", lambda X: ((X.mask(0), X.coords(1)), {"threshold": 0.5})),
    R("bool", lambda X: ((X.mask(0, dtype=torch.bool), X.coords(1, dtype=torch.float32)), {})),
    R("uint8", lambda X: ((X.mask(0, dtype=torch.uint8), X.coords(1, dtype=torch.float32)), {"align_corners": False})),
]
CORE["jacobian_det"] = [R("flow", lambda X: ((X.flow(0),), dict(add_identity=X.v % 2 == 0, **_dkw(X))))]
CORE["jacobian_dict"] = [R("flow", lambda X: ((X.flow(0),), dict(add_identity=X.v % 2 == 0, **_dkw(X))))]
CORE["jacobian_matrix"] = [R("flow", lambda X: ((X.flow(0),), dict(add_identity=X.v % 2 == 0, **_dkw(X))))]
CORE["lie_bracket"] = [R("vu", lambda X: ((X.flow(0), X.flow(1)), _dkw(X, bspline=False))),
                       R("same", lambda X: (lambda a: ((a, a), {}))(X.flow(0)))]
CORE["logv"] = [
    R("iters", lambda X: ((X.flow(0, N=1, amp=0.1),), {"num_iters": 1 + X.v % 2, "bch_terms": X.v % 3, "sigma": [1.0, None][X.v % 2], "exp_steps": 2}), nmax=1),
    R("iters0", lambda X: ((X.flow(0, N=1),), {"num_iters": 0}), policy="pass", nmax=1),
]
CORE["normalize_image"] = [
    R("unit", lambda X: ((X.img(0, lo=-3, hi=5),), {"mode": ["unit", "center"][X.v % 2]})),
    R("unit_minmax", lambda X: ((X.img(0, lo=-3, hi=5),), {"min": -1.0, "max": 3.0, "mode": ["unit", "center"][X.v % 2]})),
    R("unit_noop", lambda X: ((X.img(0),), {"min": 0.0, "max": 1.0})),
    R("zscore", lambda X: ((X.img(0, lo=-3, hi=5),), {"mode": "zscore", "min": -2.0, "max": [None, 4.0][X.v % 2]})),
    R("int", lambda X: ((X.img(0, hi=99, dtype=torch.int16),), {"mode": ["unit", "center"][X.v % 2]})),
    # intensity window of width exactly 1: the scaling step is a no-op, only the shift (and clamp) remain
    R("unit_width_window", lambda X: ((X.img(0, lo=-3, hi=5),), {"min": [-0.5, 0.0, 2.0][X.v % 3], "max": [0.5, 1.0, 3.0][X.v % 3],
                                                                "mode": ["unit", "center"][X.v // 3 % 2]})),
    R("unit_width_window_kw_false", lambda X: ((X.img(0),), {"min": [-0.5, 0.0, 0.5][X.v % 3], "max": [0.5, 1.0, 1.5][X.v % 3],
                                                             "mode": ["center", "unit"][X.v // 3 % 2], "inplace": False})),
    R("zscore_no_clamp_min", lambda X: ((X.img(0, lo=-3, hi=5),), {"mode": "zscore", "max": 4.0})),
    R("inplace", lambda X: ((X.img(0, lo=-3, hi=5),), {"inplace": True, "mode": ["unit", "center", "zscore"][X.v % 3], "min": -1.0}), inplace="args[0]"),
    R("inplace_unit_width", lambda X: ((X.img(0, lo=-3, hi=5),), {"inplace": True, "mode": ["unit", "center"][X.v % 2], "min": 1.0, "max": 2.0}),
      inplace="args[0]"),
]
for _n in ("polyline_directions", "polyline_tangents"):
    CORE[_n] = [R("pts", lambda X: ((X.ten(0, (X.N, 5, 3), -1, 1),), {"normalize": X.v % 2 == 0})),
                R("norepeat", lambda X: ((X.ten(0, (4, 3), -1, 1), X.v % 2 == 1, False), {}))]
CORE["rand_sample"] = [
    R("tensor", lambda X: ((X.img(0), 5), {"generator": X.gen(), "replacement": X.v % 2 == 0})),
    R("list", lambda X: (([X.img(0), X.img(1)], 4), {"generator": X.gen()})),
    R("mask", lambda X: ((X.img(0), 5), {"mask": X.ten(1, (X.N, 1) + X.shape, 0.1, 1.0), "generator": X.gen(), "replacement": X.v % 2 == 0})),
    R("empty", lambda X: (([], 3), {})),
]
CORE["rescale"] = [
    R("range", lambda X: ((X.img(0, lo=-3, hi=5), 0, 1), {})),
    R("default", lambda X: ((X.img(0, lo=-3, hi=5),), {})),
    R("data_range", lambda X: ((X.img(0, lo=-3, hi=5),), {"min": 0, "max": 255, "data_min": -1.0, "data_max": X.ten(1, (), 2, 3), "dtype": [torch.uint8, None, torch.float64][X.v % 3]})),
    R("int", lambda X: ((X.img(0, hi=99, dtype=torch.int16), 0, 255), {"dtype": [torch.uint8, None][X.v % 2]})),
    R("constant", lambda X: ((torch.full((X.N, 1) + X.shape, 2.0, dtype=X.dt), 0, 1), {})),
]
CORE["sample_flow"] = [
    R("pts", lambda X: ((X.flow(0), _pts(X, 1)), {"align_corners": X.v % 2 == 0, "padding": [None, "zeros", 0.5][X.v % 3]})),
    R("grid", lambda X: ((X.flow(0), X.coords(1)), {})),
    R("bcast_flow", lambda X: ((X.flow(0, N=1), _pts(X, 1, N=2)), {})),
    R("bcast_pts", lambda X: ((X.flow(0, N=2), _pts(X, 1, N=1)), {})),
]
CORE["sample_image"] = [
    R("pts", lambda X: ((X.img(0), _pts(X, 1)), {"mode": ["linear", "nearest"][X.v % 2], "padding": [None, 2.0, "border"][X.v % 3]})),
    R("grid", lambda X: ((X.img(0), X.coords(1)), {"padding": 1.5})),
    R("bcast", lambda X: ((X.img(0, N=1), _pts(X, 1, N=2)), {"padding": 1.5})),
    R("int", lambda X: ((X.img(0, hi=99, dtype=torch.int16), _pts(X, 1, N=1)), {"mode": "nearest", "padding": 2})),
]
CORE["spatial_derivatives"] = [
    R("order1", lambda X: ((X.img(0),), dict(order=1, **_dkw(X)))),
    R("order2", lambda X: ((X.img(0),), dict(order=2, **_dkw(X)))),
    R("which", lambda X: ((X.img(0),), dict(which=["x", "xy", "yy"], **_dkw(X)))),
    R("int", lambda X: ((X.img(0, hi=9, dtype=torch.int32),), {"mode": [None, "gaussian", "bspline"][X.v % 3]})),
    R("empty", lambda X: ((X.img(0),), {"which": []})),
]
CORE["subdivide_cubic_bspline"] = [
    R("all", lambda X: ((X.img(0),), {})),
    R("dims", lambda X: ((X.img(0),), {"dims": [0, "y"][X.v % 2]})),
    R("none", lambda X: ((X.img(0),), {"dims": []}), policy="pass"),
]
for _n in ("transform_grid", "transform_points"):
    CORE[_n] = [
        R("flow", lambda X: ((X.flow(0), X.coords(1)), {"align_corners": X.v % 2 == 0})),
        R("linear", lambda X: ((_hom(X, 0), X.coords(1)), {})),
        R("bcast", lambda X: ((X.flow(0, N=1), X.coords(1, N=2)), {})),
        R("translation", lambda X: ((X.ten(0, (X.N, X.D, 1), -0.2, 0.2), X.coords(1)), {})),
    ]
CORE["transform_points"].append(R("pointset", lambda X: ((X.flow(0), _pts(X, 1)), {})))
CORE["warp_grid"] = [R("flow", lambda X: ((X.flow(0), X.coords(1)), {"align_corners": X.v % 2 == 0})),
                     R("resize", lambda X: ((X.flow(0), X.coords(1, lead=[n + 1 for n in X.shape])), {})),
                     R("bcast", lambda X: ((X.flow(0, N=2), X.coords(1, N=1)), {}))]
CORE["warp_points"] = [R("pts", lambda X: ((X.flow(0), _pts(X, 1)), {"align_corners": X.v % 2 == 0})),
                       R("grid", lambda X: ((X.flow(0), X.coords(1)), {}))]
CORE["warp_image"] = [
    R("flow", lambda X: ((X.img(0), X.coords(1)), {"flow": X.coords(2, r=0.2), "padding": [None, 2.0, "border"][X.v % 3], "mode": ["linear", "nearest"][X.v % 2]})),
    R("noflow", lambda X: ((X.img(0), X.coords(1)), {"padding": 2.0})),
    R("unbatched", lambda X: ((X.img(0), X.ten(1, X.shape + (X.D,), -1, 1)), {"flow": X.ten(2, X.shape + (X.D,), -0.2, 0.2), "padding": 1.0})),
    R("bcast_flow", lambda X: ((X.img(0, N=2), X.coords(1, N=2)), {"flow": X.coords(2, N=1, r=0.2)})),
]

# --- losses -----------------------------------------------------------------------------
_RED = ["mean", "sum", "none"]


def _red(X):
    return _RED[X.v % 3]


LOSS["balanced_binary_cross_entropy_with_logits"] = [
    R("plain", lambda X: ((X.img(0, C=1, lo=-2, hi=2), X.mask(1)), {"reduction": _red(X)})),
    R("weight", lambda X: ((X.img(0, C=1, lo=-2, hi=2), X.mask(1)), {"weight": X.mask(2), "reduction": _red(X)})),
]
LOSS["binary_cross_entropy_with_logits"] = [
    R("plain", lambda X: ((X.img(0, lo=-2, hi=2), X.mask(1, C=X.C)), {"reduction": _red(X)})),
    R("weight", lambda X: ((X.img(0, lo=-2, hi=2), X.mask(1, C=X.C)), {"weight": X.img(2), "pos_weight": X.ten(3, (X.shape[-1],), 0.5, 2)})),
]
LOSS["label_smoothing"] = [
    R("labels", lambda X: ((X.labels(0, 3), 3), {"alpha": [0.1, 0.0][X.v % 2]})),
    R("onehot", lambda X: ((_labels2(X, 0),), {"alpha": 0.1})),
    R("onehot_alpha0", lambda X: ((X.img(0, C=2, dtype=torch.float32),), {"alpha": 0.0}), policy="pass"),
    R("onehot_alpha0_f64", lambda X: ((X.img(0, C=2, dtype=torch.float64),), {"alpha": 0.0})),
    R("ignore", lambda X: ((X.labels(0, 4), 4), {"ignore_index": 3})),
]
for _n in ("dice_score", "dice_loss"):
    LOSS[_n] = [
        R("plain", lambda X: ((X.img(0), X.mask(1, C=X.C)), {"reduction": _red(X)})),
        R("weight", lambda X: ((X.img(0), X.mask(1, C=X.C)), {"weight": X.mask(2, C=X.C), "reduction": _red(X)})),
        R("int", lambda X: ((X.mask(0, C=X.C, dtype=torch.int64), X.mask(1, C=X.C, dtype=torch.uint8)), {})),
        R("f32", lambda X: ((X.img(0, dtype=torch.float32), X.mask(1, C=X.C, dtype=torch.float32)), {"weight": X.img(2, dtype=torch.float32)})),
    ]
LOSS["kld_loss"] = [R("ml", lambda X: ((X.img(0, lo=-1), X.img(1, lo=-1)), {"reduction": _red(X)}))]
for _n in ("lcc_loss", "wlcc_loss"):
    LOSS[_n] = [
        R("plain", lambda X: ((X.img(0), X.img(1)), {"kernel_size": 3, "reduction": _red(X)})),
        R("mask", lambda X: ((X.img(0), X.img(1)), {"mask": X.mask(2), "kernel_size": 3, "reduction": _red(X)})),
        R("f32", lambda X: ((X.img(0, dtype=torch.float32), X.img(1, dtype=torch.float32)), {"mask": X.mask(2, dtype=torch.float32), "kernel_size": 3})),
    ]
LOSS["wlcc_loss"] += [
    R("src_tgt_masks", lambda X: ((X.img(0), X.img(1)), {"source_mask": X.mask(2), "target_mask": X.mask(3), "kernel_size": 3, "reduction": _red(X)})),
    R("all_masks", lambda X: ((X.img(0, dtype=torch.float32), X.img(1, dtype=torch.float32)),
                              {"mask": X.mask(2, dtype=torch.float32), "source_mask": X.mask(3, dtype=torch.float32),
                               "target_mask": X.mask(4, N=1, dtype=torch.float32), "kernel_size": 3})),
]
for _n in ("mae_loss", "mse_loss", "ssd_loss"):
    LOSS[_n] = [
        R("plain", lambda X: ((X.img(0), X.img(1)), {"reduction": _red(X)})),
        R("mask", lambda X: ((X.img(0), X.img(1)), {"mask": X.mask(2), "reduction": _red(X)})),
        R("norm", lambda X: ((X.img(0), X.img(1)), {"norm": [4.0, X.ten(2, (), 2, 4), X.ten(2, (1,), 2, 4)][X.v % 3], "reduction": _red(X)})),
        R("mask_norm", lambda X: ((X.img(0), X.img(1)), {"mask": X.mask(2, C=X.C, N=1), "norm": X.ten(3, (), 2, 4), "reduction": _red(X)})),
        R("same", lambda X: (lambda a: ((a, a), {"reduction": _red(X)}))(X.img(0))),
    ]
LOSS["ncc_loss"] = [R("plain", lambda X: ((X.img(0), X.img(1)), {"reduction": _red(X)})),
                    R("f32", lambda X: ((X.img(0, dtype=torch.float32), X.img(1, dtype=torch.float32)), {}))]
LOSS["mi_loss"] = [
    R("plain", lambda X: ((X.img(0, C=1), X.img(1, C=1)), {"num_bins": 8, "normalized": X.v % 2 == 0})),
    R("mask", lambda X: ((X.img(0, C=1), X.img(1, C=1)), {"mask": X.mask(2), "vmin": 0.0, "vmax": 1.0, "num_bins": 8})),
    R("samples", lambda X: ((X.img(0, C=1), X.img(1, C=1)), {"mask": X.ten(2, (X.N, 1) + X.shape, 0.1, 1), "num_samples": 9, "num_bins": 8})),
    R("ratio", lambda X: ((X.img(0, C=1), X.img(1, C=1)), {"sample_ratio": 0.5, "num_bins": 8})),
]
LOSS["grad_loss"] = [
    R("pq", lambda X: ((X.flow(0),), dict(p=[2, 1, 0, 3, 1.5][X.v % 5], q=[1, None, 0, 0.5][X.v % 4] if X.v % 5 != 2 else 1, reduction=_red(X), **_dkw(X)))),
    R("linear", lambda X: ((_hom(X, 0),), {})),
]
for _n in ("bending_loss", "bending_energy", "be_loss", "curvature_loss", "diffusion_loss", "divergence_loss",
           "total_variation_loss", "tv_loss"):
    LOSS[_n] = [
        R("flow", lambda X: ((X.flow(0),), dict(reduction=_red(X), **_dkw(X)))),
        R("default", lambda X: ((X.flow(0),), {})),
        R("linear", lambda X: ((_hom(X, 0),), {})),
    ]
for _n in ("bspline_bending_loss", "bspline_bending_energy", "bspline_be_loss"):
    LOSS[_n] = [R("coef", lambda X: ((X.flow(0),), {"stride": 1 + X.v % 2, "reduction": _red(X)}))]
LOSS["elasticity_loss"] = [
    R("lame", lambda X: ((X.flow(0),), dict(first_parameter=1.0, second_parameter=0.5, reduction=_red(X), **_dkw(X, bspline=False)))),
    R("rubber", lambda X: ((X.flow(0),), {"material_name": "rubber"})),
    R("mu_only", lambda X: ((X.flow(0),), {"first_parameter": 0.0, "second_parameter": 1.0})),
    R("lambda_only", lambda X: ((X.flow(0),), dict(first_parameter=1.0, second_parameter=0.0, reduction=_red(X)))),
    R("linear", lambda X: ((_hom(X, 0),), {"first_parameter": 1.0, "second_parameter": 0.5})),
]
LOSS["focal_loss_with_logits"] = [
    R("plain", lambda X: ((X.img(0, lo=-2, hi=2), X.mask(1, C=X.C)), {"reduction": _red(X), "alpha": [0.25, -1][X.v % 2]})),
    R("weight", lambda X: ((X.img(0, lo=-2, hi=2), X.mask(1, C=X.C)), {"weight": X.mask(2), "gamma": 1.5})),
]
_TV_SKIP = (TypeError, "unexpected keyword argument 'gamma'", "F11")
for _n, _logits in (("tversky_index", False), ("tversky_index_with_logits", True), ("tversky_loss", False), ("tversky_loss_with_logits", True)):
    def _tk(X, logits=_logits, loss=_n.startswith("tversky_loss")):
        kw = {"reduction": _red(X), "binarize": X.v % 2 == 0}
        if X.v % 3 == 1:
            kw["alpha"] = 0.3
        if not logits:
            kw["normalize"] = X.v % 4 == 0
        if loss:
            kw["gamma"] = [None, 1, 2][X.v % 3]
        return kw

    _so = _TV_SKIP if _n.startswith("tversky_loss") else None
    LOSS[_n] = [
        R("binary", lambda X, k=_tk: ((X.img(0, C=1), X.mask(1)), k(X)), skip_on=_so),
        R("label_target", lambda X, k=_tk: ((X.img(0, C=1), X.ten(1, (X.N,) + X.shape, 0, 1)), k(X)), skip_on=_so),
    ]
    LOSS[_n].append(R("binary_weight", lambda X, k=_tk: ((X.img(0, C=1), X.mask(1)), dict(weight=X.mask(2), **k(X))), skip_on=_so))
    if not _logits:
        LOSS[_n] += [
            R("multiclass", lambda X, k=_tk: ((X.img(0, C=3), X.img(1, C=3)), dict(weight=X.mask(2, C=3), **k(X))), skip_on=_so),
            R("multiclass_weight1", lambda X, k=_tk: ((X.img(0, C=2), X.img(1, C=2)), dict(weight=X.mask(2, C=1), **k(X))), skip_on=_so),
            R("two_channel_pred", lambda X, k=_tk: ((X.img(0, C=2), X.mask(1)), k(X)), skip_on=_so),
        ]
LOSS["inverse_consistency_loss"] = [
    R("flows", lambda X: ((X.flow(0), X.flow(1)), {"units": ["cube", "voxel", "world"][X.v % 3], "reduction": _red(X), "margin": [0, 1, 0.2][X.v % 3]})),
    R("mask", lambda X: ((X.flow(0), X.flow(1)), {"mask": X.mask(2), "units": ["cube", "voxel", "world"][X.v % 3], "reduction": _red(X)})),
    R("grid", lambda X: ((X.flow(0), X.flow(1)), {"grid": X.grid(X.v % 2 == 0).spacing([0.5 + 0.5 * i for i in range(X.D)]), "units": "world"})),
    R("affine", lambda X: ((_hom(X, 0), _hom(X, 1)), {"grid": X.grid()})),
    R("mixed", lambda X: ((_hom(X, 0), X.flow(1)), {})),
]
LOSS["masked_loss"] = [
    R("mask", lambda X: ((X.img(0), X.mask(1)), {})),
    R("none", lambda X: ((X.img(0),), {}), policy="pass"),
    R("inplace", lambda X: ((X.img(0, lo=0.5), torch.full((1, 1) + X.shape, 2.0, dtype=X.dt)), {"inplace": True}), inplace="args[0]"),
    R("explicit_false", lambda X: ((X.img(0), X.mask(1, N=1)), {"inplace": False, "name": "x"})),
]
LOSS["reduce_loss"] = [
    R("none", lambda X: ((X.img(0), "none"), {}), policy="pass"),
    R("mean", lambda X: ((X.img(0), ["mean", "sum"][X.v % 2]), {})),
    R("mask", lambda X: ((X.img(0), ["mean", "sum"][X.v % 2], X.mask(1)), {})),
]


# --- secondary arguments given as tensors ------------------------------------------------------
# Every non-primary argument whose annotation admits a tensor (Scalar / Array unions: sigma, spacing, size, shape, margin,
# num, value, padding, min / max, x_max, norm, offset, ...) is ALSO passed as a torch.Tensor - 0-dim, 1-element and
# per-dimension / per-batch forms, dtype float32 / float64 / int64 (case dimension `sdtype`) - together with every value
# of the options that switch on per-dimension handling of that argument (dims subsets, levels, derivative mode, ...).
# deepali converts such arguments with as_tensor() / atleast_1d() / cat_scalars() / Tensor.to(), which return the
# caller's own tensor when dtype and device already match; any in-place arithmetic or index assignment on the converted
# value would then write into the caller's argument.  The option combination is selected by X.w (see _pick), all are
# enumerated.  check_secondary_complete() (self-test) asserts that every such parameter of every function is covered.

_SIG_FORMS = ["D", "one", "scalar"]
_SIG_DIMS = [None, "first", "last", "y", "all"]


def _sig_dims(X, code):
    return {None: None, "first": [0], "last": [X.D - 1], "y": ["y"], "all": list(range(X.D))}[code]


def _vec_form(X, slot, form, lo, hi, **kw):
    """1-D / 0-D forms of a per-dimension argument: D values, one value, 0-dim scalar tensor."""
    return X.sec(slot, {"D": (X.D,), "one": (1,), "scalar": ()}[form], lo, hi, **kw)


def _sec_sigma(levels_arg):
    def build(X):
        form, dims, levels = _pick(X, _SIG_FORMS, _SIG_DIMS, [1, 2])
        args = (X.img(0), levels) if levels_arg else (X.img(0), 2)
        return args, {"sigma": _vec_form(X, 1, form, 0.5, 1.0, ilo=1, ihi=2), "dims": _sig_dims(X, dims), "align_corners": X.v % 2 == 0}

    return build


for _n_ in ("downsample", "upsample"):
    CORE[_n_].append(R("sec_sigma", _sec_sigma(True), nw=_ncomb(_SIG_FORMS, _SIG_DIMS, [1, 2]), sdt=SDT_FI, skip_on=(AssertionError, "", "C03: Grid._resize origin assertion when an axis is reduced to a single sample with align_corners=True")))
CORE["gaussian_pyramid"].append(R("sec_sigma", _sec_sigma(False), policy="pass", nw=_ncomb(_SIG_FORMS, _SIG_DIMS), sdt=SDT_FI))

_SP_FORMS = ["ND", "D", "1D", "N1", "one", "scalar"]
_SP_MODES = [None, "central", "forward", "bspline", "gaussian", "sobel"]


def _spacing_form(X, slot, form):
    shape = {"ND": (X.N, X.D), "D": (X.D,), "1D": (1, X.D), "N1": (X.N, 1), "one": (1,), "scalar": ()}[form]
    return X.sec(slot, shape, 0.5, 2.0)


def _skw(X, bspline=True):
    """Derivative keyword arguments with `spacing` as tensor in every admitted shape x every derivative mode."""
    form, mode = _pick(X, _SP_FORMS, _SP_MODES)
    if mode == "bspline" and not bspline:
        mode = "backward"
    kw = {"mode": mode, "spacing": _spacing_form(X, 7, form)}
    if X.v % 2 == 1:
        kw["sigma"] = 0.8
    if mode == "bspline" and X.v % 4 >= 2:
        kw["stride"] = 2
    return kw


_NSP = _ncomb(_SP_FORMS, _SP_MODES)
CORE["spatial_derivatives"].append(R("sec_spacing", lambda X: ((X.img(0),), dict(order=1 + X.w // _NSP % 2, **_skw(X))), nw=2 * _NSP, sdt=SDT_FI))
CORE["flow_derivatives"].append(R("sec_spacing", lambda X: ((X.flow(0),), dict(order=1 + X.w // _NSP % 2, **_skw(X))), nw=2 * _NSP, sdt=SDT_FI))
for _n_ in ("curl", "divergence"):
    CORE[_n_].append(R("sec_spacing", lambda X: ((X.flow(0),), _skw(X)), nw=_NSP, sdt=SDT_FI, qstep=5))
CORE["divergence_free_flow"].append(R("sec_spacing", lambda X: ((X.img(0, C=1 if X.D == 2 else 2),), _skw(X)), nw=_NSP, sdt=SDT_FI, qstep=5))
for _n_ in ("jacobian_det", "jacobian_dict", "jacobian_matrix"):
    CORE[_n_].append(R("sec_spacing", lambda X: ((X.flow(0),), dict(add_identity=X.v % 2 == 0, **_skw(X))), nw=_NSP, sdt=SDT_FI, qstep=5))
CORE["lie_bracket"].append(R("sec_spacing", lambda X: ((X.flow(0), X.flow(1)), _skw(X, bspline=False)), nw=_NSP, sdt=SDT_FI, qstep=5))
CORE["compose_svfs"].append(R("sec_spacing", lambda X: ((X.flow(0), X.flow(1)), dict(bch_terms=1 + X.v % 5, **_skw(X, bspline=False))), nw=_NSP, sdt=SDT_FI, qstep=5))
CORE["logv"].append(R("sec_spacing", lambda X: ((X.flow(0, N=1, amp=0.1),), {"num_iters": 1, "bch_terms": 1 + X.v % 2, "exp_steps": 2, "sigma": [1.0, None][X.v % 2],
                                                                            "spacing": _spacing_form(X, 7, _pick(X, ["D", "1D", "one", "scalar"])[0])}),
                      nmax=1, nw=4, sdt=SDT_FI))
for _n_ in ("bending_loss", "bending_energy", "be_loss", "curvature_loss", "diffusion_loss", "divergence_loss", "total_variation_loss", "tv_loss"):
    LOSS[_n_].append(R("sec_spacing", lambda X: ((X.flow(0),), dict(reduction=_red(X), **_skw(X))), nw=_NSP, sdt=SDT_FI, qstep=5))
LOSS["grad_loss"].append(R("sec_spacing", lambda X: ((X.flow(0),), dict(p=[2, 1, 1.5][X.v % 3], q=[1, None, 0.5][X.v % 3], reduction=_red(X), **_skw(X))), nw=_NSP, sdt=SDT_FI, qstep=5))
LOSS["elasticity_loss"].append(R("sec_spacing", lambda X: ((X.flow(0),), dict(first_parameter=1.0, second_parameter=0.5, reduction=_red(X), **_skw(X, bspline=False))),
                                 nw=_NSP, sdt=SDT_FI, qstep=5))

_FD_MODES = ["forward", "backward", "central", "forward_central_backward"]
CORE["finite_differences"].append(
    R("sec_spacing", lambda X: (lambda form, mode, dil: ((X.img(0), X.v % X.D), {"mode": mode, "dilation": dil,
                                                                               "spacing": X.sec(1, {"N": (X.N,), "one": (1,), "scalar": ()}[form], 0.5, 2.0)}))(
        *_pick(X, ["N", "one", "scalar"], _FD_MODES, [1, 2])), nw=_ncomb(["N", "one", "scalar"], _FD_MODES, [1, 2]), sdt=SDT_FI))

for _n_ in ("crop", "pad"):
    CORE[_n_] += [
        R("sec_margin", lambda X: (lambda mode: ((X.img(0),), dict({"margin": X.sec(1, (X.D,), quant=True, ilo=1, ihi=2), "mode": mode},
                                                                   **({} if mode == "replicate" else {"value": X.sec(2, (), 2.0, 4.0, ilo=2, ihi=5)}))))(
            *_pick(X, ["constant", "replicate", "zeros"])), nw=3, sdt=SDT_FI),
        R("sec_num", lambda X: ((X.img(0),), {"num": X.sec(1, (2 * X.D,), quant=True, ilo=1, ihi=2), "value": X.sec(2, (1,), 2.0, 4.0, ilo=2, ihi=5)}), sdt=SDT_FI),
        R("sec_num_zero", lambda X: ((X.img(0),), {"num": torch.zeros(2 * X.D, dtype=tdtype(X.sdtype))}), policy="pass", sdt=SDT_FI),
    ]
CORE["center_pad"].append(R("sec_value", lambda X: ((X.img(0), [n + 1 + X.w for n in X.size]), {"mode": "constant", "value": X.sec(1, (), 2.0, 4.0, ilo=2, ihi=5)}),
                            nw=2, sdt=SDT_FI))
CORE["circle_image"].append(R("sec_x_max", lambda X: (lambda form: (((9, 8),), {"center": X.sec(0, (2,), 3.0, 4.0, ilo=3, ihi=5), "radius": 3.0,
                                                                               "x_max": _vec_form(X, 1, form, 1.0, 2.5, ihi=3)}))(*_pick(X, ["scalar", "D"])),
                              dims=(2,), nw=2, sdt=SDT_FI))
CORE["cshape_image"].append(R("sec_x_max", lambda X: (lambda form: (((9, 8),), {"center": X.sec(0, (2,), 3.0, 4.0, ilo=3, ihi=5), "radius": 3.0, "sigma": 0.5 * (X.v % 2),
                                                                               "x_max": _vec_form(X, 1, form, 1.0, 2.5, ihi=3)}))(*_pick(X, ["scalar", "D"])),
                              dims=(2,), nw=2, sdt=SDT_FI))
CORE["grid_resample"].append(
    R("sec_spacing", lambda X: (lambda fi, fo, pad: ((X.img(0), _vec_form(X, 1, fi, 1.0, 2.0, ilo=2, ihi=3), _vec_form(X, 2, fo, 0.5, 0.9, ilo=1, ihi=2)),
                                                    {"padding": [None, "border", X.sec(3, (), 1.0, 3.0)][pad], "mode": ["linear", "nearest"][X.v % 2]}))(
        *_pick(X, _SIG_FORMS, _SIG_FORMS, [0, 1, 2])), nw=_ncomb(_SIG_FORMS, _SIG_FORMS, [0, 1, 2]), sdt=SDT_FI))
CORE["grid_reshape"].append(R("sec_shape", lambda X: ((X.img(0), X.sec_vals(1, [n + 1 + (X.v + i) % 2 for i, n in enumerate(X.shape)], torch.int64 if X.w % 2 else torch.int32)),
                                                      {"align_corners": X.w // 2 == 0, "mode": ["linear", "nearest"][X.v % 2]}), nw=4, sdt=SDT_I))
CORE["grid_resize"].append(R("sec_size", lambda X: ((X.img(0), X.sec_vals(1, [n + 1 + (X.v + i) % 2 for i, n in enumerate(X.size)], torch.int64 if X.w % 2 else torch.int32)),
                                                    {"align_corners": X.w // 2 == 0, "mode": ["linear", "nearest"][X.v % 2]}), nw=4, sdt=SDT_I))
for _n_ in ("denormalize_flow", "normalize_flow"):
    CORE[_n_].append(R("sec_size", lambda X: (lambda ac, sl, cl: ((X.coords(0) if cl else X.flow(0, amp=2),),
                                                                 {"size": X.sec(1, (X.D,), quant=True, ilo=2, ihi=9), "channels_last": cl, "align_corners": ac, "side_length": sl}))(
        *_pick(X, [True, False], [2, 1], [True, False])), nw=8, sdt=SDT_FI))
for _n_ in ("denormalize_grid", "normalize_grid"):
    CORE[_n_].append(R("sec_size", lambda X: (lambda ac, sl: ((X.coords(0, lead=(5,)),), {"size": X.sec(1, (X.D,), quant=True, ilo=2, ihi=9), "align_corners": ac, "side_length": sl}))(
        *_pick(X, [True, False], [2, 1])), nw=4, sdt=SDT_FI))
CORE["rescale"].append(R("sec_range", lambda X: (lambda which: ((X.img(0, lo=-3, hi=5),), dict(
    {k: X.sec(1 + i, [(), (1,)][(X.v + i) % 2], lo, hi, ilo=ilo, ihi=ihi) for i, (k, lo, hi, ilo, ihi) in enumerate(
        [("min", 0.0, 0.5, 0, 1), ("max", 200.0, 255.0, 200, 255), ("data_min", -2.0, -1.0, -2, -1), ("data_max", 3.0, 4.0, 3, 5)]) if which >> i & 1},
    dtype=[None, torch.uint8, torch.float64][X.v % 3])))(*_pick(X, [15, 3, 12, 1, 2, 4, 8])), nw=7, sdt=SDT_FI))
CORE["threshold"].append(R("sec_bounds", lambda X: (lambda which: ((X.img(0), X.sec(1, (), 0.1, 0.3, ilo=0, ihi=1) if which & 1 else None,
                                                                    X.sec(2, (), 0.6, 0.9, ilo=1, ihi=2) if which & 2 else None), {}))(*_pick(X, [3, 1, 2])), nw=3, sdt=SDT_FI))
def _SF(X):
    return X.flow(0), _pts(X, 1)


for _n_, _b in (("grid_sample", lambda X: (X.img(0), X.coords(1, r=1.3))), ("sample_image", lambda X: (X.img(0), _pts(X, 1))), ("sample_flow", _SF)):
    CORE[_n_].append(R("sec_padding", lambda X, b=_b: (lambda form: (b(X), {"padding": X.sec(2, [(), (1,)][form], 1.0, 3.0), "align_corners": X.v % 2 == 0,
                                                                           **({} if b is _SF else {"mode": ["linear", "nearest"][X.v // 2 % 2]})}))(*_pick(X, [0, 1])), nw=2, sdt=SDT_FI))
CORE["warp_image"].append(R("sec_padding", lambda X: ((X.img(0), X.coords(1)), {"flow": [X.coords(2, r=0.2), None][X.w % 2], "padding": X.sec(3, (), 1.0, 3.0),
                                                                               "mode": ["linear", "nearest"][X.v % 2]}), nw=2, sdt=SDT_FI))
CORE["homogeneous_matrix"].append(R("sec_offset", lambda X: (lambda kind, form: ((_hom(X, 0, kind), X.sec(1, [(X.N, X.D), (X.D,), ()][form], -1.0, 1.0)), {}))(
    *_pick(X, ["hom", "aff"], [0, 1, 2])), nw=6, sdt=SDT_F))
CORE["identity_transform"].append(R("sec_shape", lambda X: ((X.sec(0, (2,), quant=True, ilo=2, ihi=4),), {"homogeneous": X.v % 2 == 0, "dtype": X.dt}), sdt=SDT_FI))
CORE["avg_pool"].append(R("sec_divisor", lambda X: ((X.img(0), 2), {"divisor_override": X.sec(1, (), ilo=2, ihi=5)}), sdt=SDT_I))
CORE["conv"].append(R("kernel_nd", lambda X: ((X.img(0), X.ten(1, (3,) * min(X.D, 2 + X.v % 2), 0.1, 1.0)), {"padding": _pm([None, "replicate", "zeros"][X.v % 3])})))
CORE["evaluate_cubic_bspline"].append(R("sec_kernel_dtype", lambda X: ((X.img(0),), {"kernel": [X.ten(1 + i, (2, 4), 0, 0.5, X.dt) for i in range(X.D)],
                                                                                    "shape": torch.Size([n - 3 for n in X.shape]) if X.w else None}), nw=2))
for _n_ in ("mae_loss", "mse_loss", "ssd_loss"):
    LOSS[_n_].append(R("sec_norm", lambda X: (lambda form, mask: ((X.img(0), X.img(1)), dict({"mask": X.mask(2)} if mask else {}, norm=X.sec(3, [(), (1,)][form], 2.0, 4.0, ilo=2, ihi=5),
                                                                                            reduction=_red(X))))(*_pick(X, [0, 1], [False, True])), nw=4, sdt=SDT_FI))
LOSS["binary_cross_entropy_with_logits"].append(
    R("sec_pos_weight", lambda X: ((X.img(0, lo=-2, hi=2), X.mask(1, C=X.C)), {"pos_weight": X.sec(2, [(X.shape[-1],), (1,), ()][X.w], 0.5, 2.0), "reduction": _red(X)}), nw=3, sdt=SDT_F))

TABLE = {"core": CORE, "losses": LOSS}


def _namespaces():
    import deepali.core.functional as U
    import deepali.losses.functional as L

    return {"core": U, "losses": L}


def table_entries():
    """Sorted list of (namespace, function name, recipe index)."""
    out = []
    for ns in ("core", "losses"):
        for name in sorted(TABLE[ns]):
            rs = TABLE[ns][name]
            if isinstance(rs, SKIP):
                continue
            for i in range(len(rs)):
                out.append((ns, name, i))
    return out


def check_table_complete():
    mods = _namespaces()
    problems = []
    for ns, mod in mods.items():
        names = list(mod.__all__)
        for n in names:
            e = TABLE[ns].get(n)
            if e is None:
                problems.append(f"{ns}.{n}: public function without recipe")
            elif isinstance(e, SKIP):
                if not e.why:
                    problems.append(f"{ns}.{n}: SKIP without justification")
            elif not e:
                problems.append(f"{ns}.{n}: empty recipe list")
            elif not callable(getattr(mod, n, None)):
                problems.append(f"{ns}.{n}: not callable")
        for n in TABLE[ns]:
            if n not in names:
                problems.append(f"{ns}.{n}: recipe for a name that is not in __all__")
    if problems:
        raise AssertionError("C15 recipe table incomplete: " + "; ".join(problems))


# parameters that admit a tensor according to their annotation but are deliberately never passed as one
SEC_EXEMPT = {("losses", "ncc_loss", "mask"): "known finding K6 (C16): ncc_loss() rejects every mask (ValueError), the argument form cannot be called"}


def tensor_parameters(fn):
    """Names of the parameters whose annotation admits a torch.Tensor (Tensor, Scalar, Array and unions of them)."""
    import inspect

    out = []
    for k, p in inspect.signature(fn).parameters.items():
        if p.kind in (p.VAR_POSITIONAL, p.VAR_KEYWORD):
            continue
        if "Tensor" in str(p.annotation):
            out.append(k)
    return out


def check_secondary_complete():
    """Every parameter of every public function whose annotation admits a tensor must receive a torch.Tensor in at least
    one recipe (dry build of all recipes over D and all option combinations w, arguments bound to the signature)."""
    import inspect

    problems = []
    for ns, mod in _namespaces().items():
        for name, rs in sorted(TABLE[ns].items()):
            if isinstance(rs, SKIP):
                continue
            fn = getattr(mod, name)
            want = [k for k in tensor_parameters(fn) if (ns, name, k) not in SEC_EXEMPT]
            if not want:
                continue
            sig = inspect.signature(fn)
            got = set()
            for rec in rs:
                for D in rec.dims:
                    for w in range(rec.nw):
                        X = Ctx({"D": D, "N": 2, "C": 2, "shape": _default_shape(D), "dtype": "float32", "layouts": ["contig"], "key": 17, "v": w % 6,
                                 "w": w, "sdtype": (rec.sdt or SDT_F)[0]})
                        X.N = min(X.N, rec.nmax)
                        X.sec_allowed = rec.sdt
                        args, kwargs = rec.build(X)
                        try:
                            bound = sig.bind(*args, **kwargs)
                        except TypeError as e:
                            problems.append(f"{ns}.{name}[{rec.tag}]: arguments do not match the signature ({e})")
                            continue
                        for k, val in bound.arguments.items():
                            if any(True for _ in walk_tensors(val)):
                                got.add(k)
                if set(want) <= got:
                    break
            for k in want:
                if k not in got:
                    problems.append(f"{ns}.{name}: parameter '{k}' admits a tensor but no recipe passes one")
    if problems:
        raise AssertionError("C15 secondary tensor arguments incomplete: " + "; ".join(problems))


# =======================================================================================
# facet 1: functional_args


def _default_shape(D, v=0):
    return [6 + v % 2, 5, 7][:D] if D == 2 else [5, 4 + v % 2, 6]


def _get_path(args, kwargs, path):
    return eval(path, {"__builtins__": {}}, {"args": args, "kwargs": kwargs})  # paths are literals from the table


def run_functional(case):
    ns, name, ri = case["ns"], case["fn"], int(case["recipe"])
    rs = TABLE[ns].get(name)
    if rs is None or isinstance(rs, SKIP) or ri >= len(rs):
        raise Skip("no such recipe")
    rec = rs[ri]
    if int(case["D"]) not in rec.dims:
        raise Skip("recipe not defined for this dimension")
    X = Ctx(case)
    X.N = min(X.N, rec.nmax)
    X.allowed = rec.layouts
    X.no_expand = rec.no_expand
    X.content_allowed = rec.contents
    X.sec_allowed = rec.sdt
    fn = getattr(_namespaces()[ns], name)
    args, kwargs = rec.build(X)
    snap = Snapshot(args, kwargs, X.bases)
    policy = rec.policy
    if STRICT_ALIAS and policy == "pass":
        policy = "fresh"
    torch.manual_seed(X.key)
    try:
        with torch.no_grad():
            result = fn(*args, **kwargs)
    except Exception as e:
        so = rec.skip_on
        if so is not None and isinstance(e, so[0]) and so[1] in str(e):
            raise Skip(f"known crash of another property ({so[2]})")
        raise
    labels = [f"D={X.D}", case["dtype"], f"policy={policy}", f"fn={name}"]
    labels += sorted({f"content={c}" for c in X.special}) or ["content=noise"]
    if X.secs:
        labels.append(f"secondary={X.sdtype if X.sdtype in (rec.sdt or SDT_F) else (rec.sdt or SDT_F)[0]}")
    tag = f"{name}[{rec.tag}]" + (f" content={sorted(set(X.special))}" if X.special else "") + (f" w={X.w} sdtype={X.sdtype}" if X.secs else "")

    # 1. the call itself must not modify any argument (except the in-place target)
    target_path = rec.inplace
    changed = snap.changed(skip=(target_path,) if target_path else ())
    if changed:
        raise Violation(f"arg_mutated:{name}", f"{tag}: tensor argument(s) {changed} differ from their clones after the call")
    if target_path:
        target, before = snap.get(target_path)
        rtensors = [r for _, r in walk_tensors(result, "result")]
        if not rtensors or not any(shares_memory(r, target) for r in rtensors):
            raise Violation(f"inplace_result_not_target:{name}", f"{tag}: result does not share memory with the in-place target {target_path}")
        if same_bits(target, before) and not X.special:  # with special content the operation may legitimately be a no-op
            raise Violation(f"inplace_not_applied:{name}", f"{tag}: in-place target {target_path} is unchanged although the operation is not a no-op")
        r0 = [r for r in rtensors if shares_memory(r, target)][0]
        if r0.shape == target.shape and not same_bits(r0.to(target.dtype), target):
            raise Violation(f"inplace_result_differs:{name}", f"{tag}: in-place target {target_path} does not hold the returned values")
        labels.append("inplace")
    bumped = snap.bumped()
    if bumped and not target_path:
        labels.append("version_bumped")

    # 2. aliasing: does the result share memory with an argument?
    aliased = [p for p, t, *_ in snap.items for _, r in walk_tensors(result, "result") if shares_memory(r, t)]
    if aliased:
        labels.append("aliased")
        if not target_path:
            labels.append(("alias_documented:" if rec.policy == "ref" else "alias_undocumented:" if rec.policy == "pass" else "alias_fresh:") + name)
    # 3. modify the result in place; arguments must stay bit-identical where a new tensor is promised
    probed = 0
    if policy == "fresh" and not target_path:
        probed = probe_result(result)
        changed = snap.changed()
        if changed:
            raise Violation(f"result_aliases_arg:{name}",
                            f"{tag}: after add_(1) on the result, argument(s) {changed} changed - the returned tensor shares memory with an input")
        labels.append("probed" if probed else "unprobed")
    nontrivial = bool(snap.items) and (X.views > 0 or bool(aliased) or bool(target_path) or bool(X.special) or X.secs > 0)
    return {"nontrivial": nontrivial, "labels": labels}


@st.composite
def functional_cases(draw):
    entries = table_entries()
    ns, name, ri = draw(st.sampled_from(entries))
    rec = TABLE[ns][name][ri]
    D = draw(st.sampled_from(list(rec.dims)))
    shape = draw(st.lists(st.integers(4, 8 if D == 2 else 6), min_size=D, max_size=D))
    return {
        "ns": ns, "fn": name, "recipe": ri, "tag": rec.tag, "D": D, "N": draw(st.integers(1, 2)), "C": draw(st.integers(1, 2)),
        "shape": shape, "dtype": draw(st.sampled_from(["float32", "float32", "float64"])),
        "layouts": draw(st.lists(st.sampled_from(LAYOUTS), min_size=4, max_size=4)),
        "contents": draw(st.lists(st.sampled_from(["noise"] * 6 + SPECIAL_CONTENTS), min_size=4, max_size=4)),
        "key": draw(st.integers(0, 9999)), "v": draw(st.integers(0, 59)),
        "w": draw(st.integers(0, max(0, rec.nw - 1))), "sdtype": draw(st.sampled_from(list(rec.sdt or SDT_F))),
    }


def _recipe_uses_content(rec, content, D):
    """Dry build of the arguments: does this recipe create at least one tensor with the special content?"""
    X = Ctx({"D": D, "N": 2, "C": 2, "shape": _default_shape(D), "dtype": "float32", "layouts": ["contig"], "contents": [content],
             "key": 17, "v": 0})
    X.N = min(X.N, rec.nmax)
    X.content_allowed = rec.contents
    rec.build(X)
    return bool(X.special)


def enumerate_functional(tier):
    """Every (function, recipe) with fixed small cases: both dimensions, contiguous and one mixed view layout,
    and all variant numbers 0..5 in the thorough tier; then every (function, recipe, special content) triple for
    which the recipe has an argument that can take the content (same content in all argument slots)."""
    vs = range(6) if tier == "thorough" else range(2)
    for ns, name, ri in table_entries():
        rec = TABLE[ns][name][ri]
        for D in rec.dims:
            for v in range(6):  # the recipes select their options with v % 2 ... v % 6
                for k, lay in enumerate((["contig"] * 4, ["stride", "offset", "transposed", "expand"], ["expand", "stride", "offset", "contig"])):
                    if tier != "thorough" and (k == 2 or (v >= 2 and k != v % 2)):
                        continue
                    yield {"ns": ns, "fn": name, "recipe": ri, "tag": rec.tag, "D": D, "N": 2, "C": 2, "shape": _default_shape(D, v),
                           "dtype": ["float32", ["float64", "float32"][v % 2], "float64"][k], "layouts": lay, "key": 17 + v, "v": v}
    lays = (["contig"] * 4, ["stride", "offset", "transposed", "expand"], ["offset", "transposed", "stride", "contig"])
    for ns, name, ri in table_entries():
        rec = TABLE[ns][name][ri]
        for content in SPECIAL_CONTENTS:
            if not _recipe_uses_content(rec, content, rec.dims[0]):
                continue
            for D in rec.dims:
                for v in vs:
                    for k in (range(2) if tier == "thorough" else [v % 2]):
                        yield {"ns": ns, "fn": name, "recipe": ri, "tag": rec.tag, "D": D, "N": 2, "C": 2, "shape": _default_shape(D, v),
                               "dtype": ["float32", "float64"][(v // 2 + k) % 2], "layouts": lays[(v + k) % 3 if k else 0],
                               "contents": [content] * 4, "key": 17 + v, "v": v}
    # secondary tensor arguments: every option combination (w) x every admitted dtype of the secondary tensor x both
    # data dtypes (so that each no-conversion pass-through combination occurs) x dimension; contiguous and view layouts
    for ns, name, ri in table_entries():
        rec = TABLE[ns][name][ri]
        if not rec.sdt:
            continue
        for D in rec.dims:
            for w in range(0, rec.nw, 1 if tier == "thorough" else rec.qstep):
                for si, sd in enumerate(rec.sdt):
                    for di, dt in enumerate(("float32", "float64")):
                        if tier != "thorough" and sd != "float32" and di != (w + si) % 2:
                            continue  # quick tier: a float32 secondary tensor with both data dtypes, the others alternate
                        for k in (range(3) if tier == "thorough" else [(w + si + di) % 2]):
                            v = (w + si + 2 * k) % 6
                            yield {"ns": ns, "fn": name, "recipe": ri, "tag": rec.tag, "D": D, "N": 2 - (w + k) % 2 if tier == "thorough" else 2, "C": 2,
                                   "shape": _default_shape(D, v), "dtype": dt, "layouts": lays[k], "key": 17 + w, "v": v, "w": w, "sdtype": sd}


# =======================================================================================
# fingerprints (facets 2 and 3)


class ParamNet:
    """Callable parameter source (plain picklable callable, not a Module): returns w scaled by a function of the
    conditioning arguments."""

    def __init__(self, w):
        self.w = w

    def __call__(self, *args, **kwargs):
        s = 1.0
        for a in list(args) + [kwargs[k] for k in sorted(kwargs)]:
            s += 0.125 * float(torch.as_tensor(a, dtype=torch.float32).sum())
        return self.w * s


_TORCH_INTERNAL = {"_parameters", "_buffers", "_modules", "_non_persistent_buffers_set", "_backward_pre_hooks", "_backward_hooks",
                   "_is_full_backward_hook", "_forward_hooks", "_forward_hooks_with_kwargs", "_forward_hooks_always_called",
                   "_forward_pre_hooks", "_forward_pre_hooks_with_kwargs", "_state_dict_hooks", "_state_dict_pre_hooks",
                   "_load_state_dict_pre_hooks", "_load_state_dict_post_hooks", "_update_hook_handle", "_compiled_call_impl"}


def grid_fp(g, ids=True):
    fp = {}
    for name in type(g).__slots__:
        v = getattr(g, name)
        fp[name] = ("tensor", id(v) if ids else 0, v.detach().clone()) if isinstance(v, torch.Tensor) else ("value", v)
    return fp


def value_fp(v, ids=True, depth=0):
    from deepali.core import Cube, Grid

    if isinstance(v, torch.Tensor):
        return ("tensor", id(v) if ids else 0, v.detach().clone().as_subclass(torch.Tensor), str(v.dtype), tuple(v.shape))
    if isinstance(v, (Grid, Cube)):
        return ("grid", id(v) if ids else 0, grid_fp(v, ids))
    if isinstance(v, (bool, int, float, str, type(None), torch.dtype, torch.Size)):
        return ("value", v)
    if isinstance(v, (list, tuple)) and depth < 4:
        return (type(v).__name__,) + tuple(value_fp(x, ids, depth + 1) for x in v)
    if isinstance(v, dict) and depth < 4:
        return ("dict", {str(k): value_fp(x, ids, depth + 1) for k, x in v.items()})
    if isinstance(v, torch.nn.Module):
        return ("module", id(v) if ids else 0)
    if isinstance(v, ParamNet):
        return ("paramnet", id(v) if ids else 0, value_fp(v.w, ids, depth + 1))
    if hasattr(v, "value") and type(v).__module__.startswith("deepali"):  # enums
        return ("enum", str(v))
    return ("object", id(v) if ids else 0, type(v).__name__)


_HOOK_DICTS = ("_forward_pre_hooks", "_forward_pre_hooks_with_kwargs", "_forward_hooks", "_forward_hooks_with_kwargs",
               "_forward_hooks_always_called", "_backward_pre_hooks", "_backward_hooks", "_state_dict_hooks", "_state_dict_pre_hooks",
               "_load_state_dict_pre_hooks", "_load_state_dict_post_hooks")


def module_fp(m, ids=True):
    """Structural fingerprint of a module tree: parameters, buffers, modules (names, identities, values), the
    plain attributes of every sub-module (grid, conditioning, flags such as invert / exp.scale / exp.align_corners, training),
    and everything torch.nn.Module serialises or consults when it is called: state_dict() keys (in order) and values,
    the persistent flag of every buffer / the `_non_persistent_buffers_set` of every sub-module, and the hook dictionaries
    (number of hooks; with ids=True also their handle ids and the identity of the update-hook handle)."""
    fp = {"params": {}, "buffers": {}, "modules": {}, "attrs": {}, "hooks": {}, "persistent": {}, "nonpersistent_set": {}, "state_dict": {}}
    for n, p in m.named_parameters():
        fp["params"][n] = ("tensor", id(p) if ids else 0, p.detach().clone(), p.requires_grad, type(p).__name__)
    for n, b in m.named_buffers():
        fp["buffers"][n] = ("tensor", id(b) if ids else 0, b.detach().clone())
    for n, mod in m.named_modules():
        fp["modules"][n] = ("module", id(mod) if ids else 0, type(mod).__name__)
        for k, v in mod.__dict__.items():
            if k in _TORCH_INTERNAL:
                continue
            if k == "training" and isinstance(mod, (torch.nn.ModuleDict, torch.nn.ModuleList)):
                continue  # flag of a pure container (no forward): CompositeTransform.__copy__ builds a new ModuleDict, not compared
            fp["attrs"][f"{n}.{k}" if n else k] = value_fp(v, ids)
        # raw containers: a parameter slot that holds None is not reported by named_parameters()
        for cont in ("_parameters", "_buffers"):
            for k, v in mod.__dict__.get(cont, {}).items():
                if v is None:
                    fp["params" if cont == "_parameters" else "buffers"][f"{n}.{k}" if n else k] = ("value", None)
        nps = mod.__dict__.get("_non_persistent_buffers_set", set())
        fp["nonpersistent_set"][n] = ("value", tuple(sorted(nps)))
        for k in mod.__dict__.get("_buffers", {}):
            fp["persistent"][f"{n}.{k}" if n else k] = ("value", k not in nps)
        hooks = []
        for h in _HOOK_DICTS:
            hd = mod.__dict__.get(h)
            if hd is not None:
                hooks.append((h, len(hd)) + ((tuple(hd.keys()) if ids and not isinstance(hd, set) else ()),))
        handle = mod.__dict__.get("_update_hook_handle", "absent")
        hooks.append(("update_hook_handle", "absent" if isinstance(handle, str) else "none" if handle is None else ("set", id(handle) if ids else 0)))
        fp["hooks"][n] = ("value", tuple(hooks))
    try:
        sd = m.state_dict()
    except RecursionError:  # torch recurses for ever when a module has become its own descendant (shared _modules container)
        sd = {"<cyclic module tree>": None}
    fp["state_dict"]["keys"] = ("value", tuple(sd.keys()))
    for k, v in sd.items():
        fp["state_dict"]["value:" + k] = ("tensor", 0, v.detach().clone()) if isinstance(v, torch.Tensor) else ("value", repr(v))
    return fp


def data_fp(x, ids=True):
    """Fingerprint of a DataTensor (Image, ImageBatch, FlowField, FlowFields)."""
    fp = {"data": ("tensor", 0, x.detach().clone().as_subclass(torch.Tensor), str(x.dtype), tuple(x.shape)),
          "type": ("value", type(x).__name__), "requires_grad": ("value", x.requires_grad)}
    for k, v in x.__dict__.items():
        fp[k] = value_fp(v, ids)
    return fp


def object_fp(obj, ids=True):
    from deepali.core import Cube, Grid

    if isinstance(obj, (Grid, Cube)):
        return grid_fp(obj, ids)
    if isinstance(obj, torch.nn.Module):
        return module_fp(obj, ids)
    if isinstance(obj, torch.Tensor):
        return data_fp(obj, ids)
    raise TypeError(type(obj))


def fp_diff(a, b, path=""):
    """List of paths at which two fingerprints differ."""
    out = []
    if isinstance(a, dict) and isinstance(b, dict):
        for k in sorted(set(a) | set(b), key=str):
            if k not in a:
                out.append(f"{path}/{k}:added")
            elif k not in b:
                out.append(f"{path}/{k}:removed")
            else:
                out.extend(fp_diff(a[k], b[k], f"{path}/{k}"))
        return out
    if isinstance(a, tuple) and isinstance(b, tuple):
        if len(a) != len(b) or (a and b and isinstance(a[0], str) and a[0] != b[0]):
            return [f"{path}:kind"]
        for i, (x, y) in enumerate(zip(a, b)):
            if isinstance(x, torch.Tensor) and isinstance(y, torch.Tensor):
                if not same_bits(x, y):
                    out.append(f"{path}:value")
            elif isinstance(x, (dict, tuple)) and isinstance(y, (dict, tuple)):
                out.extend(fp_diff(x, y, path))
            elif type(x) is not type(y) or x != y:
                out.append(f"{path}:{'identity' if i == 1 and a[0] in ('tensor', 'grid', 'module', 'object') else 'value'}")
        return out
    if type(a) is not type(b) or a != b:
        out.append(f"{path}:value")
    return out


def diff_category(d):
    """Stable category of a fingerprint difference: group and attribute name without numbers / module paths."""
    p = d.lstrip("/").split(":")[0]
    parts = p.split("/")
    group = parts[0]
    if group in ("nonpersistent_set", "hooks"):
        return group
    leaf = parts[1].split(".")[-1] if len(parts) > 1 else ""
    if group in ("persistent", "state_dict", "modules"):
        leaf = "".join(c for c in leaf if not c.isdigit())
    if group in ("params", "buffers"):
        leaf = "".join(c for c in leaf if not c.isdigit())
        if leaf in ("params", "p"):
            return "parameters"
    if group == "attrs" and len(parts) > 1:
        segs = parts[1].split(".")
        leaf = ("exp." if len(segs) > 1 and segs[-2] == "exp" else "") + segs[-1]
    return f"{group}.{leaf}" if leaf else group


# =======================================================================================
# object builders (facets 2 and 3)

LINEAR_PARAMETRIC = ["Translation", "EulerRotation", "QuaternionRotation", "IsotropicScaling", "AnisotropicScaling", "Shearing",
                     "HomogeneousTransform"]
LINEAR_COMPOSITE = ["RigidTransform", "RigidQuaternionTransform", "SimilarityTransform", "AffineTransform", "FullAffineTransform"]
NONRIGID = ["DisplacementFieldTransform", "StationaryVelocityFieldTransform", "FreeFormDeformation", "StationaryVelocityFreeFormDeformation"]
CONTAINERS = ["SequentialTransform", "MultiLevelTransform", "MultiLevelLinear", "GenericSpatialTransform"]
TRANSFORM_CLASSES = LINEAR_PARAMETRIC + LINEAR_COMPOSITE + NONRIGID + CONTAINERS
DATA_KINDS = ["Image", "ImageBatch", "FlowField", "FlowFields"]
INVERTIBLE = set(LINEAR_PARAMETRIC + LINEAR_COMPOSITE + ["StationaryVelocityFieldTransform", "StationaryVelocityFreeFormDeformation"])
HAS_MATRIX_SETTER = {"HomogeneousTransform", "EulerRotation", "QuaternionRotation"}


def build_grid(d, size=None, ac=None):
    from deepali.core import Grid

    D = int(d["D"])
    size = list(d["size"] if size is None else size)
    a = float(d.get("rot", 0.0))
    R = ref.rot2(a) if D == 2 else ref.euler_matrix([a, 0.5 * a, -0.25 * a], "ZXZ")
    return Grid(size=size, spacing=list(d.get("spacing", [1.0] * D)), center=list(d.get("center", [0.0] * D)),
                direction=torch.tensor(R, dtype=torch.float64), align_corners=bool(d.get("ac", True) if ac is None else ac))


def _param_tensor(shape, key, lo=-0.3, hi=0.3):
    return torch.tensor(hash_noise(tuple(shape), key, lo, hi), dtype=torch.float32)


def _identity_params(name, shape, D):
    """Parameters of the identity map of a parametric transform class (what its reset_parameters() sets)."""
    if name == "HomogeneousTransform":
        return torch.eye(D, D + 1).repeat(shape[0], 1, 1)
    if name == "QuaternionRotation":
        return torch.tensor([1.0, 0.0, 0.0, 0.0]).repeat(shape[0], 1)
    if name in ("IsotropicScaling", "AnisotropicScaling"):
        return torch.ones(tuple(shape), dtype=torch.float32)
    return torch.zeros(tuple(shape), dtype=torch.float32)


def _wrap_params(kind, w):
    if kind == "parameter":
        return torch.nn.Parameter(w)
    if kind == "buffer":
        return w
    if kind == "callable":
        return ParamNet(w)
    raise ValueError(kind)


def _data_shape(cls, grid, **kw):
    import deepali.spatial as S

    probe = getattr(S, cls)(grid, params=None, **kw)
    return tuple(probe.data_shape)


def build_transform(d, key_offset=0):
    """Build a transform from a descriptor; identical descriptors give value-identical, independent objects."""
    import deepali.spatial as S

    cls, kind, N = d["cls"], d.get("params", "parameter"), int(d.get("groups", 1))
    if cls == "MultiLevelTransform":
        N = 1  # MultiLevelTransform.disp() of non-rigid members raises for more than one group (crash, not this property)
    D = int(d["D"])
    key = int(d["key"]) + key_offset
    ac = bool(d.get("ac", True))
    if cls in ("FreeFormDeformation", "StationaryVelocityFreeFormDeformation"):
        ac = True
    grid = build_grid(d, ac=ac)
    identity = d.get("content", "noise") in ("zeros", "identity")  # parameters of the identity map (zero displacement)

    def parametric(name, g, k, **kw):
        shape = (N,) + _data_shape(name, g, **kw)
        lo, hi = (0.2, 1.0) if name == "QuaternionRotation" else (-0.25, 0.25) if len(shape) <= 3 else (-0.15, 0.15)
        w = _param_tensor(shape, k, lo, hi)
        if name == "HomogeneousTransform":
            w = w + torch.eye(D, D + 1)
        if identity:
            w = _identity_params(name, shape, D)
        return getattr(S, name)(g, groups=N, params=_wrap_params(kind, w), **kw)

    if cls in LINEAR_PARAMETRIC:
        return parametric(cls, grid, key)
    if cls in ("DisplacementFieldTransform", "StationaryVelocityFieldTransform"):
        kw = {"stride": [1, 2][int(d.get("v", 0)) % 2]}
        if cls == "StationaryVelocityFieldTransform":
            kw.update(steps=2, scale=[None, 0.5][int(d.get("v", 0)) // 2 % 2])
        return parametric(cls, grid, key, **kw)
    if cls in ("FreeFormDeformation", "StationaryVelocityFreeFormDeformation"):
        kw = {"stride": 2}
        if cls == "StationaryVelocityFreeFormDeformation":
            kw.update(steps=2)
        return parametric(cls, grid, key, **kw)
    if cls in LINEAR_COMPOSITE:
        t = getattr(S, cls)(grid, groups=N)
        for i, member in enumerate(t.transforms()):
            lo, hi = (0.2, 1.0) if type(member).__name__ == "QuaternionRotation" else (-0.25, 0.25)
            w = _param_tensor((N,) + tuple(member.data_shape), key + 7 * i, lo, hi)
            if identity:
                w = _identity_params(type(member).__name__, (N,) + tuple(member.data_shape), D)
            member.data_(_wrap_params("parameter" if kind == "callable" else kind, w))
        return t
    if cls == "SequentialTransform":
        return S.SequentialTransform(parametric("AffineLike" if False else "EulerRotation", grid, key),
                                     parametric("Translation", grid, key + 5),
                                     parametric("StationaryVelocityFieldTransform", grid, key + 9, steps=2))
    if cls == "MultiLevelTransform":
        return S.MultiLevelTransform(parametric("DisplacementFieldTransform", grid, key),
                                     parametric("FreeFormDeformation", build_grid(d, ac=True), key + 5, stride=2) if ac else
                                     parametric("DisplacementFieldTransform", grid, key + 5, stride=2))
    if cls == "MultiLevelLinear":
        return S.MultiLevelTransform(parametric("HomogeneousTransform", grid, key), parametric("HomogeneousTransform", grid, key + 5))
    if cls == "GenericSpatialTransform":
        cfg = S.TransformConfig(transform=["Affine o SVF", "Affine", "FFD"][int(d.get("v", 0)) % 3] if ac else ["Affine o SVF", "Affine"][int(d.get("v", 0)) % 2],
                                affine_model="TRS", scaling_and_squaring_steps=2, control_point_spacing=1)
        t = S.GenericSpatialTransform(grid, params=True, config=cfg)
        for i, member in enumerate(t.transforms()):
            with torch.no_grad():
                member.params.copy_(_param_tensor(tuple(member.params.shape), key + 3 * i, -0.15, 0.15))
        return t
    raise ValueError(cls)


def probe_points(d, n=6):
    D = int(d["D"])
    N = int(d.get("groups", 1))
    return torch.tensor(hash_noise((N, n, D), int(d["key"]) + 101, -0.8, 0.8), dtype=torch.float32)


def _parameter_values(t):
    out = {n: p.detach().clone() for n, p in t.named_parameters()}
    out.update({"buffer:" + n: b.detach().clone() for n, b in t.named_buffers() if n.split(".")[-1] == "params"})
    for n, m_ in t.named_modules():
        if isinstance(getattr(m_, "params", None), ParamNet):
            out["callable:" + n] = m_.params.w.detach().clone()
    return out


def behaviour(t, d):
    """Output on fixed probe points after update() (the transform's buffers are refreshed by this).
    Evaluating a transform must not alter its own parameters."""
    x = probe_points(d)
    x0 = x.clone()
    before = _parameter_values(t)
    with torch.no_grad():
        t.update()
        y = t.forward(x).detach().clone()
    after = _parameter_values(t)
    bad = [k for k in before if k not in after or not same_bits(before[k], after[k])]
    if bad:
        raise Violation("evaluation_mutates_parameters", f"{type(t).__name__}: update() + forward() changed the values of parameter(s) {bad[:4]}")
    if not same_bits(x, x0):
        raise Violation("evaluation_mutates_points", f"{type(t).__name__}.forward() modified its input points")
    return y


def build_data(d, key_offset=0):
    from deepali.core import Axes
    from deepali.data import FlowField, FlowFields, Image, ImageBatch

    kind, D, N, C = d["cls"], int(d["D"]), int(d.get("N", 2)), int(d.get("C", 2))
    grid = build_grid(d)
    shape = tuple(reversed(d["size"]))
    key = int(d["key"]) + key_offset
    dt = tdtype(d.get("dtype", "float32"))
    content = d.get("content", "noise")

    def values(shp, role, lo, hi):
        arr = special_array(role, content, shp, key, dt, D) if content != "noise" else None
        return torch.tensor(hash_noise(shp, key, lo, hi) if arr is None else arr, dtype=dt)

    if kind == "Image":
        return Image(values((C,) + shape, "img", 0, 1), grid)
    if kind == "ImageBatch":
        grids = [grid] + [grid.center([c + 1.0 + i for c in d.get("center", [0.0] * D)]) for i in range(1, N)]
        return ImageBatch(values((N, C) + shape, "img", 0, 1), grids)
    axes = [None, Axes.WORLD, Axes.GRID, Axes.CUBE][int(d.get("v", 0)) % 4]
    if kind == "FlowField":
        return FlowField(values((D,) + shape, "flow", -0.2, 0.2), grid, axes)
    if kind == "FlowFields":
        return FlowFields(values((N, D) + shape, "flow", -0.2, 0.2), grid, axes)
    raise ValueError(kind)


def build_object(d, key_offset=0):
    if d["kind"] == "Grid":
        return build_grid(d)
    if d["kind"] == "Cube":
        return build_grid(d).cube()
    if d["kind"] == "data":
        return build_data(d, key_offset)
    return build_transform(d, key_offset)


# =======================================================================================
# facet 2: accessors


class Env:
    """Argument factory for accessor calls; remembers argument objects so that they can be checked too."""

    def __init__(self, d):
        self.d = d
        self.D = int(d["D"])
        self.v = int(d.get("v", 0))
        self.key = int(d["key"])
        self.size = list(d["size"])
        self.args = []
        self.arg_fp0 = []  # fingerprints of the argument objects taken when they were created (= before the call)

    def keep(self, x):
        self.args.append(x)
        self.arg_fp0.append(_arg_fp(x))
        return x

    def pick(self, *lists):
        """One value of each option list, selected by the mixed-radix digits of the variant number v."""
        v, out = self.v, []
        for lst in lists:
            out.append(lst[v % len(lst)])
            v //= len(lst)
        return out

    def vec(self, lo=-2.0, hi=2.0, n=None, k=0):
        n = self.D if n is None else n
        return [round(float(x), 3) for x in hash_noise((n,), self.key + 31 + k, lo, hi)]

    def tvec(self, lo=-2.0, hi=2.0, n=None, k=0, dtype=torch.float32):
        return self.keep(torch.tensor(self.vec(lo, hi, n, k), dtype=dtype))

    def rotm(self):
        a = 0.4 + 0.1 * (self.v % 5)
        R = ref.rot2(a) if self.D == 2 else ref.euler_matrix([a, -0.3, 0.2], "ZXZ")
        return self.keep(torch.tensor(R, dtype=torch.float32))

    def other_grid(self, which=None):
        """A grid different from the receiver's: 0 other align_corners, 1 other size (same domain), 2 shifted, 3 equal."""
        g = build_grid(self.d)
        w = self.v % 4 if which is None else which
        if w == 0:
            g = g.align_corners(not g.align_corners())
        elif w == 1:
            g = g.resize([n + 2 for n in g.size()])
        elif w == 2:
            g = g.center(self.vec(k=5))
        return self.keep(g)

    def points(self, n=5, batch=1):
        return self.keep(torch.tensor(hash_noise((batch, n, self.D), self.key + 77, -0.8, 0.8), dtype=torch.float32))


def _grid_ops():
    ops = {
        "center": lambda g, e: g.center(e.vec() if e.v % 2 else e.tvec()),
        "center_args": lambda g, e: g.center(*e.vec()),
        "origin": lambda g, e: g.origin(e.vec() if e.v % 2 else e.tvec()),
        "spacing": lambda g, e: g.spacing(e.vec(0.3, 2.5) if e.v % 2 else e.tvec(0.3, 2.5)),
        "spacing_scalar": lambda g, e: g.spacing(0.5 + 0.25 * (e.v % 4)),
        "direction": lambda g, e: g.direction(e.rotm()),
        "align_corners": lambda g, e: g.align_corners([True, False, not g.align_corners()][e.v % 3]),
        "resize": lambda g, e: g.resize([n + 1 + e.v % 3 for n in g.size()], align_corners=[None, True, False][e.v % 3]),
        "resize_same": lambda g, e: g.resize(g.size()),
        "reshape": lambda g, e: g.reshape([n + 1 for n in g.shape]),
        "resample": lambda g, e: g.resample(e.vec(0.4, 1.6) if e.v % 2 else 0.5),
        "resample_same": lambda g, e: g.resample(g.spacing().clone()),
        "crop": lambda g, e: g.crop(margin=1) if e.v % 2 else g.crop(num=[1, 0] * e.D),
        "pad": lambda g, e: g.pad(margin=[1 + (e.v + i) % 2 for i in range(e.D)]),
        "center_crop": lambda g, e: g.center_crop([max(1, n - 2) for n in g.size()]),
        "center_pad": lambda g, e: g.center_pad([n + 3 for n in g.size()]),
        "downsample": lambda g, e: g.downsample(1 + e.v % 2),
        "upsample": lambda g, e: g.upsample(1, dims=[0] if e.v % 2 else None),
        "narrow": lambda g, e: g.narrow(e.v % e.D, 1, 2),
        "region_of_interest": lambda g, e: g.region_of_interest([1] * e.D, [2] * e.D),
        "avg_pool": lambda g, e: g.avg_pool(2),
        "pyramid": lambda g, e: g.pyramid(2),
        # size / spacing / margin arguments given as tensors (cat_scalars() hands the caller's tensor through), and the
        # align_corners option set to the opposite of the grid's own flag
        "resize_tensor": lambda g, e: g.resize(e.keep(torch.tensor([n + 1 + (e.v + i) % 3 for i, n in enumerate(g.size())], dtype=[torch.int64, torch.int32][e.v % 2])),
                                                align_corners=[not g.align_corners(), None][e.v // 2 % 2]),
        "reshape_tensor": lambda g, e: g.reshape(e.keep(torch.tensor([n + 1 + (e.v + i) % 3 for i, n in enumerate(g.shape)])), align_corners=[not g.align_corners(), None][e.v % 2]),
        "resample_tensor": lambda g, e: g.resample(e.tvec(0.4, 1.6, dtype=[torch.float32, torch.float64][e.v % 2])),
        "resample_minmax": lambda g, e: g.resample(["min", "max"][e.v % 2], min_size=1 + e.v // 2 % 2),
        "center_crop_tensor": lambda g, e: g.center_crop(e.keep(torch.tensor([max(1, n - 2 + 3 * ((e.v + i) % 2)) for i, n in enumerate(g.size())]))),
        "center_pad_tensor": lambda g, e: g.center_pad(e.keep(torch.tensor([max(1, n + 3 - 4 * ((e.v + i) % 2)) for i, n in enumerate(g.size())]))),
        "crop_tensor": lambda g, e: g.crop(margin=e.keep(torch.tensor([1] * e.D))) if e.v % 2 else g.crop(num=e.keep(torch.tensor([1, 0] * e.D))),
        "pad_tensor": lambda g, e: g.pad(margin=e.keep(torch.tensor([1 + (e.v + i) % 2 for i in range(e.D)]))) if e.v % 2 else g.pad(num=e.keep(torch.tensor([1, 2] * e.D))),
        "region_of_interest_tensor": lambda g, e: g.region_of_interest(e.keep(torch.tensor([1] * e.D)), e.keep(torch.tensor([2] * e.D))),
        "downsample_opts": lambda g, e: (lambda ac, lv, dims, ms: g.downsample(lv, dims=dims, min_size=ms, align_corners=[not g.align_corners(), None, g.align_corners()][ac]))(
            *e.pick([0, 1, 2], [1, 2, -1], [None, [0], ["y"]], [1, 3])),
        "upsample_opts": lambda g, e: (lambda ac, lv, dims: g.upsample(lv, dims=dims, align_corners=[not g.align_corners(), None, g.align_corners()][ac]))(
            *e.pick([0, 1, 2], [1, 2, -1], [None, [0], ["y"]])),
        "pool": lambda g, e: g.pool((2, 3, 2)[:e.D] if e.v % 2 else 2, ceil_mode=e.v // 2 % 2 == 1),
        "avg_pool_opts": lambda g, e: g.avg_pool((2, 3, 2)[:e.D] if e.v % 2 else 2, ceil_mode=e.v // 2 % 2 == 1),
        "pyramid_opts": lambda g, e: g.pyramid(2 + e.v % 2, dims=[None, [0], ["y"]][e.v // 2 % 3], min_size=[0, 3][e.v // 6 % 2]),
        "same_domain_as": lambda g, e: [g.same_domain_as(e.other_grid()), g.same_domain_as(g)],
        "clone": lambda g, e: g.clone(),
        "cube": lambda g, e: g.cube(),
        "domain": lambda g, e: g.domain(),
        "points_maps": lambda g, e: [g.cube_to_world(e.points()[0]), g.world_to_index(e.points()[0]), g.index_to_cube(e.points()[0]),
                                     g.transform_points(e.points()[0], axes=axes_("cube"), to_axes=axes_("world")),
                                     g.transform_vectors(e.points()[0], axes=axes_("grid"), to_axes=axes_("cube_corners")),
                                     g.coords(), g.points(), g.transform(axes_("cube"), axes_("world")), g.affine(), g.inverse_affine()],
        "getters": lambda g, e: [g.center(), g.origin(), g.spacing(), g.direction(), g.extent(), g.cube_extent(), g.size_tensor(), g.numpy()],
    }
    return ops


def axes_(name):
    from deepali.core import Axes

    return Axes(name)


def _cube_ops():
    return {
        "center": lambda c, e: c.center(e.vec() if e.v % 2 else e.tvec()),
        "origin": lambda c, e: c.origin(e.vec() if e.v % 2 else e.tvec()),
        "direction": lambda c, e: c.direction(e.rotm()),
        "extent": lambda c, e: c.extent(e.vec(1.0, 9.0) if e.v % 2 else e.tvec(1.0, 9.0)),
        "grid": lambda c, e: c.grid(size=[4 + i for i in range(e.D)], align_corners=e.v % 2 == 0),
        "grid_spacing": lambda c, e: c.grid(spacing=0.75),
        "grid_tensor": lambda c, e: c.grid(size=e.keep(torch.tensor([4 + i for i in range(e.D)])), align_corners=e.v % 2 == 0) if e.v % 3 else
        c.grid(spacing=e.tvec(0.5, 1.0, dtype=[torch.float32, torch.float64][e.v // 3 % 2]), align_corners=e.v % 2 == 0),
        "clone": lambda c, e: c.clone(),
        "maps": lambda c, e: [c.cube_to_world(e.points()[0]), c.world_to_cube(e.points()[0]), c.transform(), c.affine(), c.inverse_affine(),
                              c.transform_points(e.points()[0], "cube", "world"), c.transform_vectors(e.points()[0], "world", "cube")],
        "getters": lambda c, e: [c.center(), c.origin(), c.direction(), c.extent(), c.spacing(), c.numpy()],
    }


class M:
    """Accessor op that calls ONE public method of the receiver: build(x, e) -> (args, kwargs).  `nv` is the number of
    option combinations selected by the variant number (Env.pick); all of them are enumerated.  Because the arguments are
    explicit, the self-test can bind them to the method signature and assert that every optional parameter of every
    public method is set by some variant (check_data_methods_complete)."""

    def __init__(self, method, build, nv=1, static=False):
        self.method, self.build, self.nv, self.static = method, build, int(nv), static

    def __call__(self, x, e):
        args, kwargs = self.build(x, e)
        fn = getattr(type(x), self.method) if self.static else getattr(x, self.method)
        return fn(*args, **kwargs)


def _ac3(x, i):
    """align_corners option: 0 the opposite of the receiver's flag, 1 default (None), 2 the receiver's flag."""
    cur = bool(x.align_corners())
    return [not cur, None, cur][i]


def _m_ops(kind):
    """Method ops of the data classes with every optional argument set to non-default values / values that differ from
    the receiver's state (align_corners opposite to the grid flag, tensor forms of sigma / size / spacing / margin / ...)."""
    batch = kind in ("ImageBatch", "FlowFields")
    flow = kind in ("FlowField", "FlowFields")

    def sp(x):
        return [int(n) for n in x.grid().size()]

    def sigma(e, i):  # None, per-dimension float32 tensor, 1-element float32 tensor, float, float64 tensor
        return [None, lambda: e.tvec(0.5, 1.0, n=e.D), lambda: e.tvec(0.5, 1.0, n=1), lambda: 0.7, lambda: e.tvec(0.5, 1.0, n=e.D, dtype=torch.float64)][i]

    def sig(e, i):
        f = sigma(e, i)
        return None if f is None else f()

    def b_pyramid(x, e):
        ac, dims, sg, spc, se, mm = e.pick([0, 1, 2], [None, [0]], [0, 1, 3], [None, 0.5], [(0, -1), (1, -1), (1, 1)], [(0, None), (2, "linear")])
        kw = {"align_corners": _ac3(x, ac), "dims": dims, "sigma": sig(e, sg), "start": se[0], "end": se[1], "min_size": mm[0], "mode": mm[1],
              "spacing": None if spc is None else spc * float(x.grid().spacing().min())}
        return (3,), kw

    def b_downsample(x, e):
        ac, lv, dims, sg, mm = e.pick([0, 1, 2], [1, 2, -1], [None, [0], ["y"]], [0, 1, 2, 3, 4], [(None, 0), ("bicubic" if e.D == 2 else "linear", 3)])
        return (lv,), {"dims": dims, "sigma": sig(e, sg), "mode": mm[0], "min_size": mm[1], "align_corners": _ac3(x, ac)}

    def b_upsample(x, e):
        ac, lv, dims, sg, mode = e.pick([0, 1, 2], [1, 2, -1], [None, [0], ["y"]], [0, 1, 2, 3, 4], [None, "bicubic" if e.D == 2 else "linear"])
        return (lv,), {"dims": dims, "sigma": sig(e, sg), "mode": mode, "align_corners": _ac3(x, ac)}

    def b_resize(x, e):
        ac, form, mode = e.pick([0, 1, 2], [0, 1, 2, 3], ["linear", "nearest"])
        size = [n + 1 + (i + e.v) % 2 for i, n in enumerate(sp(x))]
        kw = {"mode": mode, "align_corners": _ac3(x, ac)}
        if form == 0:
            return (size,), kw
        if form == 1:
            return (e.keep(torch.tensor(size)),), kw
        if form == 2:
            return tuple(size), kw
        return (e.keep(torch.tensor(sp(x))),), kw  # current size given as tensor: nothing to do

    def b_resample(x, e):
        form, mode = e.pick([0, 1, 2, 3, 4, 5, 6], ["linear", "nearest"])
        vals = [0.75 + 0.25 * i for i in range(e.D)]
        arg = [(0.75,), (vals,), (e.keep(torch.tensor(vals, dtype=torch.float32)),), (e.keep(torch.tensor(vals, dtype=torch.float64)),), ("min",), ("max",), tuple(vals)][form]
        return arg, {"mode": mode}

    def b_sample(x, e):
        form, mode, pad = e.pick([0, 1, 2, 3, 4], [None, "nearest"], [None, "zeros", 2.0, 3])
        g = x.grid()
        if form == 0:
            arg = e.keep(g.resize([n + 1 for n in sp(x)]))
        elif form == 1:
            arg = e.keep(g.align_corners(not g.align_corners()).center(e.vec()))
        elif form == 2:
            arg = e.keep([g.spacing(e.vec(0.6, 1.4))] * (len(x) if batch else 1)) if batch else e.keep(g.spacing(e.vec(0.6, 1.4)))
        elif form == 3:
            arg = e.points(batch=len(x) if batch else 1) if batch else e.points()[0]
        else:
            arg = e.keep(g)
        padding = e.keep(torch.tensor(1.5)) if pad == 3 else pad
        return (arg,), {"mode": mode, "padding": padding}

    def b_crop(x, e):
        form, mode, val = e.pick([0, 1, 2, 3, 4], ["constant", "replicate"], [0, 1])
        kw = {"mode": mode}
        if mode == "constant":
            kw["value"] = [2.5, e.keep(torch.tensor(1.5))][val]
        if form == 0:
            kw["margin"] = 1
        elif form == 1:
            kw["margin"] = [1] * e.D
        elif form == 2:
            kw["margin"] = e.keep(torch.tensor([1] * e.D))
        elif form == 3:
            kw["num"] = [1, 0] * e.D
        else:
            kw["num"] = e.keep(torch.tensor([1, 0] * e.D))
        return (), kw

    def b_center(delta):
        def build(x, e):
            form, mode, val = e.pick([0, 1, 2], ["constant", "replicate"], [0, 1])
            # per-axis sizes on both sides of the current size (the other side is a no-op along that axis)
            size = [max(1, n + delta * (1 if (i + e.v // 12) % 2 == 0 else -1)) for i, n in enumerate(sp(x))]
            arg = [(size,), (e.keep(torch.tensor(size)),), tuple(size)][form]
            if delta < 0:
                return arg, {}
            kw = {"mode": mode}
            if mode == "constant":
                kw["value"] = [2.5, e.keep(torch.tensor(1.5))][val]
            return arg, kw

        return build

    def b_avg_pool(x, e):
        # stride / padding other than the defaults raise NotImplementedError in Grid.pool() ("currently not supported")
        ks, ceil, cip = e.pick([2, "tuple"], [False, True], [True, False])
        return ((2, 3, 2)[:e.D] if ks == "tuple" else 2,), {"stride": None, "padding": 0, "ceil_mode": ceil, "count_include_pad": cip}

    def b_conv(x, e):
        form, pad = e.pick([0, 1, 2], [None, "replicate", 1])
        k = e.keep(torch.tensor([0.25, 0.5, 0.25]))
        kernel = [k, [k] + [None] * (e.D - 1), e.keep(torch.full((3,) * e.D, 1.0 / 3 ** e.D))][form]
        return (kernel,), {"padding": pad}

    def b_roi(x, e):
        # start / size must be int or sequences of int (tensors raise the documented TypeError)
        form, pad = e.pick([0, 1], [("constant", 0.0), ("constant", 1.5), ("replicate", 0.0), ("zeros", 0.0)])
        start, size = ([1] * e.D, [3, 2, 2][:e.D]) if form else (1, 3)
        return (start, size), {"padding": pad[0], "value": pad[1]}

    def b_rescale(x, e):
        form, dt = e.pick([0, 1, 2], [None, torch.uint8, torch.float64])
        if form == 0:
            return (0, 255), {"data_min": -1.0, "data_max": 2.0, "dtype": dt}
        if form == 1:
            return (e.keep(torch.tensor(0.0)), e.keep(torch.tensor(200.0))), {"data_min": e.keep(torch.tensor(-1.0)), "data_max": e.keep(torch.tensor([2.0])), "dtype": dt}
        return (), {"min": 0, "max": 1, "dtype": dt}

    def b_normalize(x, e):
        mode, rng = e.pick(["unit", "center", "zscore"], [(None, None), (-0.1, None), (None, 0.6), (0.1, 0.7)])
        if mode == "zscore" and rng == (None, None):  # torch.clamp(None, None) raises: at least one bound is required
            rng = (0.1, None)
        return (), {"mode": mode, "min": rng[0], "max": rng[1]}

    def other(x, e, same):
        d = dict(e.d) if same else dict(e.d, center=[c + 1.0 for c in e.d.get("center", [0.0] * e.D)])
        return e.keep(build_data(d, key_offset=3))

    ops = {
        "pyramid_opts": M("pyramid", b_pyramid, nv=3 * 2 * 3 * 2 * 3 * 2),
        "downsample_opts": M("downsample", b_downsample, nv=3 * 3 * 3 * 5 * 2),
        "upsample_opts": M("upsample", b_upsample, nv=3 * 3 * 3 * 5 * 2),
        "resize_opts": M("resize", b_resize, nv=3 * 4 * 2),
        "resample_opts": M("resample", b_resample, nv=7 * 2),
        "sample_opts": M("sample", b_sample, nv=5 * 2 * 4),
        "crop_opts": M("crop", b_crop, nv=5 * 2 * 2),
        "pad_opts": M("pad", b_crop, nv=5 * 2 * 2),
        "center_crop_opts": M("center_crop", b_center(-2), nv=3 * 2 * 2 * 2),
        "center_pad_opts": M("center_pad", b_center(2), nv=3 * 2 * 2 * 2),
        "avg_pool_opts": M("avg_pool", b_avg_pool, nv=8),
        "conv_opts": M("conv", b_conv, nv=9),
        "region_of_interest": M("region_of_interest", b_roi, nv=8),
        "rescale_opts": M("rescale", b_rescale, nv=9),
        "normalize_opts": M("normalize", b_normalize, nv=12),
        "narrow_m": M("narrow", lambda x, e: (((2 if batch else 1) + e.v % e.D, 1, 2), {}) if e.v % 3 else ((-1 - e.v % e.D,), {"start": 1, "length": 2}), nv=6),
        "tensor_m": M("tensor", lambda x, e: ((), {})),
        "getters_m0": M("align_corners", lambda x, e: ((), {})), "getters_m1": M("center", lambda x, e: ((), {})),
        "getters_m2": M("origin", lambda x, e: ((), {})), "getters_m3": M("spacing", lambda x, e: ((), {})),
        "getters_m4": M("direction", lambda x, e: ((), {})),
        "getters_m5": M("cube", (lambda x, e: ((), {"n": e.v % len(x)})) if batch else (lambda x, e: ((), {}))),
        "getters_m6": M("domain", (lambda x, e: ((), {"n": e.v % len(x)})) if batch else (lambda x, e: ((), {}))),
        "grid_m": M("grid", lambda x, e: (lambda g: ((e.keep([g] * len(x)) if batch and e.v % 2 else e.keep(g),), {}))(
            [x.grid().align_corners(not x.align_corners()), x.grid().center(e.vec()), x.grid().spacing(e.vec(0.4, 2.0)), x.grid()][e.v // 2 % 4]), nv=8),
    }
    if batch:
        ops["same_domains_as"] = M("same_domains_as", lambda x, e: ((other(x, e, e.v % 2 == 0),), {}), nv=2)
        ops["from_images"] = M("from_images", lambda x, e: ((e.keep([x[i] for i in range(len(x))]),), {}), static=True)
        ops["append_m"] = M("append", lambda x, e: ((other(x, e, e.v % 2 == 0),), {}), nv=2)
        ops["grid_n"] = M("grid", lambda x, e: ((e.v % len(x),), {}), nv=2)
        ops["getters_m7"] = M("cubes", lambda x, e: ((), {}))
        ops["getters_m8"] = M("domains", lambda x, e: ((), {}))
        ops["getters_m9"] = M("grids", lambda x, e: ((), {}))
    else:
        ops["same_domain_as"] = M("same_domain_as", lambda x, e: ((other(x, e, e.v % 2 == 0),), {}), nv=2)
        ops["batch_m"] = M("batch", lambda x, e: ((), {}))
        ops["sitk"] = M("sitk", (lambda x, e: ((), {"axes": [None, axes_("world"), axes_("grid")][e.v % 3]})) if flow else (lambda x, e: ((), {})), nv=3 if flow else 1)
    if flow:
        ops["curl_opts"] = M("curl", lambda x, e: (lambda mode, sp: ((), {"mode": mode, "sigma": [None, 0.8][e.v % 2], "stride": None,
                                                                         "spacing": e.tvec(0.5, 2.0, n=e.D) if sp == 2 else [None, 0.5][sp]}))(
            *e.pick([None, "central", "gaussian"], [0, 1, 2])), nv=9)
        ops["axes_m"] = M("axes", lambda x, e: ((axes_(["world", "grid", "cube", "cube_corners"][e.v % 4]),), {}), nv=4)
        ops["exp_opts"] = M("exp", lambda x, e: (lambda sc, st, sa, pa: ((), {"scale": sc, "steps": st, "sampling": sa, "padding": pa}))(
            *e.pick([None, 0.5, -1.0], [None, 0, 2], ["linear", "nearest"], ["border", "zeros"])), nv=36)
        ops["warp_image_opts"] = M("warp_image", lambda x, e: (lambda sa, pa, im: ((e.keep(build_data(dict(e.d, cls="ImageBatch" if (batch or im) else "Image", C=1, N=len(x) if batch else 1), key_offset=5)),),
                                                                                   {"sampling": sa, "padding": pa}))(*e.pick([None, "nearest"], [None, "zeros", "border"], [0, 1])), nv=12)
        if not batch:
            ops["from_image"] = M("from_image", lambda x, e: ((e.keep(build_data(dict(e.d, cls="Image", C=e.D), key_offset=5)),), {"axes": [None, axes_("grid")][e.v % 2]}), nv=2, static=True)
    return ops


# public methods of the data classes that are deliberately not called by the accessor facet (everything else must be
# covered by an M op, see check_data_methods_complete)
DATA_METHOD_EXEMPT = {
    "read": "file I/O (class method, no receiver)", "write": "file I/O", "from_uri": "file / network I/O", "to_uri": "file / network I/O",
    "from_sitk": "class method without receiver; conversion from SimpleITK is the subject of the I/O properties",
    "grid_": "explicit in-place variant", "normalize_": "explicit in-place variant",
}


def check_data_methods_complete():
    """Every public method that deepali defines for Image / ImageBatch / FlowField / FlowFields has an M op, and the
    variants of the M ops of a method together pass EVERY parameter of its signature explicitly."""
    import inspect

    import deepali.data as DD

    problems = []
    for cls_name in DATA_KINDS:
        cls = getattr(DD, cls_name)
        D = 2
        d = {"kind": "data", "cls": cls_name, "D": D, "size": [7, 5], "spacing": [1.0, 0.5], "center": [1.0, -2.0], "rot": 0.0, "ac": True, "N": 2, "C": 2,
             "key": 5, "v": 0}
        mops = [op for op in _m_ops(cls_name).values()]
        for n in sorted(dir(cls)):
            if n.startswith("_"):
                continue
            owner = next((k for k in cls.__mro__ if n in k.__dict__), None)
            if owner is None or not owner.__module__.startswith("deepali") or not callable(getattr(cls, n)) or isinstance(inspect.getattr_static(cls, n), property):
                continue
            if n in DATA_METHOD_EXEMPT:
                continue
            mine = [op for op in mops if op.method == n]
            if not mine:
                problems.append(f"{cls_name}.{n}: public method without accessor op")
                continue
            sig = inspect.signature(getattr(cls, n))
            params = [k for k, p_ in sig.parameters.items() if k not in ("self", "cls") and p_.kind not in (p_.VAR_POSITIONAL, p_.VAR_KEYWORD)]
            if n == "region_of_interest" and not params:  # Image.region_of_interest(*args, **kwargs) forwards to ImageBatch
                continue
            got = set()
            for op in mine:
                for v in range(op.nv):
                    x = build_data(d)
                    a, kw = op.build(x, Env(dict(d, v=v)))
                    b = sig.bind(*([x] if not op.static and "self" in sig.parameters else []), *a, **kw) if "self" in sig.parameters else sig.bind(*a, **kw)
                    got |= set(b.arguments)
            missing = [k for k in params if k not in got]
            if missing:
                problems.append(f"{cls_name}.{n}: parameter(s) {missing} never set by an accessor op")
    if problems:
        raise AssertionError("C15 accessor coverage of data classes incomplete: " + "; ".join(problems))


def _data_ops(kind):
    batch = kind in ("ImageBatch", "FlowFields")

    def sp(x):  # spatial size (X, ...)
        return list(x.grid().size())

    def new_grid(x, e):
        g = x.grid()
        g2 = [g.center(e.vec()), g.spacing(e.vec(0.4, 2.0)), g.align_corners(not g.align_corners()), g][e.v % 4]
        if batch and e.v % 2:
            return e.keep([g2] * len(x))
        return e.keep(g2)

    ops = {
        "grid": lambda x, e: x.grid(new_grid(x, e)),
        "crop": lambda x, e: x.crop(margin=1),
        "crop_zero": lambda x, e: x.crop(margin=0),
        "pad": lambda x, e: x.pad(margin=1 + e.v % 2, mode=["constant", "replicate"][e.v % 2]),
        "pad_zero": lambda x, e: x.pad(margin=0),
        "center_crop": lambda x, e: x.center_crop([max(1, n - 2) for n in sp(x)]),
        "center_pad": lambda x, e: x.center_pad([n + 2 for n in sp(x)]),
        "resize": lambda x, e: x.resize([n + 1 for n in sp(x)]),
        "resize_same": lambda x, e: x.resize(sp(x)),
        "resample": lambda x, e: x.resample(0.5 + 0.25 * (e.v % 3)),
        "downsample": lambda x, e: x.downsample(1),
        "downsample_zero": lambda x, e: x.downsample(0),
        "upsample": lambda x, e: x.upsample(1, sigma=[None, 0.7][e.v % 2]),
        "normalize": lambda x, e: x.normalize(mode=["unit", "center", "zscore"][e.v % 3], min=-0.1),
        "normalize_data_range": lambda x, e: x.normalize(mode=["unit", "center"][e.v % 2]),
        "normalize_unit_width": lambda x, e: x.normalize(mode=["unit", "center"][e.v % 2], min=[-0.5, 0.0, 0.25][e.v // 2 % 3], max=[0.5, 1.0, 1.25][e.v // 2 % 3]),
        "rescale": lambda x, e: x.rescale(0, 255, dtype=[None, torch.uint8][e.v % 2]),
        "rescale_same_range": lambda x, e: x.rescale(),
        "rescale_unit": lambda x, e: x.rescale(0, 1, data_min=[None, 0.0][e.v % 2], data_max=[None, 1.0][e.v % 2]),
        "narrow": lambda x, e: x.narrow((2 if batch else 1) + e.v % e.D, 1, 2),
        "sample_grid": lambda x, e: x.sample(e.keep(x.grid().resize([n + 1 for n in sp(x)]))),
        "sample_same": lambda x, e: x.sample(e.keep(x.grid())),
        "sample_coords": lambda x, e: x.sample(e.points(batch=len(x) if batch else 1) if batch else e.points()[0]),
        "conv": lambda x, e: x.conv(e.keep(torch.tensor([0.25, 0.5, 0.25]))),
        "avg_pool": lambda x, e: x.avg_pool(2),
        "pyramid": lambda x, e: x.pyramid(2),
        "tensor": lambda x, e: x.tensor(),
        "clone": lambda x, e: x.clone(),
        "deepcopy": lambda x, e: _copy.deepcopy(x),
        "getters": lambda x, e: [x.grid(), x.center(), x.origin(), x.spacing(), x.direction(), x.cube(), x.domain(), x.align_corners()],
        "torch_ops": lambda x, e: [x + 1, x * 2, torch.abs(x), x.to(torch.float64), x.float(), x.detach(), x.contiguous(), x.flip(-1), x.type(torch.float32)],
    }
    if kind in ("Image", "ImageBatch"):
        ops["copy"] = lambda x, e: _copy.copy(x)
    if batch:
        ops["getitem"] = lambda x, e: [x[0], x[...], x[0:1], x[[0]]]
        ops["append"] = lambda x, e: x.append(e.keep(build_data(e.d, key_offset=9)))
        ops["grids"] = lambda x, e: [x.grids(), x.grid(0), x.cubes(), x.domains()]
    else:
        ops["batch"] = lambda x, e: x.batch()
    if kind in ("FlowField", "FlowFields"):
        ops["axes"] = lambda x, e: x.axes(axes_(["world", "grid", "cube", "cube_corners"][e.v % 4]))
        ops["exp"] = lambda x, e: x.exp(steps=1 + e.v % 2, scale=[None, 0.5][e.v % 2])
        ops["warp_image"] = lambda x, e: x.warp_image(e.keep(build_data(dict(e.d, cls="ImageBatch" if batch else "Image", C=1), key_offset=5)))
    ops.update(_m_ops(kind))
    return ops


def _transform_ops(cls):
    import deepali.spatial as S

    parametric = cls in LINEAR_PARAMETRIC + NONRIGID
    bspline = cls in ("FreeFormDeformation", "StationaryVelocityFreeFormDeformation")

    def new_grid(t, e):
        if bspline:
            g = t.grid()
            w = e.v % 3
            if w == 0:
                return e.keep(g.resize([2 * n - 1 for n in g.size()]))  # subdivision
            if w == 1:
                return e.keep(g.resize([2 * n - 1 if i == 0 else n for i, n in enumerate(g.size())]))
            return e.keep(build_grid(e.d, ac=True))
        return e.other_grid()

    def new_params(t, e):
        n = t.data().shape[0] + (1 if e.v % 5 == 0 and cls not in LINEAR_PARAMETRIC else 0)
        w = _param_tensor((n,) + tuple(t.data_shape), e.key + 55, -0.2, 0.2)
        if cls == "QuaternionRotation":
            w = w.abs() + 0.2
        return e.keep(torch.nn.Parameter(w) if e.v % 2 else w)

    def cond_args(e):
        return e.keep(torch.tensor([0.5 + 0.25 * (e.v % 3)]))

    def matrix_arg(t, e):
        n = t.data().shape[0]
        if cls == "HomogeneousTransform":
            m = torch.eye(e.D, e.D + 1).repeat(n, 1, 1) + _param_tensor((n, e.D, e.D + 1), e.key + 66)
        else:
            m = torch.tensor(np.stack([ref.rot2(0.3 + 0.1 * b) if e.D == 2 else ref.euler_matrix([0.3 + 0.1 * b, 0.4, -0.2], "ZXZ") for b in range(n)]), dtype=torch.float32)
        return e.keep(m)

    ops = {
        "grid": lambda t, e: t.grid(new_grid(t, e)),
        "condition": lambda t, e: t.condition(cond_args(e)),
        "condition_kwargs": lambda t, e: t.condition(cond_args(e), k=e.keep(torch.tensor(0.25))),
        "reads": lambda t, e: [t.disp(), t.disp(e.other_grid(1)), t.flow(), t.forward(e.points(batch=int(e.d.get("groups", 1)))),
                               t.points(e.points(batch=int(e.d.get("groups", 1))), axes="world"), t.grid(), t.condition(), t.axes(),
                               t.align_corners()],
        "tensor": lambda t, e: t.tensor(),
        "copy": lambda t, e: _copy.copy(t),
        "deepcopy": lambda t, e: _copy.deepcopy(t),
    }
    if parametric:
        ops["data"] = lambda t, e: t.data(new_params(t, e))
        ops["data_get"] = lambda t, e: t.data()
        ops["link"] = lambda t, e: t.link(e.keep(build_transform(e.d, key_offset=13)))
        ops["unlink"] = lambda t, e: t.unlink()
    if cls in INVERTIBLE or cls in ("SequentialTransform", "GenericSpatialTransform"):
        ops["inverse"] = lambda t, e: t.inverse(update_buffers=e.v % 2 == 1)
        ops["inverse_link"] = lambda t, e: t.inverse(link=True, update_buffers=e.v % 2 == 1)
        ops["inv"] = lambda t, e: type(t).inv.fget(t)  # not `t.inv`: Module.__getattr__ would mask an AttributeError raised inside
    if cls in HAS_MATRIX_SETTER:
        ops["matrix"] = lambda t, e: t.matrix(matrix_arg(t, e))
    if cls in LINEAR_PARAMETRIC and cls != "Translation":  # Translation.matrix() crashes (F6)
        ops["matrix_get"] = lambda t, e: t.matrix()
    return ops


def accessor_ops(d):
    if d["kind"] == "Grid":
        return _grid_ops()
    if d["kind"] == "Cube":
        return _cube_ops()
    if d["kind"] == "data":
        return _data_ops(d["cls"])
    return _transform_ops(d["cls"])


# results of these accessors on un-updated transforms legitimately fill the receiver's caches (documented: update() is
# called on demand by tensor()); they are only generated with pre_update=True
_READ_OPS = {"reads", "tensor", "matrix_get"}


def run_accessor(case):
    d = case
    kind, op = d["kind"], d["op"]
    ops = accessor_ops(d)
    if op not in ops:
        raise Skip("accessor not defined for this class")
    obj = build_object(d)
    twin = build_object(d)
    is_t = kind == "transform"
    pre = bool(d.get("pre_update", False)) or op in _READ_OPS
    call = is_t and bool(d.get("pre_call", False))
    if is_t and (pre or call):
        with torch.no_grad():
            if call:  # __call__ runs the update hook and forward(): afterwards all non-persistent buffers exist
                x = probe_points(d)
                obj(x)
                twin(x)
            else:
                obj.update()
                twin.update()
        pre = True
    env = Env(d)
    siblings = _siblings(obj, kind)
    sib_before = [object_fp(x) for x in siblings]
    before = object_fp(obj)
    try:
        with torch.no_grad():
            result = ops[op](obj, env)
    except NotImplementedError:
        if op not in ("inverse", "inverse_link", "inv"):
            raise
        result = None  # documented: "Raises NotImplementedError: transformation does not support sharing parameters with its inverse"
    except TypeError as e:
        if "missing 1 required positional argument: 'data'" in str(e):
            raise Skip("known crash of another property (F31)")
        raise
    except ValueError as e:
        if "Rotation matrix must have shape" in str(e):
            raise Skip("known crash of another property (N08-2)")
        raise
    except Exception as e:
        if type(e).__name__ == "ReadOnlyParameters" and op == "matrix":
            raise Skip("documented: parameters provided by a callable are read-only")
        raise
    name = d["cls"] if kind in ("transform", "data") else kind
    # argument objects (tensors, grids, other images / transforms) as they were when they were created for the call
    for a, fp0 in zip(env.args, env.arg_fp0):
        if fp_diff(fp0, _arg_fp(a)):
            raise Violation(f"accessor_mutates_argument:{op}", f"{name}.{op}: an argument object ({type(a).__name__}) was changed by the call: {fp_diff(fp0, _arg_fp(a))[:4]}")
    arg_fps = [(a, _arg_fp(a)) for a in env.args]  # compared again at the end (kept alive)
    after = object_fp(obj)
    diffs = fp_diff(before, after)
    labels = [f"recv={name}", f"op={op}", f"D={d['D']}"]
    if is_t:
        labels += [f"params={d.get('params')}", f"pre_update={pre}", f"pre_call={call}"]
    if kind == "data" or (is_t and d.get("content", "noise") != "noise"):
        labels.append(f"content={d.get('content', 'noise')}")
    if diffs:
        cat = diff_category(diffs[0])
        raise Violation(f"accessor_mutates_receiver:{op}:{cat}",
                        f"{name}.{op}(...): receiver fingerprint changed at {diffs[:6]}")
    # other objects that were built from the same Grid object(s) as the receiver (grids are shared by reference)
    for x, fp0 in zip(siblings, sib_before):
        diffs = fp_diff(fp0, object_fp(x))
        if diffs:
            raise Violation(f"accessor_mutates_shared_grid:{op}", f"{name}.{op}(...): {type(x).__name__} sharing the receiver's Grid object changed at {diffs[:6]}")
    # behaviour after the call must equal the behaviour of a twin that never saw the call
    if is_t:
        y1, y0 = behaviour(obj, d), behaviour(twin, d)
        if not same_bits(y1, y0):
            raise Violation(f"accessor_changes_behaviour:{op}",
                            f"{name}.{op}(...): output on probe points differs from an untouched twin by {float((y1 - y0).abs().max()):.3g}")
        diffs = fp_diff(object_fp(obj, ids=False), object_fp(twin, ids=False))
        if diffs:
            raise Violation(f"accessor_mutates_receiver_after_update:{op}:{diff_category(diffs[0])}",
                            f"{name}.{op}(...): after update() receiver and untouched twin differ at {diffs[:6]}")
    else:
        diffs = fp_diff(object_fp(obj, ids=False), object_fp(twin, ids=False))
        if diffs:
            raise Violation(f"accessor_mutates_receiver:{op}:twin", f"{name}.{op}: receiver differs from untouched twin at {diffs[:6]}")
    # using the result must not write to the receiver either (only for new-object results of Grid/Cube accessors,
    # which are value objects whose setters rebind attributes)
    if kind in ("Grid", "Cube") and type(result) is type(obj) and result is not obj:
        _poke_grid(result, env)
        diffs = fp_diff(before, object_fp(obj))
        if diffs:
            raise Violation(f"result_setter_mutates_receiver:{op}", f"{name}.{op}(...) result shares state: setters on it changed the receiver at {diffs[:4]}")
    for a, fp0 in arg_fps:
        if fp_diff(fp0, _arg_fp(a)):
            raise Violation(f"accessor_mutates_argument:{op}", f"{name}.{op}: an argument object changed")
    return {"nontrivial": op not in ("getters", "clone", "tensor", "data_get", "matrix_get", "tensor_m") and not op.startswith("getters_m"), "labels": labels}


def _siblings(obj, kind):
    """Objects that reference the very same Grid object(s) as the receiver, as is usual in deepali (images, batches and
    transforms are constructed from one Grid and keep a reference to it)."""
    import deepali.spatial as S
    from deepali.core import Grid
    from deepali.data import Image, ImageBatch

    if kind == "Grid":
        grids = [obj]
    elif kind == "data":
        g = obj.__dict__.get("_grid")
        grids = list(g) if isinstance(g, (list, tuple)) else [g]
    elif kind == "transform":
        grids = [obj.grid()]
    else:
        return []
    grids = [g for g in grids if isinstance(g, Grid)]
    if not grids:
        return []
    out = [Image(torch.zeros((1,) + tuple(grids[0].shape)), grids[0]), S.Translation(grids[-1])]
    if len(grids) > 1:
        out.append(ImageBatch(torch.zeros((len(grids), 1) + tuple(grids[0].shape)), grids))
    for x, g in zip(out, [grids[0], grids[-1]]):
        assert x.grid() is g  # shared by reference
    return out


def _arg_fp(a):
    if isinstance(a, list):
        return ("list",) + tuple(_arg_fp(x) for x in a)
    if isinstance(a, torch.Tensor) and type(a) in (torch.Tensor, torch.nn.Parameter):
        return value_fp(a)
    return ("fp", object_fp(a))


def _poke_grid(g, env):
    from deepali.core import Grid

    if isinstance(g, Grid):
        g.center_(env.vec(k=3)).spacing_(env.vec(0.5, 1.5, k=4)).align_corners_(not g.align_corners())
    else:
        g.center_(env.vec(k=3)).extent_(env.vec(1.0, 5.0, k=4))


def _accessor_case(draw, kind, cls, op):
    D = draw(st.sampled_from([3] if cls in ("QuaternionRotation", "RigidQuaternionTransform") else [2, 3]))
    lo, hi = (5, 8) if D == 2 else (5, 6)
    return {
        "kind": kind, "cls": cls, "op": op, "D": D, "size": draw(st.lists(st.integers(lo, hi), min_size=D, max_size=D)),
        "spacing": draw(st.lists(st.sampled_from([0.5, 1.0, 1.5, 2.0]), min_size=D, max_size=D)),
        "center": draw(st.lists(gen.qfloat(-20, 20, 0.5), min_size=D, max_size=D)),
        "rot": draw(st.sampled_from([0.0, 0.0, 0.3, -0.7, 1.2])), "ac": draw(st.booleans()),
        "params": draw(st.sampled_from(["parameter", "parameter", "buffer", "callable"])), "groups": draw(st.integers(1, 2)),
        "pre_update": draw(st.booleans()), "N": draw(st.integers(1, 2)), "C": draw(st.integers(1, 2)),
        "key": draw(st.integers(0, 9999)), "v": draw(st.integers(0, 539)),
        "content": draw(st.sampled_from(["noise"] * 4 + SPECIAL_CONTENTS)), "pre_call": draw(st.booleans()),
    }


def _receivers():
    out = [("Grid", "Grid"), ("Cube", "Cube")] + [("data", k) for k in DATA_KINDS] + [("transform", c) for c in TRANSFORM_CLASSES]
    return out


def _all_receiver_ops():
    out = []
    for kind, cls in _receivers():
        for op in sorted(accessor_ops({"kind": kind, "cls": cls})):
            out.append((kind, cls, op))
    return out


@st.composite
def accessor_cases(draw):
    kind, cls, op = draw(st.sampled_from(_all_receiver_ops()))
    return _accessor_case(draw, kind, cls, op)


def _data_contents(cls):
    role = "img" if cls in ("Image", "ImageBatch") else "flow"
    return ["noise"] + [c for c in SPECIAL_CONTENTS if special_array(role, c, (2, 3, 3), 0, torch.float32, 2) is not None]


def enumerate_accessors(tier):
    """Every (receiver class, accessor) pair with fixed descriptors: both dimensions, all three parameter kinds,
    without / after update() / after __call__(); data receivers with every special content; transforms also with
    all-zero parameters (identity map)."""
    for kind, cls, op in _all_receiver_ops():
        dims = [3] if cls in ("QuaternionRotation", "RigidQuaternionTransform") else [2, 3] if tier == "thorough" else [2]
        for D in dims:
            kinds = ["parameter", "buffer", "callable"] if kind == "transform" else ["parameter"]
            for pk in kinds:
                for pre in (["none", "update", "call"] if kind == "transform" else ["none"]):
                    contents = _data_contents(cls) if kind == "data" else ["noise", "identity"] if kind == "transform" and pre == "update" else ["noise"]
                    nv = getattr(accessor_ops({"kind": kind, "cls": cls})[op], "nv", 0)
                    for content in contents:
                        # M ops: all option combinations (with generic content); the special contents with the first two
                        vs = range(4) if tier == "thorough" else range(2) if kind == "data" else range(1)
                        if kind in ("Grid", "Cube"):  # cheap: all option combinations of the accessor arguments (at most 54)
                            vs = range(108) if tier == "thorough" else range(54)
                        if nv > len(vs) and content == "noise":
                            # Image / FlowField methods delegate to the batch classes: every 7th combination in the quick tier
                            # (7 is coprime to the option radices 2, 3, 5, so every value of every option still occurs)
                            vs = range(nv) if tier == "thorough" or cls in ("ImageBatch", "FlowFields") or nv <= 36 else range(0, nv, 7)
                        for v in vs:
                            yield {"kind": kind, "cls": cls, "op": op, "D": D, "size": [7, 5, 6][:D], "spacing": [1.0, 0.5, 2.0][:D],
                                   "center": [1.0, -2.0, 0.5][:D], "rot": [0.0, 0.3][v % 2], "ac": v % 4 < 2 or pk == "buffer", "params": pk,
                                   "groups": 1 + v % 2, "pre_update": pre == "update", "pre_call": pre == "call", "N": 2, "C": 2, "key": 5 + v, "v": v,
                                   "content": content}


# =======================================================================================
# facet 3: copies


def all_tensors(obj):
    """All tensors reachable from an object (grid attributes, data, parameters, buffers, nested grids, ParamNet)."""
    from deepali.core import Cube, Grid

    out = []
    seen = set()

    def visit(v, depth=0):
        if id(v) in seen or depth > 6:
            return
        seen.add(id(v))
        if isinstance(v, torch.Tensor):
            out.append(v)
            for x in getattr(v, "__dict__", {}).values():
                visit(x, depth + 1)
        elif isinstance(v, (Grid, Cube)):
            for name in type(v).__slots__:
                visit(getattr(v, name), depth + 1)
        elif isinstance(v, torch.nn.Module):
            for x in v.__dict__.values():
                visit(x, depth + 1)
        elif isinstance(v, ParamNet):
            visit(v.w, depth + 1)
        elif isinstance(v, dict):
            for x in v.values():
                visit(x, depth + 1)
        elif isinstance(v, (list, tuple, set)):
            for x in v:
                visit(x, depth + 1)

    visit(obj)
    return out


COPY_HOW = ["copy", "deepcopy", "clone", "pickle"]
DEEP = {"deepcopy", "clone", "pickle"}


def _take_copy(obj, how):
    try:
        if how == "copy":
            return _copy.copy(obj)
        if how == "deepcopy":
            return _copy.deepcopy(obj)
        if how == "clone":
            return obj.clone()
        if how == "pickle":
            return pickle.loads(pickle.dumps(obj))
    except RuntimeError as e:
        # torch (not deepali) refuses to inspect a buffer that is a no_grad view of a parameter which was modified in
        # place afterwards (DenseVectorFieldTransform.evaluate() registers such a view as buffer 'u')
        if "A view was created in no_grad mode" in str(e):
            raise Skip("torch autograd restriction: stale no_grad view buffer cannot be copied")
        raise
    raise ValueError(how)


def _modify(obj, init, how, v):
    """Modify `obj` in place; returns a label. All modifications change values (never no-ops)."""
    from deepali.core import Cube, Grid

    kind = init["kind"]
    D = int(init["D"])
    delta = 0.25 + 0.125 * (v % 4)
    with torch.no_grad():
        if kind in ("Grid", "Cube"):
            if how == "inplace":
                t = [obj.center(), obj.direction()][v % 2] if kind == "Cube" else [obj.center(), obj.spacing(), obj.direction()][v % 3]
                t.mul_(1.5).add_(delta)
                return "inplace_attr_tensor"
            if kind == "Grid":
                [lambda: obj.center_([delta + i for i in range(D)]), lambda: obj.spacing_([1.25 + delta + i for i in range(D)]),
                 lambda: obj.origin_([-delta - i for i in range(D)]), lambda: obj.align_corners_(not obj.align_corners())][v % 4]()
            else:
                [lambda: obj.center_([delta + i for i in range(D)]), lambda: obj.extent_([3.5 + delta + i for i in range(D)]),
                 lambda: obj.origin_([-delta - i for i in range(D)])][v % 3]()
            return "setter"
        if kind == "data":
            if how == "inplace":
                [lambda: obj.add_(delta), lambda: obj.tensor().mul_(1.5).sub_(delta), lambda: obj.normalize_(min=0.1, max=0.8),
                 lambda: obj.__setitem__((..., 0), 7.0)][v % 4]()
                return "inplace_data"
            if how == "grid_inplace":
                g = obj.grid()
                [lambda: g.center_([delta + i for i in range(D)]), lambda: g.spacing_([1.25 + delta + i for i in range(D)]),
                 lambda: g.align_corners_(not g.align_corners())][v % 3]()
                return "grid_object_setter"
            g = obj.grid()
            g2 = [g.center([delta + 3 + i for i in range(D)]), g.spacing([2.25 + delta] * D)][v % 2]
            obj.grid_([g2] * len(obj) if init["cls"] in ("ImageBatch", "FlowFields") and v % 3 == 0 else g2)
            return "grid_"
        # transforms
        if how == "inplace":
            ts = [p for p in obj.parameters()] + [b for n, b in obj.named_buffers() if n.split(".")[-1] == "params"]
            for m_ in obj.modules():
                if isinstance(getattr(m_, "params", None), ParamNet):
                    ts.append(m_.params.w)
            if not ts:
                raise Skip("no parameter tensor to modify in place")
            ts[v % len(ts)].add_(delta)
            return "inplace_params"
        if how == "data_":
            tgt = [m_ for m_ in obj.modules() if hasattr(m_, "data_") and isinstance(getattr(m_, "params", None), torch.Tensor)]
            if not tgt:
                raise Skip("no replaceable parameters")
            m_ = tgt[v % len(tgt)]
            m_.data_(m_.data().detach().clone().add_(delta))
            return "data_"
        if how == "unlink_":
            if not hasattr(obj, "unlink_") or not isinstance(getattr(obj, "params", None), torch.Tensor):
                raise Skip("no own parameters to release")
            obj.unlink_()
            return "unlink_"
        if how == "condition_":
            obj.condition_(torch.tensor([delta]))
            return "condition_"
        if how == "hook":
            obj.remove_update_hook()
            return "remove_update_hook"
        if how == "train":
            obj.train(not obj.training)
            return "train_flag"
        g = obj.grid()
        if init["cls"] in ("FreeFormDeformation", "StationaryVelocityFreeFormDeformation"):
            obj.grid_(g.resize([2 * n - 1 for n in g.size()]))
        else:  # note: Grid.__eq__ ignores align_corners, so toggling that flag alone would be a no-op of grid_()
            obj.grid_(g.resize([n + 1 + v % 2 for n in g.size()]))
        return "grid_"


def _own_attrs(fp):
    """Part of a module fingerprint that a shallow copy does not share: top-level plain attributes and buffer names."""
    if "attrs" not in fp:
        return fp
    return {"attrs": {k: v for k, v in fp["attrs"].items() if "." not in k and k != "params"},
            "buffer_names": tuple(sorted(k for k in fp["buffers"] if "." not in k)),
            "parameter_names": tuple(sorted(k for k, v in fp["params"].items() if v != ("value", None))),
            "module_names": tuple(sorted(fp["modules"])),
            "persistent": {k: v for k, v in fp["persistent"].items() if "." not in k},
            "nonpersistent_set": fp["nonpersistent_set"].get("", ("value", ())),
            "state_dict_keys": fp["state_dict"]["keys"]}


def run_copies(case):
    init, steps = case["init"], case["steps"]
    kind = init["kind"]
    is_t = kind == "transform"
    root = build_object(init)
    if is_t and (init.get("pre_update") or init.get("pre_call")):
        with torch.no_grad():
            if init.get("pre_call"):
                root(probe_points(init))
            else:
                root.update()
    objs = [root]
    group = [0]  # shallow-sharing group of each object
    touched = {0: False}  # group id -> any modification so far
    recorded = [object_fp(root)]
    labels = [f"kind={init['cls'] if kind in ('transform', 'data') else kind}"]
    nmods = ncopies = 0
    directions = set()
    regridded = set()  # ids of transforms whose grid was replaced by grid_()
    unlinked = set()  # ids of transforms whose parameters were released by unlink_() (params is None: cannot be evaluated)
    deferred = []
    for step in steps:
        if step["op"] == "copy":
            i = step["src"] % len(objs)
            how = step["how"]
            if how == "clone" and is_t:
                how = "deepcopy"
            if how == "copy" and kind == "data" and init["cls"] in ("FlowField", "FlowFields"):
                how = "clone"  # copy.copy of flow fields raises (F31, property C19)
            c = _take_copy(objs[i], how)
            if id(objs[i]) in regridded:
                regridded.add(id(c))
            if id(objs[i]) in unlinked:
                unlinked.add(id(c))
            ncopies += 1
            labels.append(f"copy={how}")
            # taking a copy changes nothing
            for j, o in enumerate(objs):
                d = fp_diff(recorded[j], object_fp(o))
                if d:
                    raise Violation(f"copy_mutates_object:{how}", f"taking {how} of object {i} changed object {j} at {d[:4]}")
            d = fp_diff(object_fp(objs[i], ids=False), object_fp(c, ids=False))
            if d:
                raise Violation(f"copy_not_equal:{how}", f"{how} of object {i} differs from its source at {d[:4]}")
            if how in DEEP:
                src_t = all_tensors(objs[i])
                shared = [t for t in all_tensors(c) if any(shares_memory(t, s) for s in src_t)]
                if shared:
                    raise Violation(f"deep_copy_shares_memory:{how}",
                                    f"{how} of object {i}: {len(shared)} tensor(s) of the copy share memory with the source (shapes {[tuple(t.shape) for t in shared[:3]]})")
                gid = max(group) + 1
                touched[gid] = touched[group[i]]
            else:
                gid = group[i]
                if is_t:
                    a, b = objs[i], c
                    pa, pb = dict(a.named_parameters()), dict(b.named_parameters())
                    if set(pa) != set(pb) or any(pa[k] is not pb[k] for k in pa):
                        raise Violation("shallow_copy_parameters_not_shared", "copy.copy(transform) does not reference the same parameter tensors")
                    for cont in ("_buffers", "_non_persistent_buffers_set", "_modules"):
                        if a.__dict__[cont] is b.__dict__[cont]:
                            # reported at the end of the history unless an observable consequence is found first
                            deferred.append(Violation(f"shallow_copy_shares_container:{cont}", f"copy.copy(transform) shares the {cont} container with the original"))
                    if a.__dict__ is b.__dict__:
                        raise Violation("shallow_copy_shares_container:__dict__", "copy.copy(transform) shares the attribute dict")
            objs.append(c)
            group.append(gid)
            recorded.append(object_fp(c))
        elif step["op"] == "eval":
            # evaluating one object (update() or __call__) registers / refreshes ITS buffers only
            if not is_t:
                continue
            i = step["obj"] % len(objs)
            if id(objs[i]) in regridded and init.get("params") == "callable":
                continue  # the callable still provides parameters of the shape required by the previous grid: not evaluable
            if id(objs[i]) in unlinked:
                continue  # parameters were released (None): nothing to evaluate
            own_before = [_own_attrs(object_fp(o)) for o in objs]
            pv = _parameter_values(objs[i])
            with torch.no_grad():
                if step.get("call"):
                    objs[i](probe_points(init))
                else:
                    objs[i].update()
            pv1 = _parameter_values(objs[i])
            bad = [k for k in pv if k not in pv1 or not same_bits(pv[k], pv1[k])]
            if bad:
                raise Violation("evaluation_mutates_parameters", f"evaluating object {i} changed the values of parameter(s) {bad[:4]}")
            labels.append("eval=call" if step.get("call") else "eval=update")
            for j, o in enumerate(objs):
                if j == i:
                    recorded[j] = object_fp(o)
                elif group[j] != group[i]:
                    d = fp_diff(recorded[j], object_fp(o))
                    if d:
                        raise Violation("deep_copy_not_independent:evaluate", f"evaluating object {i} changed the independent object {j} at {d[:4]}")
                else:
                    d = fp_diff(own_before[j], _own_attrs(object_fp(o)))
                    if d:
                        raise Violation("shallow_copy_shares_attributes:evaluate",
                                        f"evaluating object {i} changed own attributes / buffer names / persistence of its shallow sibling {j} at {d[:4]}")
                    recorded[j] = object_fp(o)
        else:
            i = step["obj"] % len(objs)
            how, v = step["how"], int(step.get("v", 0))
            if kind in ("Grid", "Cube") and how not in ("inplace", "setter"):
                how = "setter"
            if kind == "data" and how not in ("inplace", "setter", "grid_inplace"):
                how = "inplace"
            if is_t and how not in ("inplace", "setter", "data_", "condition_", "hook", "train", "unlink_"):
                how = "inplace"
            own_before = [_own_attrs(object_fp(o)) for o in objs]
            what = _modify(objs[i], init, how, v)
            if what == "grid_" and is_t:
                regridded.add(id(objs[i]))
            if what == "unlink_":
                unlinked.add(id(objs[i]))
            nmods += 1
            labels.append(f"mod={what}")
            directions.add("original" if i == 0 else "copy")
            if not fp_diff(recorded[i], object_fp(objs[i])) and what not in ("condition_",):
                raise Skip("modification had no effect")
            touched[group[i]] = True
            for j, o in enumerate(objs):
                if j == i:
                    recorded[j] = object_fp(o)
                elif group[j] != group[i]:
                    d = fp_diff(recorded[j], object_fp(o))
                    if d:
                        rel = "original" if j == 0 else "copy"
                        raise Violation(f"deep_copy_not_independent:{what}",
                                        f"modifying object {i} ({what}) changed the independent {rel} {j} at {d[:4]}")
                else:
                    # same shallow group: shared tensors may change, own attributes / container keys must not
                    if what in ("grid_", "condition_", "setter", "train_flag", "unlink_"):
                        d = fp_diff(own_before[j], _own_attrs(object_fp(o)))
                        if d:
                            raise Violation(f"shallow_copy_shares_attributes:{what}",
                                            f"{what} on object {i} changed own attributes / buffer names of its shallow sibling {j} at {d[:4]}")
                    recorded[j] = object_fp(o)
    if deferred:
        raise deferred[0]
    # behaviour of objects in groups that were never modified equals that of a fresh twin
    if is_t:
        y0 = behaviour(build_object(init), init)
        for j, o in enumerate(objs):
            if not touched[group[j]]:
                y = behaviour(o, init)
                if not same_bits(y, y0):
                    raise Violation("unmodified_copy_behaviour_differs", f"object {j} (never modified) maps probe points differently from a fresh twin")
    labels.append("dir=" + "+".join(sorted(directions)))
    return {"nontrivial": ncopies >= 1 and nmods >= 1 and len(set(group)) >= 2, "labels": sorted(set(labels)), "steps": len(steps)}


@st.composite
def copy_cases(draw):
    kind, cls = draw(st.sampled_from(_receivers()))
    init = _accessor_case(draw, kind, cls, "-")
    if cls == "MultiLevelTransform":
        init["groups"] = 1
    n = draw(st.integers(2, 7))
    steps = [{"op": "copy", "how": draw(st.sampled_from(COPY_HOW)), "src": 0}]
    for _ in range(n):
        k = draw(st.integers(0, 6))
        if k <= 1:
            steps.append({"op": "copy", "how": draw(st.sampled_from(COPY_HOW)), "src": draw(st.integers(0, 5))})
        elif k == 2 and kind == "transform":
            steps.append({"op": "eval", "obj": draw(st.integers(0, 5)), "call": draw(st.booleans())})
        else:
            steps.append({"op": "mod", "obj": draw(st.integers(0, 5)),
                          "how": draw(st.sampled_from(["inplace", "inplace", "setter", "data_", "grid_inplace", "condition_", "hook", "train", "unlink_"])),
                          "v": draw(st.integers(0, 11))})
    return {"init": init, "steps": steps}


def enumerate_copies(tier):
    """Every receiver class x copy method x modification kind x side (original / copy)."""
    for kind, cls in _receivers():
        D = 3 if cls in ("QuaternionRotation", "RigidQuaternionTransform") else 2
        mods = {"Grid": ["inplace", "setter"], "Cube": ["inplace", "setter"], "data": ["inplace", "setter", "grid_inplace"],
                "transform": ["inplace", "setter", "data_", "condition_", "hook", "train", "unlink_"]}[kind]
        for pk in ((["parameter", "buffer", "callable"] if tier == "thorough" else ["parameter", "callable"]) if kind == "transform" else ["parameter"]):
            for how in COPY_HOW:
                for mod in mods:
                    if mod == "unlink_" and (cls not in LINEAR_PARAMETRIC + NONRIGID or pk == "callable"):
                        continue  # only parametric transforms that hold their own parameter tensor can release it
                    for side in (0, 1):
                        for v in (range(3) if tier == "thorough" else range(1)):
                            init = {"kind": kind, "cls": cls, "op": "-", "D": D, "size": [7, 5, 6][:D], "spacing": [1.0, 0.5, 2.0][:D],
                                    "center": [1.0, -2.0, 0.5][:D], "rot": 0.3, "ac": True, "params": pk, "groups": 1,
                                    "pre_update": (v + side) % 2 == 0, "N": 2, "C": 2, "key": 11 + v, "v": v}
                            yield {"init": init, "steps": [{"op": "copy", "how": how, "src": 0}, {"op": "mod", "obj": side, "how": mod, "v": v},
                                                           {"op": "mod", "obj": 1 - side, "how": mod, "v": v + 1}]}
                            if kind == "transform":  # same history with evaluations (update() / __call__) of either side in between
                                init = dict(init, pre_update=False, pre_call=(v + side) % 2 == 0)
                                yield {"init": init, "steps": [{"op": "copy", "how": how, "src": 0}, {"op": "eval", "obj": 1 - side, "call": side == 0},
                                                               {"op": "mod", "obj": side, "how": mod, "v": v}, {"op": "eval", "obj": side, "call": side == 1},
                                                               {"op": "mod", "obj": 1 - side, "how": mod, "v": v + 1}, {"op": "eval", "obj": 0, "call": False}]}


# =======================================================================================
# self-test and facet registration


def selftest():
    """The recipe table must cover both __all__ lists; the snapshot / fingerprint machinery must see planted changes."""
    check_table_complete()
    check_secondary_complete()
    check_data_methods_complete()
    nan = float("nan")
    a = torch.tensor([1.0, nan, 3.0])
    assert same_bits(a, a.clone()) and not same_bits(a, torch.tensor([1.0, nan, 3.5])) and not same_bits(a, a.double())
    base = torch.arange(12.0)
    view = base[2:8:2]
    snap = Snapshot((view,), {"k": [base[0:1]]}, [(view, base)])
    assert snap.changed() == []
    base[4] += 1
    assert "args[0]" in snap.changed() and "base#0" in snap.changed()
    assert shares_memory(view, base) and not shares_memory(view, base.clone())
    d = {"kind": "transform", "cls": "StationaryVelocityFieldTransform", "params": "parameter", "groups": 1, "D": 2, "size": [6, 5], "key": 1, "ac": True}
    t = build_transform(d)
    f0 = module_fp(t)
    assert fp_diff(f0, module_fp(t)) == []
    t.exp.align_corners = False
    assert [diff_category(x) for x in fp_diff(f0, module_fp(t))] == ["attrs.exp.align_corners"]
    t.exp.align_corners = True
    with torch.no_grad():
        t.params.add_(1)
    assert sorted({diff_category(x) for x in fp_diff(f0, module_fp(t))}) == ["parameters", "state_dict.value"]
    with torch.no_grad():
        t.params.sub_(1)
        t.update()
    f2 = module_fp(t)
    assert "u" in t._non_persistent_buffers_set and list(t.state_dict()) == ["params"]
    t._non_persistent_buffers_set.discard("u")  # planted: buffer u silently becomes persistent
    cats = {diff_category(x) for x in fp_diff(f2, module_fp(t))}
    assert {"nonpersistent_set", "persistent.u", "state_dict.keys"} <= cats, cats
    t._non_persistent_buffers_set.add("u")
    t.remove_update_hook()
    assert {diff_category(x) for x in fp_diff(f2, module_fp(t))} == {"hooks"}
    t.register_update_hook()
    t.clear_buffers()
    # special contents are exact
    a = special_array("img", "unit_offset", (2, 1, 4, 5), 3, torch.float32, 2)
    b = torch.tensor(a, dtype=torch.float32)
    assert float(b.max()) - float(b.min()) == 1.0 and float(b.min()) != 0.0
    v, base = embed_layout(a, a.shape, 3, torch.float32, "stride")
    assert same_bits(v, b) and base is not v and shares_memory(v, base)
    t2 = _copy.copy(t)
    t2.register_buffer("u", torch.zeros(1))
    f1 = module_fp(t)
    t.condition_(1)
    assert "attrs._args" in [diff_category(x) for x in fp_diff(f1, module_fp(t))]
    g = build_grid(d)
    g0 = grid_fp(g)
    g.spacing_(3.0)
    assert fp_diff(g0, grid_fp(g))
    assert len(all_tensors(t)) >= 4
    # the align_corners flag of a Grid (ignored by Grid.__eq__) and fractional grid sizes are part of every fingerprint,
    # also for objects that merely reference the Grid
    dd = {"kind": "data", "cls": "ImageBatch", "D": 2, "size": [6, 5], "key": 1, "ac": True, "N": 2, "C": 1}
    x = build_data(dd)
    sib = _siblings(x, "data")
    f0, s0 = data_fp(x), [object_fp(y) for y in sib]
    gx = x.grid()
    flipped = gx.clone().align_corners_(not gx.align_corners())  # (in-place setter on a clone: no accessor under test is used here)
    assert flipped == gx  # Grid.__eq__ does not see the flag ...
    gx.align_corners_(not gx.align_corners())  # ... planted: flag of the shared Grid object overwritten in place
    assert any("_align_corners" in z for z in fp_diff(f0, data_fp(x))), fp_diff(f0, data_fp(x))
    assert any(fp_diff(a, object_fp(y)) for a, y in zip(s0, sib))
    gx.align_corners_(not gx.align_corners())
    assert fp_diff(f0, data_fp(x)) == []
    gx._size = gx._size + 0.5  # planted: fractional internal size (Grid.size() still rounds to the same integers)
    assert any("_size" in z for z in fp_diff(f0, data_fp(x)))
    # a secondary tensor argument handed through without a copy is seen when it is written to
    sg = torch.tensor([1.0, 0.5])
    snap = Snapshot((torch.zeros(1, 1, 4, 4),), {"sigma": sg}, [(sg, sg)])
    torch.atleast_1d(torch.as_tensor(sg, dtype=torch.float))[1] = 0
    assert "kwargs['sigma']" in snap.changed()


FACETS = [
    Facet("functional_args", run_functional, strategy=functional_cases, enumerate=enumerate_functional,
          rule="recipe table over every name of core.functional.__all__ and losses.functional.__all__ (complete enumeration of all "
               "(function, recipe, D) triples with fixed layouts + Hypothesis cases over shapes, dtypes, N, C, variant numbers and the "
               "memory layouts contiguous / expanded / strided / offset / transposed, and per-slot tensor contents noise / unit / "
               "unit_offset / center / const / zeros / ones / binary / intvals / identity; enumeration of all variant numbers 0..5 and of "
               "every (function, recipe, special content) triple; enumeration of every (function, sec_* recipe, option combination w, "
               "dtype of the secondary tensor, data dtype) tuple); non-trivial = the call received at least one "
               "tensor argument that is a view, has a special content or is a secondary argument given as tensor, or the result aliases an "
               "argument, or it is an in-place variant",
          quick=1000, thorough=20000, shards=16, quick_shards=4),
    Facet("accessors", run_accessor, strategy=accessor_cases, enumerate=enumerate_accessors,
          rule="every (receiver class, accessor) pair of Grid, Cube, Image, ImageBatch, FlowField, FlowFields and 23 transform "
               "configurations, with Parameter / buffer / callable parameters, fresh / after update() / after __call__(), data receivers "
               "with every special content, transforms with identity parameters, enumerated and generated (grids, sizes, values); for the data "
               "classes every public method with every option combination of its parameters (M ops), for Grid / Cube all 54 variants of "
               "each accessor; non-trivial = accessor with an argument that differs from the current state (not a pure getter)",
          quick=800, thorough=10000, shards=16, quick_shards=6),
    Facet("copies", run_copies, strategy=copy_cases, enumerate=enumerate_copies,
          rule="histories of up to 8 steps over copy.copy / deepcopy / clone / pickle, modifications (in place on tensors, `_` setters, "
               "data_, unlink_, condition_, grid object setters incl. align_corners_, remove_update_hook, train flag) and evaluations (update / __call__) of any object "
               "taken so far; non-trivial = at least one copy, one modification and "
               "two independent groups",
          quick=300, thorough=3000, shards=8, quick_shards=4),
]
