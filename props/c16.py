"""C16 - Image similarity and overlap losses satisfy their defining axioms."""
from __future__ import annotations

import math

import numpy as np
import torch
from hypothesis import strategies as st

from vlib import gen
from vlib import ref_c16 as R
from vlib.case import hash_noise, smooth_field, tdtype
from vlib.core import EPS32, Facet, Skip, Violation, check_close, eps_of
from vlib.findings import Known

PROPERTY = "C16"
MANIFEST = {
    "text": "Generated-input search (Hypothesis) over dimensions, shapes, batch/channel counts, mask shapes (shared, per-item, "
            "single/multi-channel, binary and soft), intensity affine maps, kernel sizes, bin counts, reductions and options. "
            "Pointwise, correlation and overlap losses are compared with plain float64 numpy reference models (brute-force window "
            "sums for the local correlations) and with the axioms of the statement (identity, range, symmetry, affine invariance, "
            "mask semantics, norm, reductions, Tversky(1/2,1/2) = Dice); mutual information is compared with a float64 Parzen-window "
            "model (explicit range and the default joint range of the pair) and checked for swap symmetry, the "
            "documented NMI range and mi(x,x) <= mi(x,y) on the sub-domain where this is a theorem for the Parzen estimate; every "
            "module of losses.image is compared with its functional form under the same options, and every concrete pairwise "
            "image loss class exported by deepali.losses (enumerated from the package, PatchwiseImageLoss included) is checked to be "
            "a stateless function of its constructor arguments and inputs: one instance is called 2-4 times with pairs of "
            "different intensity range, shape, dimension, batch, dtype, masks and requires_grad, and every call must agree with "
            "the functional form, a fresh instance and the float64 model, leave the instance's attributes / buffers and all input "
            "tensors unchanged and pass gradients like the functional form. The overlap and correlation losses, which convert "
            "their inputs to float32, are exercised with every storage dtype they accept (float16, bfloat16, float32, float64, "
            "uint8, int64; Dice/Tversky also bool; prediction, target and weight may differ in dtype), with classes that are empty "
            "in both maps and with maps of up to 330^2 / 48^3 voxels (foreground counts beyond the integer range and beyond the "
            "largest finite value of half precision): the references are evaluated on the stored values with float32 bounds, and "
            "the result must equal that of the same values stored as float32. Exploration: no absence proof; "
            "tolerances are derived from float32 rounding and the conditioning of the correlation coefficient.",
    "note": "Trusted: numpy, the reference models in vlib/ref_c16.py (self-tested on closed-form cases), the conditioning bound "
            "of the squared correlation coefficient derived in props/c16.py; CPU; pointwise losses and mutual information (which "
            "compute in the dtype of their inputs) with float32/float64 inputs only; images <= 20^2 / 10^3 (overlap maps up to "
            "330^2 / 48^3); aggregation masks of reduced precision / integer images are float32 (reduce_loss sums a mask in "
            "the mask's own dtype); "
            "random sub-sampling options of mi_loss are not exercised (they draw from the global torch RNG); PatchwiseImageLoss is "
            "compared with the pairwise loss of patches sampled with deepali's own grid_sample / grid_sample_mask (sampler trusted "
            "here, it belongs to another property).",
    "technique": "property-based testing (Hypothesis) with float64 reference models, metamorphic relations and differential module/function comparison",
}
ASSUMPTIONS = [
    "correlation losses: |loss - reference| <= 256 eps32 (1 + sqrt(n_w) (max|s|/sqrt(B) + max|t|/sqrt(C))) per window "
    "(first-order perturbation bound of rho^2 under float32 rounding of the centred samples); windows whose bound exceeds 1e-2 "
    "are counted as ill-conditioned and not compared",
    "mi_loss(x,x) <= mi_loss(x,y) is asserted only where it is a theorem for the Parzen estimate: intensities on interior bin "
    "centres, levels of x at least 6 bins apart (data-processing inequality); slack (B^2+2B) 1e-5 for the +1e-5 regularisers",
    "mi_loss/nmi_loss: C = 1, explicit num_bins for every comparison with the model, no random sub-sampling; vmin/vmax explicit or "
    "left at their default, which the model takes to be the joint intensity range of the two images (the only choice that is "
    "symmetric in the arguments and covers both images)",
    "Parzen-window model of mi_loss: num_bins equally spaced centres from vmin to vmax, Gaussian window with FWHM (vmax - vmin) / "
    "num_bins, including the estimator's 1e-5 regularisers; rounding bound rho (S_x + S_y + S_xy) with rho = 4 (128 eps + 9 dc / "
    "sigma) + (2 n + 16 + bins) eps, dc = 4 eps32 max(|vmin|, |vmax|) (bin centres are float32 whatever the input dtype); cases "
    "with rho > 5e-3 are counted as ill-conditioned and not compared with the model; masked MI: no model (mi_loss multiplies the "
    "intensities by the mask, undocumented for anything but a region of interest), differential and symmetry checks only",
    "stateless modules: attributes present after construction (type-exact), parameters, buffers and sub-modules must be unchanged "
    "by forward(); NEW private attributes are not reported (a correctly keyed cache is legitimate, a wrong one shows in the values)",
    "module vs functional form / fresh instance: the same computation, so agreement within 4 eps of the result (64 eps for MI and "
    "data-derived norms; PatchwiseImageLoss: n eps for its differently strided patch tensors)",
    "windowed-loss reference for wlcc_loss uses binary masks (soft masks: structural checks only)",
    "kernel sizes are odd (documented requirement for shape preservation)",
    "storage dtypes: dice/tversky/ncc/lcc/wlcc convert their inputs to float32 (DESIGN B; observed on the pinned tree for float16, "
    "bfloat16, float64, bool, uint8, int64 inputs), so the same K eps32 bounds apply whatever the storage dtype and the reference is "
    "computed from the stored (already rounded) values; the dtype of the RESULT is not asserted (a float64 result for float64 "
    "inputs would be legitimate); soft maps / weights only with floating point storage; integer images are 256 grey levels; "
    "the affine map a*x+b of a reduced precision / integer image is stored as float32 (mixed-dtype pair)",
    "masks of reduced precision / integer images: the aggregation mask is float32, wlcc source_mask / target_mask and Dice weights "
    "(converted by the loss itself) use the image dtype when it is a floating point type; half precision aggregation masks are "
    "not generated (reduce_loss sums the mask in its own dtype: a half precision count, see the report)",
]

KNOWN = Known(PROPERTY)


def k6_active() -> bool:
    return KNOWN.active("K6")


def selftest():
    R.selftest()


# ---------------------------------------------------------------------------------------
# shared builders


def full_shape(case):
    return (case["N"], case["C"]) + tuple(case["shape"])


def make_pair(case):
    """Two float64 images (N, C, ...) from closed-form content; y is partially related to x."""
    shp = full_shape(case)
    lo, rng = case["lo"], case["R"]
    x = hash_noise(shp, case["key"], 0.0, 1.0)
    z = hash_noise(shp, case["key"] + 7919, 0.0, 1.0)
    if case.get("content") == "mix":
        sm = np.stack([np.stack([smooth_field(case["shape"], [1 + (b + c) % 2] * len(case["shape"]), 0.5) + 0.5
                                 for c in range(shp[1])]) for b in range(shp[0])])
        x = 0.7 * sm + 0.3 * x
    rel = case.get("rel", 0.0)
    y = rel * x + (1.0 - rel) * z
    return lo + rng * x, lo + rng * y


def mask_shape(kind, shp):
    N, C = shp[0], shp[1]
    sp = tuple(shp[2:])
    return {"11": (1, 1) + sp, "N1": (N, 1) + sp, "NC": (N, C) + sp, "1C": (1, C) + sp, "N": (N,) + sp}[kind]


def make_mask(desc, shp, anchor=0):
    """Mask array from descriptor {'kind','soft','key','p'}.  By construction every item / channel of every mask of a
    case is non-zero at one common spatial position (`anchor`), so no mask - and no product of masks - is empty."""
    if desc is None:
        return None
    ms = mask_shape(desc["kind"], shp)
    u = hash_noise(ms, desc["key"], 0.0, 1.0)
    m = (u < desc["p"]).astype(np.float64)
    nsp = int(np.prod(shp[2:]))
    m.reshape(-1, nsp)[:, anchor % nsp] = 1.0
    if desc.get("soft"):
        m = m * np.round(0.05 + 0.95 * hash_noise(ms, desc["key"] + 31, 0.0, 1.0), 3)
    return m


def mask_desc(kinds, soft=True):
    return st.fixed_dictionaries({
        "kind": st.sampled_from(list(kinds)),
        "soft": st.booleans() if soft else st.just(False),
        "key": st.integers(0, 9999),
        "p": st.sampled_from([0.2, 0.5, 0.8, 1.0]),
    })


def mask_nontrivial(m):
    return m is not None and bool((m == 0).any()) and bool((m != 0).any())


def T(a, dt):
    return None if a is None else torch.tensor(np.ascontiguousarray(a), dtype=dt)


# storage dtypes of the inputs of the losses that convert their inputs to float32 (overlap and correlation measures):
# every dtype these functions accept on the pinned tree.  The reference is always computed from the STORED values.
HALF_DTYPES = {"float16": torch.float16, "bfloat16": torch.bfloat16}
SEG_DTYPES = ("float32", "float64", "float16", "bfloat16", "bool", "uint8", "int64")
IMG_DTYPES = ("float32", "float64", "float16", "bfloat16", "uint8", "int64")


def sdtype(name):
    """torch dtype of a storage dtype name (tdtype + the reduced precision floating point types)."""
    return HALF_DTYPES[name] if name in HALF_DTYPES else tdtype(name)


def is_float_name(name):
    return name in ("float16", "bfloat16", "float32", "float64")


def wide_dtypes(names):
    """float32 / float64 half of the time, otherwise any of `names`."""
    return st.one_of(gen.dtypes(), st.sampled_from(list(names)))


def stored_pair(case, name=None):
    """make_pair() prepared for the storage dtype `name`: integer types get integer grey levels (256 levels starting
    at round(lo) for signed types, at 0 for uint8); floating point types are rounded by the tensor constructor."""
    name = case["dtype"] if name is None else name
    x64, y64 = make_pair(case)
    if is_float_name(name):
        return x64, y64
    off = 0.0 if name == "uint8" else float(round(case["lo"]))
    q = lambda v: off + np.clip(np.floor((v - case["lo"]) / case["R"] * 256.0), 0.0, 255.0)  # noqa: E731
    return q(x64), q(y64)


def side_mask_dtype_name(name):
    """Dtype of masks that the loss converts itself (wlcc source_mask / target_mask, Dice weights): the image dtype
    if that is a floating point type (reduced precision included), else float32."""
    return name if is_float_name(name) else "float32"


def mask_dtype_name(name):
    """Dtype of the aggregation mask that goes with images stored as `name`: reduce_loss() sums the mask in the
    mask's own dtype, so a float32 mask is used with reduced precision / integer images (a half precision mask
    would make the documented mean a half precision quantity - not asserted here)."""
    return name if name in ("float32", "float64") else "float32"


def as64(t):
    return t.detach().double().numpy()


def check_elem(actual, expected, bound, kind, what):
    """Element-wise |actual-expected| <= bound (array); returns max ratio. Elements with bound = inf are not compared."""
    a = as64(actual) if isinstance(actual, torch.Tensor) else np.asarray(actual, np.float64)
    e = np.asarray(expected, np.float64)
    b = np.broadcast_to(np.asarray(bound, np.float64), e.shape)
    if a.shape != e.shape:
        raise Violation(kind + ":shape", f"{what}: shape {a.shape} != expected {e.shape}")
    ok = np.isfinite(b)
    if not ok.any():
        return 0.0
    if not np.isfinite(a[ok]).all():
        raise Violation(kind + ":nonfinite", f"{what}: non-finite result")
    err = np.abs(a - e)
    ratio = np.where(ok, err / np.where(ok, b, 1.0), 0.0)
    i = int(np.argmax(ratio))
    r = float(ratio.reshape(-1)[i])
    if r > 1.0:
        raise Violation(kind, f"{what}: |delta|={err.reshape(-1)[i]:.6g} > bound {b.reshape(-1)[i]:.3g} "
                              f"(actual {a.reshape(-1)[i]:.9g}, expected {e.reshape(-1)[i]:.9g}, flat index {i})")
    return r


def images_base(draw, max2, max3, min_size=1, max_n=3, max_c=3, D=None, min_sizes=None):
    D = draw(gen.dims()) if D is None else D
    hi = max2 if D == 2 else max3
    lows = [min_size] * D if min_sizes is None else list(min_sizes)
    return {
        "D": D,
        "shape": [draw(st.integers(lo, max(lo, hi))) for lo in lows],
        "N": draw(st.integers(1, max_n)),
        "C": draw(st.integers(1, max_c)),
        "key": draw(st.integers(0, 10 ** 6)),
        "lo": draw(st.sampled_from([0.0, 0.0, -1.0, 10.0, 100.0])),
        "R": draw(st.sampled_from([0.1, 1.0, 1.0, 10.0, 255.0])),
        "rel": draw(st.sampled_from([0.0, 0.5, 0.9])),
    }


# ---------------------------------------------------------------------------------------
# facet 1: pointwise losses against the numpy reference

POINTWISE = ("mse", "ssd", "mae", "l1", "huber", "smooth_l1")
PARAM_NAME = {"huber": "delta", "smooth_l1": "beta"}


@st.composite
def pointwise_cases(draw):
    case = images_base(draw, 12, 6)
    case["loss"] = draw(st.sampled_from(POINTWISE))
    case["param"] = draw(st.one_of(st.none(), gen.qfloat(0.05, 3.0, 0.05))) if case["loss"] in PARAM_NAME else None
    case["dtype"] = draw(gen.dtypes())
    case["mask"] = draw(st.one_of(st.none(), *[mask_desc(("11", "N1", "NC", "1C"))] * 3))
    case["norm"] = draw(st.one_of(st.none(), gen.logfloat(0.01, 1000.0)))
    case["norm_form"] = draw(st.sampled_from(["float", "tensor0", "tensor1"]))
    case["big"] = draw(st.sampled_from([1.0, 100.0, -1000.0]))
    return case


def pointwise_fn(name):
    import deepali.losses.functional as L

    return getattr(L, name + "_loss")


def run_pointwise(case):
    name = case["loss"]
    fn = pointwise_fn(name)
    dt = tdtype(case["dtype"])
    eps = eps_of(dt)
    shp = full_shape(case)
    x64, y64 = make_pair(case)
    x, y = T(x64, dt), T(y64, dt)
    xr, yr = as64(x), as64(y)  # the values deepali actually receives
    m = T(make_mask(case["mask"], shp, case["key"]), dt)
    m64 = None if m is None else as64(m)
    kw = {}
    param = 1.0
    if case["param"] is not None:
        param = case["param"]
        kw[PARAM_NAME[name]] = param
    norm = case["norm"]
    if norm is not None:
        kw["norm"] = {"float": norm, "tensor0": torch.tensor(norm, dtype=dt), "tensor1": torch.tensor([norm], dtype=dt)}[case["norm_form"]]
    nrm = 1.0 if norm is None else float(torch.tensor(norm, dtype=dt))
    elem = R.pointwise(name, xr, yr, param)
    mb = None if m64 is None else np.broadcast_to(m64, shp)
    wsum = float(np.abs(elem if mb is None else elem * mb).sum())
    denom = float(elem.size if mb is None else mb.sum())
    b_elem = 16 * eps * max(float(elem.max()), 1e-300) / nrm
    b_sum = 256 * eps * max(wsum, 1e-300) / nrm
    b_mean = b_sum / denom
    worst = 0.0
    outs = {}
    for red, bound in (("none", b_elem), ("sum", b_sum), ("mean", b_mean)):
        out = fn(x, y, mask=m, reduction=red, **kw)
        outs[red] = out
        exp = R.reduce_masked(elem, m64, red, nrm)
        if out.dtype != dt:
            raise Violation("pointwise_dtype", f"{name}_loss returned {out.dtype} for {dt} inputs")
        worst = max(worst, check_close(out, exp, bound, f"pointwise_reference_{red}",
                                       f"{name}_loss(reduction={red!r}, mask={case['mask'] and case['mask']['kind']}, norm={norm}) vs numpy sum(loss*m)/sum(m)"))
    # documented default reduction
    dflt = "sum" if name == "ssd" else "mean"
    worst = max(worst, check_close(fn(x, y, mask=m, **kw), R.reduce_masked(elem, m64, dflt, nrm), b_sum if dflt == "sum" else b_mean,
                                   "pointwise_default_reduction", f"{name}_loss default reduction must be {dflt!r}"))
    # 'mean' / 'sum' are the (mask-aware) mean / sum of the 'none' output
    none64 = as64(outs["none"])
    worst = max(worst, check_close(outs["sum"], none64.sum(), b_sum, "reduction_sum_of_none", f"{name}_loss 'sum' != sum of 'none' output"))
    worst = max(worst, check_close(outs["mean"], none64.sum() / denom, b_mean, "reduction_mean_of_none",
                                   f"{name}_loss 'mean' != sum of 'none' output / sum(mask)"))
    # norm divides the value
    if norm is not None:
        kw0 = {k: v for k, v in kw.items() if k != "norm"}
        for red, bound in (("none", b_elem), ("mean", b_mean)):
            un = fn(x, y, mask=m, reduction=red, **kw0)
            worst = max(worst, check_close(as64(outs[red]) * nrm, as64(un), 2 * bound * nrm, "norm_divides", f"{name}_loss(norm=c) * c != {name}_loss()"))
    # identity => exactly 0
    for red in ("none", "mean"):
        check_close(fn(x, x, mask=m, reduction=red, **kw), 0.0, 0.0, "pointwise_identity", f"{name}_loss(x, x) != 0")
    # symmetry
    worst = max(worst, check_close(fn(y, x, mask=m, reduction="mean", **kw), as64(outs["mean"]), b_mean, "pointwise_symmetry", f"{name}_loss(y, x) != {name}_loss(x, y)"))
    # samples where mask == 0 are ignored entirely
    if mb is not None and (mb == 0).any():
        x2 = T(np.where(mb == 0, xr + case["big"], xr), dt)
        y2 = T(np.where(mb == 0, yr - 3.0 * case["big"], yr), dt)
        for red, bound in (("none", b_elem), ("mean", b_mean), ("sum", b_sum)):
            o2 = fn(x2, y2, mask=m, reduction=red, **kw)
            worst = max(worst, check_close(o2, as64(outs[red]), bound, "masked_out_samples_ignored",
                                           f"{name}_loss changed after altering samples where mask == 0 (reduction={red!r})"))
    nt = mask_nontrivial(m64) and wsum > 0
    return {"ratio": worst, "nontrivial": nt,
            "labels": [name, "mask=" + (case["mask"]["kind"] if case["mask"] else "none"), case["dtype"], f"N={shp[0]}", f"C={shp[1]}", f"D={case['D']}",
                       "soft" if case["mask"] and case["mask"]["soft"] else "hard", "norm" if norm is not None else "nonorm"]}


# ---------------------------------------------------------------------------------------
# correlation losses: shared evaluation

CORR_K = 256.0
ILL = 1e-2  # windows with a larger derived bound are ill-conditioned: not compared (counted)


def corr_bound(Ms, Mt, B, C, nw):
    """First-order bound of |rho^2 - fl32(rho^2)|: centred samples carry absolute errors ~ eps32 max|s| each (rounded inputs,
    float32 mean, subtraction), i.e. a relative perturbation sqrt(n_w) eps32 max|s| / sqrt(B) of the centred window vector;
    rho^2 changes by <= 4 x that for each image; the sums add O(eps32)."""
    with np.errstate(divide="ignore", invalid="ignore"):
        cond = np.sqrt(nw) * (Ms / np.sqrt(B) + Mt / np.sqrt(C))
    b = CORR_K * EPS32 * (1.0 + cond)
    return np.where(np.isfinite(b) & (b <= ILL), b, np.inf)


def eps_term(B, C, eps):
    """Deviation of A^2/(BC+eps) from the scale-free rho^2 is at most eps/(BC+eps)."""
    return eps / (B * C + eps)


def chan_max(a):
    """max |a| per (n, c), broadcastable to a."""
    return np.abs(a).reshape(a.shape[0], a.shape[1], -1).max(2).reshape(a.shape[:2] + (1,) * (a.ndim - 2))


def call_ncc(fn, x, y, m, **kw):
    """ncc_loss / NCC() with a mask: K6 - every mask is rejected."""
    if m is None:
        return fn(x, y, **kw)
    try:
        return fn(x, y, mask=m, **kw)
    except (ValueError, IndexError) as e:
        raise Violation("ncc_mask_rejected", f"ncc_loss with a documented mask of shape {tuple(m.shape)} raised {type(e).__name__}: {str(e)[:120]}")


def corr_eval(loss, x, y, k, eps, masks, reduction="none"):
    """Call the deepali functional form. masks = dict(mask=, source_mask=, target_mask=) of tensors / None."""
    import deepali.losses.functional as L

    kw = {} if eps is None else {"epsilon": eps}
    if loss == "ncc":
        return call_ncc(L.ncc_loss, x, y, masks.get("mask"), reduction=reduction, **kw)
    if loss == "lcc":
        return L.lcc_loss(x, y, mask=masks.get("mask"), kernel_size=k, reduction=reduction, **kw)
    return L.wlcc_loss(x, y, kernel_size=k, reduction=reduction, **masks, **kw)


def corr_ref(loss, xr, yr, k, eps, m64s):
    """Reference local scores, window sums and the mask used for aggregation.
    Returns (score, B, C, nw, agg_mask, Ms, Mt) with arrays of the shape of the deepali 'none' output."""
    e = 1e-15 if eps is None else eps
    if loss == "ncc":
        l, B, C, n = R.ncc(xr, yr, e)
        N = xr.shape[0]
        Ms = np.abs(xr).reshape(N, -1).max(1)
        Mt = np.abs(yr).reshape(N, -1).max(1)
        return l, B, C, float(n), None, Ms, Mt
    if loss == "lcc":
        l, B, C, nw = R.lcc(xr, yr, k, e)
        return l, B, C, nw, m64s.get("mask"), chan_max(xr), chan_max(yr)
    l, B, C, nw, agg, undefined = R.wlcc(xr, yr, k, e, m64s.get("mask"), m64s.get("source_mask"), m64s.get("target_mask"))
    B = np.where(undefined, 0.0, B)  # -> infinite bound: windows with an unsupported weighted mean are not compared
    return l, B, C, nw, agg, chan_max(xr), chan_max(yr)


def kernel_arg(k):
    return tuple(k) if isinstance(k, list) else k


def corr_inputs(case):
    dt = sdtype(case["dtype"])
    x64, y64 = stored_pair(case)
    x, y = T(x64, dt), T(y64, dt)
    shp = full_shape(case)
    m64s, ms = {}, {}
    for key in ("mask", "source_mask", "target_mask"):
        d = case.get(key)
        if d is not None:
            mdt = sdtype(mask_dtype_name(case["dtype"]) if key == "mask" else side_mask_dtype_name(case["dtype"]))
            ms[key] = T(make_mask(d, shp, case["key"]), mdt)
            m64s[key] = f32(ms[key])
    return x, y, m64s, ms


def f32(t):
    """The values a loss that casts to float32 actually works with."""
    return t.float().double().numpy()


def weighted(score, agg, shape):
    if agg is None:
        return score, float(score.size), None
    mb = np.broadcast_to(agg, shape)
    return score * mb, float(mb.sum()), mb


def corr_mask_strategy(draw, loss):
    """Mask descriptors for one loss; ncc + mask is known finding K6 (routed around only while it is listed)."""
    out = {"mask": None, "source_mask": None, "target_mask": None}
    kinds = ("11", "N1", "NC", "1C")
    if loss == "ncc":
        if not k6_active() and draw(st.integers(0, 3)) == 0:
            out["mask"] = draw(mask_desc(kinds))
        return out
    if loss == "lcc":
        out["mask"] = draw(st.one_of(st.none(), mask_desc(kinds)))
        return out
    form = draw(st.sampled_from(["none", "mask", "mask", "st", "mst", "s", "t"]))
    if "m" in form and form != "none":
        out["mask"] = draw(mask_desc(kinds))
    if form in ("st", "mst", "s"):
        out["source_mask"] = draw(mask_desc(kinds))
    if form in ("st", "mst", "t"):
        out["target_mask"] = draw(mask_desc(kinds))
    return out


def kernel_strategy(draw, D, hi, allow_aniso):
    """Odd kernel sizes 3-9 (<= hi); returns (kernel, per-axis minimum image size).  The image is generated at least
    as large as the kernel: torch's 3-D average pooling rejects smaller images even with padding (implicit
    precondition of lcc/wlcc, constructed rather than filtered)."""
    ok = [v for v in (3, 3, 5, 7, 9) if v <= hi]
    k = draw(st.sampled_from(ok))
    form = draw(st.sampled_from(["int", "int", "tuple"] + (["aniso"] if allow_aniso else [])))
    if form == "int":
        return k, [k] * D
    if form == "tuple":
        return [k] * D, [k] * D
    ks = [draw(st.sampled_from([v for v in (3, 5, 7) if v <= hi])) for _ in range(D)]
    return ks, ks


# ---------------------------------------------------------------------------------------
# facet 2: correlation losses against the brute-force reference (small images)


@st.composite
def corr_reference_cases(draw):
    D = draw(gen.dims())
    k, lows = kernel_strategy(draw, D, 12 if D == 2 else 8, allow_aniso=False)
    case = images_base(draw, 12, 8, D=D, min_sizes=lows)
    case["k"] = k
    case["loss"] = draw(st.sampled_from(["ncc", "lcc", "lcc", "wlcc", "wlcc"]))
    case["content"] = draw(st.sampled_from(["noise", "noise", "mix"]))
    case["dtype"] = draw(wide_dtypes(IMG_DTYPES))
    case["eps"] = draw(st.sampled_from([None, None, 1e-15, 1e-8, 1e-3]))
    case.update(corr_mask_strategy(draw, case["loss"]))
    return case


def run_corr_reference(case):
    loss = case["loss"]
    x, y, m64s, ms = corr_inputs(case)
    xr, yr = f32(x), f32(y)
    k, eps = kernel_arg(case["k"]), case["eps"]
    soft = any(case.get(key) and case[key]["soft"] for key in ("mask", "source_mask", "target_mask"))
    shp = full_shape(case)
    worst = 0.0
    none = corr_eval(loss, x, y, k, eps, ms, "none")
    mean = corr_eval(loss, x, y, k, eps, ms, "mean")
    total = corr_eval(loss, x, y, k, eps, ms, "sum")
    if loss == "ncc" and ms.get("mask") is not None:
        # not reached on the pinned tree (K6); a repaired ncc_loss must at least stay in its range
        for o in (none, mean):
            if not bool(((o > -1e-3) & (o < 1 + 1e-3)).all()):
                raise Violation("ncc_masked_range", f"masked ncc_loss outside [0, 1]: {as64(o).ravel()[:4]}")
        return {"nontrivial": False, "labels": ["ncc", "masked"]}
    exp_shape = (shp[0],) if loss == "ncc" else shp
    if tuple(none.shape) != exp_shape:
        raise Violation("corr_none_shape", f"{loss}_loss(reduction='none') has shape {tuple(none.shape)}, expected {exp_shape}")
    score, B, C, nw, agg, Ms, Mt = corr_ref(loss, xr, yr, k, eps, m64s)
    bound = corr_bound(Ms, Mt, B, C, nw)
    wscore, denom, mb = weighted(score, agg, score.shape)
    wbound = bound if mb is None else np.where(mb > 0, bound * np.maximum(mb, 1e-300), 1e-30)
    labels = [loss, case["dtype"], f"D={case['D']}", f"N={shp[0]}", f"C={shp[1]}", f"k={case['k'] if not isinstance(case['k'], list) else 'tuple'}",
              "masks=" + "".join(c for c, key in (("m", "mask"), ("s", "source_mask"), ("t", "target_mask")) if case.get(key)),
              "maskkind=" + (case["mask"]["kind"] if case.get("mask") else "-"), "soft" if soft else "hard",
              "eps=" + str(eps)]
    n64 = as64(none)
    # reductions are the (mask-aware) sum / mean of the 'none' output
    s_abs = max(float(np.abs(n64).sum()), 1e-300)
    worst = max(worst, check_close(total, n64.sum(), 256 * EPS32 * s_abs, "reduction_sum_of_none", f"{loss}_loss 'sum' != sum of its 'none' output"))
    worst = max(worst, check_close(mean, n64.sum() / denom, 256 * EPS32 * s_abs / denom, "reduction_mean_of_none",
                                   f"{loss}_loss 'mean' != sum of its 'none' output / sum(mask)"))
    # range of the (mask-weighted) local scores
    hi = 1.0 if mb is None else mb
    if (n64 < -np.where(np.isfinite(wbound), wbound, 0) - 1e-6).any() or (n64 > hi * (1 + 1e-6) + np.where(np.isfinite(wbound), wbound, 0)).any():
        raise Violation("corr_range", f"{loss}_loss local values outside [0, mask]: min {n64.min():.6g} max {(n64 - hi).max():.6g} above")
    reference = not (loss == "wlcc" and soft)
    if reference:
        worst = max(worst, check_elem(none, wscore, wbound, "corr_reference_none",
                                      f"{loss}_loss(k={case['k']}, eps={eps}) 'none' vs brute-force window reference weighted by the mask"))
        ok = np.isfinite(wbound)
        if ok.all():
            bsum = float(wbound.sum()) + 256 * EPS32 * float(np.abs(wscore).sum())
            worst = max(worst, check_close(total, wscore.sum(), bsum, "corr_reference_sum", f"{loss}_loss 'sum' vs reference"))
            worst = max(worst, check_close(mean, wscore.sum() / denom, bsum / denom, "corr_reference_mean",
                                           f"{loss}_loss 'mean' vs reference sum(score*m)/sum(m)"))
        else:
            labels.append("ill_conditioned_windows")
    else:
        labels.append("soft_wlcc_structural_only")
    if loss == "wlcc" and not any(case.get(key) for key in ("mask", "source_mask", "target_mask")):
        # without any mask wlcc is lcc (different code path: plain window means)
        import deepali.losses.functional as L

        kw = {} if eps is None else {"epsilon": eps}
        o = L.lcc_loss(x, y, kernel_size=k, reduction="none", **kw)
        worst = max(worst, check_elem(none, as64(o), 2 * bound, "wlcc_without_masks_is_lcc", "wlcc_loss() without masks != lcc_loss()"))
    nt = bool(np.isfinite(wbound).mean() > 0.5) and (shp[0] >= 2 or mask_nontrivial(agg))
    return {"ratio": worst, "nontrivial": nt and reference, "labels": labels}


# ---------------------------------------------------------------------------------------
# facet 3: correlation axioms (identity, symmetry, affine invariance, range) on larger images


@st.composite
def corr_axiom_cases(draw):
    D = draw(gen.dims())
    k, lows = kernel_strategy(draw, D, 20 if D == 2 else 10, allow_aniso=True)
    case = images_base(draw, 20, 10, D=D, min_sizes=lows)
    case["k"] = k
    case["loss"] = draw(st.sampled_from(["ncc", "ncc", "lcc", "lcc", "wlcc"]))
    case["content"] = draw(st.sampled_from(["noise", "noise", "mix"]))
    case["dtype"] = draw(wide_dtypes(IMG_DTYPES))
    case["eps"] = draw(st.sampled_from([None, None, None, 1e-12]))
    case.update(corr_mask_strategy(draw, case["loss"]))
    sign = draw(st.sampled_from([1.0, 1.0, -1.0]))
    case["a"] = sign * draw(st.sampled_from([1.0, 0.01, 0.5, 2.0, 3.0, 100.0]))
    case["b"] = draw(st.sampled_from([0.0, 1.0, -2.0, 50.0, -300.0]))
    case["which"] = draw(st.sampled_from(["source", "target", "both"]))
    return case


def run_corr_axioms(case):
    loss = case["loss"]
    x, y, m64s, ms = corr_inputs(case)
    # a*x + b of reduced precision / integer images is stored as float32: rounding it to the storage type again would
    # not be an affine map of the stored values (the pair then has mixed dtypes, which the losses accept)
    dt = x.dtype if x.dtype in (torch.float32, torch.float64) else torch.float32
    xr, yr = f32(x), f32(y)
    k, eps = kernel_arg(case["k"]), case["eps"]
    e = 1e-15 if eps is None else eps
    shp = full_shape(case)
    # the reference is needed here only for the conditioning of each local score (tuple kernels in tensor-axis order)
    worst = 0.0

    def bounds(xa, ya):
        s = corr_ref(loss, xa, ya, k, eps, m64s)
        bc = s[1] * s[2]
        with np.errstate(divide="ignore", invalid="ignore"):
            rho2 = np.where(bc > 0, (1.0 - s[0]) * (bc + e) / np.where(bc > 0, bc, 1.0), 0.0)  # scale-free squared correlation
        return corr_bound(s[5], s[6], s[1], s[2], s[3]), eps_term(s[1], s[2], e), s[4], rho2

    if loss == "ncc" and ms.get("mask") is not None:
        corr_eval(loss, x, y, k, eps, ms, "none")  # K6: raises ncc_mask_rejected on the pinned tree
        return {"nontrivial": False, "labels": ["ncc", "masked"]}
    bxy, exy, agg, rho2 = bounds(xr, yr)
    mb = None if agg is None else np.broadcast_to(agg, bxy.shape)
    wm = 1.0 if mb is None else mb

    def wb(b):
        return b if mb is None else np.where(mb > 0, b * np.maximum(mb, 1e-300), 1e-30)

    o_xy = corr_eval(loss, x, y, k, eps, ms, "none")
    n_xy = as64(o_xy)
    labels = [loss, case["dtype"], f"D={case['D']}", f"N={shp[0]}", f"C={shp[1]}", "a<0" if case["a"] < 0 else "a>0",
              "b=0" if case["b"] == 0 else "b!=0", case["which"], "masked" if m64s else "unmasked",
              "k=aniso" if isinstance(k, tuple) and len(set(k)) > 1 else "k=iso"]
    # range
    fin = np.where(np.isfinite(bxy), bxy, 0.0)
    if (n_xy < -wb(fin) - 1e-6).any() or (n_xy > wm * (1 + 1e-6) + wb(fin)).any():
        raise Violation("corr_range", f"{loss}_loss outside [0, 1]: min {n_xy.min():.6g}, max {n_xy.max():.6g}")
    # symmetry under swapping the arguments (wlcc: swap the source/target masks as well)
    ms_sw = dict(ms)
    if loss == "wlcc":
        ms_sw["source_mask"], ms_sw["target_mask"] = ms.get("target_mask"), ms.get("source_mask")
        ms_sw = {kk: v for kk, v in ms_sw.items() if v is not None}
    o_yx = corr_eval(loss, y, x, k, eps, ms_sw, "none")
    worst = max(worst, check_elem(o_yx, n_xy, wb(2 * bxy), "corr_symmetry", f"{loss}_loss(y, x) != {loss}_loss(x, y)"))
    # identity => 0 (up to the epsilon regulariser and conditioning)
    ms_id = dict(ms)
    if loss == "wlcc" and (ms.get("source_mask") is None) != (ms.get("target_mask") is None):
        ms_id = {kk: v for kk, v in ms.items() if kk == "mask"}  # identical inputs need identical mean weights
        m64_id = {kk: v for kk, v in m64s.items() if kk == "mask"}
    elif loss == "wlcc" and ms.get("source_mask") is not None:
        ms_id = dict(ms, target_mask=ms["source_mask"])
        m64_id = dict(m64s, target_mask=m64s["source_mask"])
    else:
        m64_id = m64s
    sx = corr_ref(loss, xr, xr, k, eps, m64_id)
    bxx = corr_bound(sx[5], sx[6], sx[1], sx[2], sx[3])
    exx = eps_term(sx[1], sx[2], e)
    agg_id = sx[4]
    mbi = None if agg_id is None else np.broadcast_to(agg_id, bxx.shape)
    o_xx = corr_eval(loss, x, x, k, eps, ms_id, "none")
    # expected: the documented epsilon regulariser leaves epsilon / (B^2 + epsilon) (B in float32: relative slack 1e-3)
    bid = bxx + 1e-3 * exx
    wid = 1.0 if mbi is None else mbi
    bid = bid if mbi is None else np.where(mbi > 0, bid * np.maximum(mbi, 1e-300), 1e-30)
    worst = max(worst, check_elem(o_xx, exx * wid, bid, "corr_identity", f"{loss}_loss(x, x) != 0 (+ epsilon / (B^2 + epsilon))"))
    if np.isfinite(bid).all():
        o_mean = corr_eval(loss, x, x, k, eps, ms_id, "mean")
        den = float(bxx.size if mbi is None else mbi.sum())
        worst = max(worst, check_close(o_mean, float((exx * wid).sum()) / den, float(bid.sum()) / den + 256 * EPS32 * float((exx * wid).sum()) / den + 1e-300,
                                       "corr_identity", f"{loss}_loss(x, x) 'mean' != 0"))
    # invariance under intensity scale and offset a*x + b, a != 0
    a, b = case["a"], case["b"]
    x2 = T(a * as64(x) + b, dt) if case["which"] in ("source", "both") else x
    y2 = T(a * as64(y) + b, dt) if case["which"] in ("target", "both") else y
    b2, e2, _, _ = bounds(f32(x2), f32(y2))
    o2 = corr_eval(loss, x2, y2, k, eps, ms, "none")
    # loss = 1 - rho^2 (1 - t), t = epsilon / (B C + epsilon): rho^2 is invariant, the documented regulariser term t is
    # not (B C scales with a^2); its known change rho^2 (t' - t) is accounted for exactly (relative slack 1e-3 on t, t')
    shift = rho2 * (e2 - exy) * wm
    binv = wb(bxy + b2 + 1e-3 * (exy + e2))
    worst = max(worst, check_elem(o2, n_xy + shift, binv, "corr_affine_invariance",
                                  f"{loss}_loss changed under intensity map {a}*x+{b} of {case['which']}"))
    if np.isfinite(binv).all():
        den = float(bxy.size if mb is None else mb.sum())
        m1 = corr_eval(loss, x, y, k, eps, ms, "mean")
        m2 = corr_eval(loss, x2, y2, k, eps, ms, "mean")
        worst = max(worst, check_close(m2, as64(m1) + float(np.sum(shift)) / den, float(binv.sum()) / den + 256 * EPS32, "corr_affine_invariance",
                                       f"{loss}_loss 'mean' changed under intensity map {a}*x+{b} of {case['which']}"))
    else:
        labels.append("ill_conditioned_windows")
    nt = (a != 1.0 or b != 0.0) and bool(np.isfinite(binv).mean() > 0.5) and shp[0] >= 2
    return {"ratio": worst, "nontrivial": nt, "labels": labels}


# ---------------------------------------------------------------------------------------
# facet 4: mutual information


@st.composite
def mi_cases(draw):
    D = draw(gen.dims())
    shape = draw(st.lists(st.integers(4, 14) if D == 2 else st.integers(3, 6), min_size=D, max_size=D))
    mode = draw(st.sampled_from(["generic", "levels"]))
    bins = draw(st.integers(13, 64) if mode == "levels" else st.integers(8, 64))
    vmin = draw(st.sampled_from([0.0, 0.0, -1.0, 10.0]))
    case = {
        "D": D, "shape": shape, "N": draw(st.integers(1, 3)), "C": 1, "key": draw(st.integers(0, 10 ** 6)),
        "bins": bins, "vmin": vmin, "vmax": vmin + draw(st.sampled_from([1.0, 1.0, 16.0, 255.0])),
        "dtype": draw(gen.dtypes()), "mode": mode,
        # binary region-of-interest masks only: mi_loss multiplies the intensities by the mask, which has no documented meaning for soft weights
        "mask": draw(st.one_of(st.none(), mask_desc(("11", "N1"), soft=False))),
        "fill": draw(st.sampled_from([1.0, 1.0, 0.6])),  # fraction of [vmin, vmax] covered by the data (generic mode)
        "rel": draw(st.sampled_from([0.0, 0.5, 0.9])),
        # 'default': vmin / vmax are left to mi_loss (joint intensity range of the pair)
        "range": draw(st.sampled_from(["explicit", "explicit", "default"])),
    }
    if mode == "levels":
        case["range"] = "explicit"  # the levels must sit on interior bin centres of a known range
        case["levels"] = draw(st.integers(2, (bins - 7) // 6 + 1))
        case["mask"] = None
    return case


def mi_images(case):
    shp = full_shape(case)
    vmin, vmax, bins = case["vmin"], case["vmax"], case["bins"]
    if case["mode"] == "levels":
        step = (vmax - vmin) / (bins - 1)
        u = hash_noise(shp, case["key"], 0.0, 1.0)
        v = hash_noise(shp, case["key"] + 7919, 0.0, 1.0)
        ix = 3 + 6 * np.minimum((u * case["levels"]).astype(int), case["levels"] - 1)
        iy = 3 + np.minimum((v * (bins - 6)).astype(int), bins - 7)
        if case["rel"] > 0:  # make y depend on x for a part of the samples
            dep = hash_noise(shp, case["key"] + 13, 0.0, 1.0) < case["rel"]
            iy = np.where(dep, 3 + (ix * 7 + 1) % (bins - 6), iy)
        return vmin + step * ix, vmin + step * iy
    c = dict(case, lo=0.0, R=1.0)
    x, y = make_pair(c)
    f = case["fill"]
    off = vmin + (vmax - vmin) * (1 - f) / 2
    return off + (vmax - vmin) * f * x, off + (vmax - vmin) * f * y


def mi_reference(value_name, xr, yr, vmin, vmax, bins, dt):
    """(expected, bound) of mi_loss / nmi_loss from the float64 model, or None where rounding is not small.

    Rounding model: bin centres are float32 (torch.linspace) whatever the input dtype: |dc| <= 4 eps32 max(|vmin|,|vmax|);
    a window response exp(-u^2/2), u = (x - c)/sigma, that matters (u <= 9) changes relatively by <= u du = 9 dc/sigma
    plus 128 eps for the arithmetic; joint histogram entries are sums of n products of two responses; probabilities
    are ratios of such sums; an entropy -sum p log(p + 1e-5) changes by <= rho sum p (|log(p + 1e-5)| + 1)."""
    eps = eps_of(dt)
    r = R.mi(xr, yr, vmin, vmax, bins, normalized=(value_name == "nmi"))
    n = int(np.prod(xr.shape[2:]))
    dc = 4 * EPS32 * max(abs(r["vmin"]), abs(r["vmax"]))
    rho = 4 * (128 * eps + 9 * dc / r["sigma"]) + (2 * n + 16 + bins) * eps
    if not (rho <= 5e-3) or not np.isfinite(r["loss"]):
        return None
    if value_name == "nmi":
        if (r["Hxy"] < 0.1).any():
            return None
        per = 2 * rho * (r["Sx"] + r["Sy"] + (r["Hx"] + r["Hy"]) / r["Hxy"] * r["Sxy"]) / r["Hxy"]
    else:
        per = 2 * rho * (r["Sx"] + r["Sy"] + r["Sxy"])
    return r["loss"], float(per.mean()) + 16 * eps * (1 + abs(r["loss"]))


def run_mi(case):
    import deepali.losses.functional as L

    dt = tdtype(case["dtype"])
    eps = eps_of(dt)
    x64, y64 = mi_images(case)
    x, y = T(x64, dt), T(y64, dt)
    shp = full_shape(case)
    m = T(make_mask(case["mask"], shp, case["key"]), dt)
    bins = case["bins"]
    n = int(np.prod(case["shape"]))
    kw = dict(vmin=case["vmin"], vmax=case["vmax"], num_bins=bins)
    if case.get("range") == "default":
        kw = dict(num_bins=bins)
    # rounding: entries of the joint histogram are sums of n products (relative error <= n eps, first order); an
    # entropy -sum p log p changes by <= (H + 1) x that, H <= log(bins^2)
    b_round = (256 + n) * eps * (1 + 2 * math.log(bins))
    worst = 0.0
    refs = 0
    vals = {}
    for name, fn in (("mi", L.mi_loss), ("nmi", L.nmi_loss)):
        v_xy = fn(x, y, mask=m, **kw)
        v_yx = fn(y, x, mask=m, **kw)
        if v_xy.ndim != 0 or not bool(torch.isfinite(v_xy)):
            raise Violation("mi_value", f"{name}_loss returned {v_xy}")
        vals[name] = float(v_xy)
        scale = 3.0 if name == "mi" else 8.0  # d(nmi) <= (dHx + dHy + 2 dHxy) / Hxy; Hxy >= 0.8 by the blur of the Parzen window
        worst = max(worst, check_close(v_yx, as64(v_xy), scale * b_round, f"{name}_symmetry", f"{name}_loss(y, x) != {name}_loss(x, y)"))
        if m is None:
            # float64 Parzen-window model (explicit range, or the joint intensity range of the pair by default)
            rf = mi_reference(name, as64(x), as64(y), kw.get("vmin"), kw.get("vmax"), bins, dt)
            if rf is not None:
                refs += 1
                worst = max(worst, check_close(v_xy, rf[0], rf[1], f"{name}_reference", f"{name}_loss({', '.join(sorted(kw))}) vs float64 Parzen-window model"))
    # documented range of the normalised loss
    if not (-1e-3 <= vals["nmi"] <= 2 + 1e-3):
        raise Violation("nmi_range", f"nmi_loss = {vals['nmi']:.6g} outside the documented range [0, 2]")
    labels = [case["mode"], case["dtype"], f"N={shp[0]}", f"D={case['D']}", "bins<=16" if bins <= 16 else "bins>16",
              "mask=" + (case["mask"]["kind"] if case["mask"] else "none"), "range=" + case.get("range", "explicit"), f"refs={refs}"]
    if case["mode"] == "levels":
        v_xx = float(L.mi_loss(x, x, **kw))
        slack = (bins * bins + 2 * bins) * 1e-5 + 3 * b_round + 1e3 * eps * bins
        if v_xx > vals["mi"] + slack:
            raise Violation("mi_identity_minimum", f"mi_loss(x, x) = {v_xx:.6g} > mi_loss(x, y) = {vals['mi']:.6g} + slack {slack:.3g} "
                                                   f"(bins={bins}, levels={case['levels']})")
        gap = vals["mi"] - v_xx
        labels.append("gap>0.1" if gap > 0.1 else "gap<=0.1")
    return {"ratio": worst, "nontrivial": shp[0] >= 2 or case["mode"] == "levels", "labels": labels}


# ---------------------------------------------------------------------------------------
# facet 5: overlap measures


OVERLAP_SIZES = {  # size class -> (min, max) extent per axis for D = 2 / D = 3
    "small": {2: (1, 12), 3: (1, 6)},
    "mid": {2: (40, 70), 3: (12, 18)},      # 1 600 - 5 800 voxels: counts beyond the integer range of half precision
    "large": {2: (270, 330), 3: (42, 48)},  # >= 72 900 voxels: counts beyond the largest finite float16
}


@st.composite
def overlap_cases(draw):
    D = draw(gen.dims())
    size = draw(st.sampled_from(["small"] * 7 + ["mid"] * 2 + ["large"]))
    lo, hi = OVERLAP_SIZES[size][D]
    C = draw(st.integers(1, 3 if size == "small" else 2))
    target_form = draw(st.sampled_from(["same", "same", "same", "labels"]))
    dtype = draw(wide_dtypes(SEG_DTYPES))
    case = {
        "D": D, "shape": draw(st.lists(st.integers(lo, hi), min_size=D, max_size=D)),
        "N": draw(st.integers(1, 3 if size == "small" else 2)), "C": C, "key": draw(st.integers(0, 10 ** 6)),
        "p": draw(st.sampled_from([0.0, 0.2, 0.5, 0.8, 1.0])), "flip": draw(st.sampled_from([0.0, 0.1, 0.5])),
        "soft": draw(st.sampled_from([False, False, True])),
        "dtype": dtype,
        # storage dtype of the target / weight: None = that of the prediction
        "tdtype": draw(st.sampled_from([None, None, None] + list(SEG_DTYPES))),
        "wdtype": draw(st.sampled_from([None, None, None] + list(SEG_DTYPES))),
        "weight": draw(st.one_of(st.none(), mask_desc(("N1", "NC", "N")))),
        # a class that is empty in prediction and target (channel index, 'same' target form only)
        "empty": draw(st.one_of(st.none(), st.none(), st.integers(0, C - 1))),
        "alpha": draw(st.one_of(st.none(), gen.qfloat(0.0, 1.0, 0.05))),
        "beta": draw(st.one_of(st.none(), gen.qfloat(0.0, 1.0, 0.05))),
        "gamma": draw(st.sampled_from([None, None, 1.0, 1.5, 2.0, 3.0])),
        "eps": draw(st.sampled_from([None, None, 1e-15, 1e-6])),
        "reduction": draw(st.sampled_from(["none", "mean", "sum"])),
        "target_form": target_form,
        "size": size,
    }
    # soft maps / soft weights need a floating point storage type
    if target_form == "labels" or not (is_float_name(dtype) and is_float_name(case["tdtype"] or dtype)):
        case["soft"] = False
    if case["weight"] is not None and not is_float_name(case["wdtype"] or dtype):
        case["weight"] = dict(case["weight"], soft=False)
    return case


def overlap_maps(case):
    shp = full_shape(case)
    u = hash_noise(shp, case["key"], 0.0, 1.0)
    v = hash_noise(shp, case["key"] + 7919, 0.0, 1.0)
    if case["target_form"] == "labels" and case["C"] >= 2:
        # one-hot target from a label map; prediction = target with some labels changed
        lab = np.minimum((hash_noise((shp[0],) + shp[2:], case["key"] + 5, 0.0, 1.0) * case["C"]).astype(np.int64), case["C"] - 1)
        b = np.stack([(lab == c) for c in range(case["C"])], 1).astype(np.float64)
        a = np.where(v < case["flip"], (u < 0.5).astype(np.float64), b)
        return a, b, lab
    a = (u < case["p"]).astype(np.float64)
    b = np.where(v < case["flip"], 1.0 - a, a)
    if case["soft"]:
        a = np.round(a * 0.7 + 0.3 * v, 3)
        b = np.round(b * 0.6 + 0.4 * u, 3)
    if case.get("empty") is not None:
        a[:, case["empty"]] = 0.0
        b[:, case["empty"]] = 0.0
    lab = b[:, 0].astype(np.int64) if case["C"] == 1 else None
    return a, b, lab


def accepted(kind, what, fn, *args, **kw):
    """Call a deepali function with arguments of a documented form; a ValueError/TypeError rejection is the violation `kind`."""
    try:
        return fn(*args, **kw)
    except (ValueError, TypeError) as e:
        raise Violation(kind, f"{what} raised {type(e).__name__}: {str(e)[:160]}")


def run_overlap(case):
    import deepali.losses.functional as L

    dt = sdtype(case["dtype"])
    dt_b = sdtype(case.get("tdtype") or case["dtype"])
    dt_w = sdtype(case.get("wdtype") or case["dtype"])
    shp = full_shape(case)
    a64, b64, lab = overlap_maps(case)
    a, b = T(a64, dt), T(b64, dt_b)
    ar, br = f32(a), f32(b)  # the stored values (every storage dtype converts to float32 exactly, except float64)
    wd = case["weight"]
    w = T(make_mask(wd, shp, case["key"]), dt_w)
    w64 = None if w is None else f32(w)
    wref = None if w64 is None else (w64[:, None] if wd["kind"] == "N" else w64)
    w_dice = None if w is None else (w.unsqueeze(1) if wd["kind"] == "N" else w)
    eps = case["eps"]
    e = 1e-15 if eps is None else eps
    kw = {} if eps is None else {"epsilon": eps}
    red = case["reduction"]
    tol = 256 * EPS32
    binary = not case["soft"]
    worst = 0.0
    NC = shp[:2]

    # ---- Dice
    d_ab = L.dice_score(a, b, weight=w_dice, reduction="none", **kw)
    if tuple(d_ab.shape) != NC:
        raise Violation("dice_none_shape", f"dice_score(reduction='none') shape {tuple(d_ab.shape)} != (N, C) = {NC}")
    d64 = as64(d_ab)
    if not np.isfinite(d64).all() or (d64 < -tol).any() or (d64 > 1 + tol).any():
        raise Violation("dice_range", f"dice_score of {case['dtype']} maps outside [0, 1]: {np.nanmin(d64):.6g} .. {np.nanmax(d64):.6g}, {int((~np.isfinite(d64)).sum())} non-finite")
    worst = max(worst, check_close(L.dice_score(b, a, weight=w_dice, reduction="none", **kw), d64, tol, "dice_symmetry", "dice_score(b, a) != dice_score(a, b)"))
    worst = max(worst, check_close(L.dice_score(a, b, weight=w_dice, reduction=red, **kw), R.reduce_plain(d64, red), tol * max(1.0, d64.size if red == "sum" else 1),
                                   "dice_reduction", f"dice_score reduction {red!r} is not the {red} of the 'none' output"))
    dl = L.dice_loss(a, b, weight=w_dice, reduction="none", **kw)
    worst = max(worst, check_close(dl, 1 - d64, tol, "dice_loss_is_one_minus_score", "dice_loss != 1 - dice_score"))
    worst = max(worst, check_close(L.dice_loss(a, b, weight=w_dice, reduction=red, **kw), R.reduce_plain(1 - d64, red), tol * max(1.0, d64.size if red == "sum" else 1),
                                   "dice_reduction", f"dice_loss reduction {red!r} is not the {red} of the 'none' output"))
    if binary:
        worst = max(worst, check_close(L.dice_score(a, a, weight=w_dice, reduction="none", **kw), 1.0, 4 * EPS32, "dice_identity", "dice_score(a, a) != 1 for a binary map"))
        worst = max(worst, check_close(L.dice_loss(b, b, weight=w_dice, reduction=red, **kw), 0.0, 4 * EPS32 * (d64.size if red == "sum" else 1), "dice_identity", "dice_loss(b, b) != 0 for a binary map"))
        worst = max(worst, check_close(d_ab, R.dice_binary(ar, br, wref, e), tol, "dice_reference", "dice_score vs 2|A n B|/(|A|+|B|) on binary maps"))
    # the value is a function of the stored VALUES, not of the type they are stored in
    plain = (dt, dt_b) != (torch.float32, torch.float32) or (w is not None and dt_w != torch.float32)
    if plain:
        w32 = None if w_dice is None else w_dice.float()
        worst = max(worst, check_close(d_ab, as64(L.dice_score(a.float(), b.float(), weight=w32, reduction="none", **kw)), tol, "dice_storage_dtype",
                                       f"dice_score of maps stored as {case['dtype']} / {case.get('tdtype')} / weight {case.get('wdtype')} != dice_score of the same values stored as float32"))

    # ---- Tversky index
    alpha, beta = case["alpha"], case["beta"]
    if alpha is None and beta is None:
        al = be = 0.5
    elif alpha is None:
        al, be = 1 - beta, beta
    elif beta is None:
        al, be = alpha, 1 - alpha
    else:
        al, be = alpha, beta
    tkw = dict(kw)
    if alpha is not None:
        tkw["alpha"] = alpha
    if beta is not None:
        tkw["beta"] = beta
    # F26: a 1-channel weight with a 1-channel prediction is rejected
    t_ab = accepted("tversky_weight_rejected", f"tversky_index(input {tuple(a.shape)}, target {tuple(b.shape)}, weight {None if w is None else tuple(w.shape)})",
                    L.tversky_index, a, b, weight=w, reduction="none", **tkw)
    if tuple(t_ab.shape) != NC:
        raise Violation("tversky_none_shape", f"tversky_index(reduction='none') shape {tuple(t_ab.shape)} != (N, C) = {NC}")
    t64 = as64(t_ab)
    if not np.isfinite(t64).all() or (t64 < -tol).any() or (t64 > 1 + tol).any():
        raise Violation("tversky_range", f"tversky_index of {case['dtype']} maps outside [0, 1]: {np.nanmin(t64):.6g} .. {np.nanmax(t64):.6g}, {int((~np.isfinite(t64)).sum())} non-finite")
    if plain:
        worst = max(worst, check_close(t_ab, as64(L.tversky_index(a.float(), b.float(), weight=None if w is None else w.float(), reduction="none", **tkw)), tol,
                                       "tversky_storage_dtype", f"tversky_index of maps stored as {case['dtype']} / {case.get('tdtype')} / weight {case.get('wdtype')} "
                                                                "!= tversky_index of the same values stored as float32"))
    # swapping prediction and target exchanges false positives and false negatives
    skw = dict(kw, alpha=be, beta=al)
    worst = max(worst, check_close(L.tversky_index(b, a, weight=w, reduction="none", **skw), t64, tol, "tversky_swap_symmetry",
                                   "tversky_index(b, a, alpha=beta0, beta=alpha0) != tversky_index(a, b, alpha0, beta0)"))
    worst = max(worst, check_close(L.tversky_index(a, b, weight=w, reduction=red, **tkw), R.reduce_plain(t64, red), tol * max(1.0, t64.size if red == "sum" else 1),
                                   "tversky_reduction", f"tversky_index reduction {red!r} is not the {red} of the 'none' output"))
    if binary:
        worst = max(worst, check_close(L.tversky_index(a, a, weight=w, reduction="none", **tkw), 1.0, 4 * EPS32, "tversky_identity", "tversky_index(a, a) != 1 for a binary map"))
        worst = max(worst, check_close(t_ab, R.tversky_binary(ar, br, wref, al, be, e), tol, "tversky_reference", f"tversky_index(alpha={al}, beta={be}) vs TP/(TP+a FP+b FN)"))
        # alpha = beta = 1/2 on binary inputs is Dice
        t_half = L.tversky_index(a, b, weight=w, alpha=0.5, beta=0.5, reduction="none", **kw)
        tol_d = tol + 100 * e  # epsilon enters the two formulas differently; weighted counts are 0 or >= 0.05
        worst = max(worst, check_close(t_half, d64, tol_d, "tversky_half_is_dice", "tversky_index(alpha=beta=1/2) != dice_score on binary inputs"))
        t_def = L.tversky_index(a, b, weight=w, reduction="none", **kw)
        worst = max(worst, check_close(t_def, d64, tol_d, "tversky_half_is_dice", "tversky_index(default alpha, beta) != dice_score on binary inputs"))
    differ = bool((ar != br).any())

    def result():
        return {"ratio": worst, "nontrivial": differ and shp[0] >= 2,
                "labels": ["binary" if binary else "soft", f"C={shp[1]}", f"N={shp[0]}", f"D={case['D']}", "weight=" + (wd["kind"] if wd else "none"),
                           case["dtype"], "tdtype=" + str(case.get("tdtype")), "wdtype=" + (str(case.get("wdtype")) if wd else "-"), "size=" + case.get("size", "small"),
                           "empty_class" if bool(((ar.reshape(NC + (-1,)) == 0).all(2) & (br.reshape(NC + (-1,)) == 0).all(2)).any()) else "no_empty_class",
                           "gamma" if case["gamma"] and case["gamma"] > 1 else "nogamma", case["target_form"], "a=b" if al == be else "a!=b", red]}

    # regression witnesses may carry 'upto' to stop after the section they are about (never generated)
    if case.get("upto") == "index":
        return result()
    # ---- documented target forms: label map (N, ..., X)
    if case["target_form"] == "labels" and lab is not None:
        lab_t = torch.tensor(lab, dtype=dt_b) if case["C"] == 1 else torch.tensor(lab)
        t_lab = accepted("tversky_label_map_target_rejected", f"tversky_index(input {tuple(a.shape)}, target labels {tuple(lab_t.shape)} {lab_t.dtype})",
                         L.tversky_index, a, lab_t, weight=w, reduction="none", **tkw)
        worst = max(worst, check_close(t_lab, t64, tol, "tversky_label_map_target", "tversky_index with a label map target (N, ..., X) != one-hot target"))
    if case.get("upto") == "labels":
        return result()
    # ---- Tversky loss = 1 - index, focal exponent
    gamma = case["gamma"]
    lkw = dict(tkw)
    if gamma is not None:
        lkw["gamma"] = gamma
    g = 1.0 if gamma is None else gamma
    exp_none = np.clip(1 - t64, 0.0, None) ** g
    # F11: gamma is passed on to tversky_index, which does not take it
    tl = accepted("tversky_loss_raises", f"tversky_loss(gamma={gamma})", L.tversky_loss, a, b, weight=w, reduction="none", **lkw)
    worst = max(worst, check_close(tl, exp_none, tol * max(1.0, g), "tversky_loss_is_one_minus_index", f"tversky_loss(gamma={gamma}) != (1 - tversky_index)^gamma"))
    worst = max(worst, check_close(L.tversky_loss(a, b, weight=w, reduction=red, **lkw), R.reduce_plain(exp_none, red), tol * max(1.0, g) * max(1.0, t64.size if red == "sum" else 1),
                                   "tversky_reduction", f"tversky_loss reduction {red!r}"))
    return result()


# ---------------------------------------------------------------------------------------
# facet 6: modules of losses.image against the functional forms

MODULES = ("MSE", "L2ImageLoss", "SSD", "MAE", "L1ImageLoss", "HuberImageLoss", "SmoothL1ImageLoss", "NCC", "LCC", "LNCC", "WLCC", "SLCC",
           "Dice", "DSC", "MI", "NMI")


@st.composite
def module_cases(draw):
    cls = draw(st.sampled_from(MODULES))
    mi = cls in ("MI", "NMI")
    D = draw(gen.dims())
    ksz = None
    if cls in ("LCC", "LNCC", "WLCC", "SLCC"):
        ksz = draw(st.sampled_from([None, 3, 5, 7, 9] if D == 2 else [None, 3, 5, 7]))  # None = default kernel size 7
    low = 3 if ksz is None and cls not in ("LCC", "LNCC", "WLCC", "SLCC") else (7 if ksz is None else ksz)
    case = images_base(draw, 12, 8, D=D, min_sizes=[low] * D, max_c=1 if mi else 3)
    case["cls"] = cls
    # overlap and correlation losses convert their inputs to float32: every storage dtype they accept
    case["dtype"] = draw(wide_dtypes(SEG_DTYPES) if cls in ("Dice", "DSC") else
                         (wide_dtypes(IMG_DTYPES) if cls in ("NCC", "LCC", "LNCC", "WLCC", "SLCC") else gen.dtypes()))
    case["content"] = "noise"
    kinds = ("11", "N1") if mi else ("11", "N1", "NC")
    if cls in ("Dice", "DSC"):
        kinds = ("N1", "NC")
    case["mask"] = draw(st.one_of(st.none(), mask_desc(kinds, soft=not mi)))
    if cls == "NCC" and k6_active():
        case["mask"] = None
    opts = {}
    if cls in ("MSE", "L2ImageLoss", "SSD", "MAE", "L1ImageLoss", "HuberImageLoss", "SmoothL1ImageLoss"):
        opts["norm"] = draw(st.sampled_from(["none", "false", "value", "value", "images", "true_images", "source_only"]))
        opts["norm_value"] = draw(gen.logfloat(0.01, 100.0))
        if cls in ("HuberImageLoss", "SmoothL1ImageLoss"):
            opts["thr_name"] = draw(st.sampled_from(["none", "delta", "beta", "delta", "beta"]))
            opts["thr"] = draw(st.sampled_from([0.1, 0.25, 0.5, 2.0])) * case["R"]
    elif cls in ("NCC", "LCC", "LNCC", "WLCC", "SLCC", "Dice", "DSC"):
        opts["epsilon"] = draw(st.sampled_from([None, 1e-15, 1e-4, 1e-2, 1.0]))
        if cls not in ("NCC", "Dice", "DSC"):
            opts["kernel_size"] = [ksz] * D if ksz is not None and draw(st.booleans()) else ksz
        if cls in ("WLCC", "SLCC"):
            opts["source_mask"] = draw(st.one_of(st.none(), mask_desc(("11", "N1", "NC"))))
            opts["target_mask"] = draw(st.one_of(st.none(), mask_desc(("11", "N1", "NC"))))
    else:
        opts["bins_name"] = draw(st.sampled_from(["num_bins", "bins"]))
        opts["bins"] = draw(st.sampled_from([8, 16, 32]))
        opts["normalized"] = draw(st.booleans()) if cls == "MI" else None
    case["opts"] = opts
    return case


def run_modules(case):
    import deepali.losses as LM
    import deepali.losses.functional as L

    cls = case["cls"]
    opts = case["opts"]
    dt = sdtype(case["dtype"])
    eps = eps_of(dt)
    shp = full_shape(case)
    if cls in ("Dice", "DSC"):
        x64, y64 = make_pair(case)
        x64, y64 = (x64 > np.median(x64)).astype(np.float64), (y64 > np.median(y64)).astype(np.float64)
        mdt = sdtype(side_mask_dtype_name(case["dtype"]))
    else:
        x64, y64 = stored_pair(case)
        mdt = sdtype(mask_dtype_name(case["dtype"]))
    sdt = sdtype(side_mask_dtype_name(case["dtype"]))
    x, y = T(x64, dt), T(y64, dt)
    m = T(make_mask(case["mask"], shp, case["key"]), mdt)
    ctor = getattr(LM, cls)
    labels = [cls, case["dtype"], "mask=" + (case["mask"]["kind"] if case["mask"] else "none")]
    alt = None  # functional value with the option left at its default (non-triviality of the option)

    if cls in ("MSE", "L2ImageLoss", "SSD", "MAE", "L1ImageLoss", "HuberImageLoss", "SmoothL1ImageLoss"):
        fn = {"MSE": L.mse_loss, "L2ImageLoss": L.mse_loss, "SSD": L.ssd_loss, "MAE": L.mae_loss, "L1ImageLoss": L.mae_loss,
              "HuberImageLoss": L.huber_loss, "SmoothL1ImageLoss": L.smooth_l1_loss}[cls]
        ckw, fkw = {}, {}
        nm = opts["norm"]
        xr, yr = as64(x), as64(y)
        if nm == "false":
            ckw["norm"] = False
        elif nm == "value":
            ckw["norm"] = opts["norm_value"]
            fkw["norm"] = opts["norm_value"]
        elif nm in ("images", "true_images"):
            ckw.update(source=x, target=y)
            if nm == "true_images":
                ckw["norm"] = True
            fkw["norm"] = R.max_difference_sq(xr, yr)
        elif nm == "source_only":
            ckw.update(source=x)
            fkw["norm"] = R.max_difference_sq(xr, xr)
        if cls in ("HuberImageLoss", "SmoothL1ImageLoss"):
            own = "delta" if cls == "HuberImageLoss" else "beta"
            if opts["thr_name"] != "none":
                ckw[opts["thr_name"]] = opts["thr"]
                fkw[own] = opts["thr"]
                alt = fn(x, y, mask=m, **{k: v for k, v in fkw.items() if k != own})
        mod = ctor(**ckw)
        got = mod(x, y, mask=m)
        want = fn(x, y, mask=m, **fkw)
        labels += ["norm=" + nm, "thr=" + opts.get("thr_name", "-")]
        rel = 64 * eps if nm in ("images", "true_images", "source_only") else 4 * eps
    elif cls in ("NCC", "LCC", "LNCC", "WLCC", "SLCC"):
        ckw, fkw = {}, {}
        if opts["epsilon"] is not None:
            ckw["epsilon"] = fkw["epsilon"] = opts["epsilon"]
        if opts.get("kernel_size") is not None:
            ks = kernel_arg(opts["kernel_size"])
            ckw["kernel_size"] = fkw["kernel_size"] = ks
        # the same call without the epsilon option (is the option observable?); the kernel size is kept because
        # the default kernel (7) may exceed the image
        alt_kw = {kk: v for kk, v in fkw.items() if kk == "kernel_size"}
        mod = ctor(**ckw)
        if cls == "NCC":
            got = call_ncc(mod, x, y, m)
            want = call_ncc(L.ncc_loss, x, y, m, **fkw)
            alt = L.ncc_loss(x, y) if m is None and fkw else None
        elif cls in ("LCC", "LNCC"):
            got = mod(x, y, mask=m)
            want = L.lcc_loss(x, y, mask=m, **fkw)
            alt = L.lcc_loss(x, y, mask=m, **alt_kw) if fkw else None
        else:
            sm, tm = T(make_mask(opts["source_mask"], shp, case["key"]), sdt), T(make_mask(opts["target_mask"], shp, case["key"]), sdt)
            got = mod(x, y, mask=m, source_mask=sm, target_mask=tm)
            want = L.wlcc_loss(x, y, mask=m, source_mask=sm, target_mask=tm, **fkw)
            alt = L.wlcc_loss(x, y, mask=m, source_mask=sm, target_mask=tm, **alt_kw) if fkw else None
        labels += ["eps=" + str(opts["epsilon"]), "k=" + str(opts.get("kernel_size"))]
        rel = 4 * eps_of(torch.float32)
    elif cls in ("Dice", "DSC"):
        ckw = {} if opts["epsilon"] is None else {"epsilon": opts["epsilon"]}
        mod = ctor(**ckw)
        got = mod(x, y, mask=m)
        want = L.dice_loss(x, y, weight=m, **ckw)
        alt = L.dice_loss(x, y, weight=m) if ckw else None
        labels += ["eps=" + str(opts["epsilon"])]
        rel = 4 * eps_of(torch.float32)
    else:
        vmin, vmax = case["lo"], case["lo"] + case["R"]
        ckw = {"vmin": vmin, "vmax": vmax, opts["bins_name"]: opts["bins"]}
        fkw = {"vmin": vmin, "vmax": vmax, "num_bins": opts["bins"]}
        if cls == "MI":
            if opts["normalized"]:
                ckw["normalized"] = True
            fn = L.nmi_loss if opts["normalized"] else L.mi_loss
            other = L.mi_loss if opts["normalized"] else L.nmi_loss
        else:
            fn, other = L.nmi_loss, L.mi_loss
        mod = ctor(**ckw)
        got = mod(x, y, mask=m)
        want = fn(x, y, mask=m, **fkw)
        alt = other(x, y, mask=m, **fkw)
        labels += [f"bins={opts['bins']}", "normalized" if fn is L.nmi_loss else "plain"]
        rel = 64 * eps
    if not isinstance(got, torch.Tensor) or got.shape != want.shape:
        raise Violation("module_mismatch_" + cls, f"{cls}(...)(x, y) returned {type(got).__name__} {getattr(got, 'shape', None)}, functional form {tuple(want.shape)}")
    scale = max(1e-30, float(want.abs().max())) if want.numel() else 1.0
    ratio = check_close(got, as64(want), rel * scale, "module_mismatch_" + cls, f"{cls}({', '.join(sorted(ckw))}) vs functional form with the same options")
    nt = (alt is not None and float((alt.double() - want.double()).abs().max()) > 1e3 * rel * scale) or opts.get("kernel_size") is not None
    return {"ratio": ratio, "nontrivial": bool(nt), "labels": labels}


# ---------------------------------------------------------------------------------------
# facet 7: loss modules are stateless functions of their constructor arguments and their inputs
#
# One instance of a loss class is called 2-4 times with image pairs that differ in intensity range, shape, number of
# spatial dimensions, batch size, channels, dtype, mask presence and requires_grad.  EVERY call must agree with the
# functional form, with a freshly constructed instance and (where a model exists) with the float64 reference; the
# constructor attributes / buffers / state_dict of the instance and all input tensors must be unchanged afterwards.

POINT_FAMILY = {"mse": "mse", "ssd": "ssd", "mae": "mae", "huber": "huber", "smooth_l1": "smooth_l1"}


def loss_class_names():
    """Names of all concrete pairwise image loss classes exported by deepali.losses (aliases included), enumerated
    from the package so that a class added later is picked up (without an adapter: counted as skipped)."""
    import inspect

    import deepali.losses as LM
    from deepali.losses.base import PairwiseImageLoss

    return sorted(n for n, c in vars(LM).items() if isinstance(c, type) and issubclass(c, PairwiseImageLoss) and not inspect.isabstract(c))


def loss_family(name):
    import deepali.losses as LM

    cls = getattr(LM, name)
    table = ((LM.PatchwiseImageLoss, "patch"), (LM.NMI, "mi"), (LM.MI, "mi"), (LM.WLCC, "wlcc"), (LM.LCC, "lcc"), (LM.NCC, "ncc"),
             (LM.Dice, "dice"), (LM.HuberImageLoss, "huber"), (LM.SmoothL1ImageLoss, "smooth_l1"), (LM.L1ImageLoss, "mae"),
             (LM.L2ImageLoss, "mse"), (LM.SSD, "ssd"))
    for c, fam in table:
        if cls is c:
            return fam
    return None


PATCH_INNER = ("default", "default", "SSD", "MSE", "MAE", "NCC", "NCC")


@st.composite
def sequence_cases(draw):
    cls = draw(st.sampled_from(loss_class_names()))
    fam = loss_family(cls)
    case = {"cls": cls, "family": fam}
    if fam is None:
        return case
    windowed = fam in ("lcc", "wlcc")
    opts = {}
    same_D = None
    ksz = None
    if fam in POINT_FAMILY:
        opts["norm"] = draw(st.sampled_from(["none", "false", "value", "value", "images", "true_images"]))
        opts["norm_value"] = draw(gen.logfloat(0.01, 100.0))
        opts["norm_form"] = draw(st.sampled_from(["float", "float", "tensor0", "tensor1"]))  # form of a given norm value
        if fam in ("huber", "smooth_l1"):
            opts["thr_name"] = draw(st.sampled_from(["none", "delta", "beta"]))
            opts["thr"] = draw(st.sampled_from([0.05, 0.25, 0.5, 2.0]))
    elif fam in ("ncc", "lcc", "wlcc", "dice"):
        opts["epsilon"] = draw(st.sampled_from([None, None, 1e-15, 1e-4, 1e-2]))
        if windowed:
            ksz = draw(st.sampled_from([None, 3, 3, 5]))  # None = default kernel size 7
            opts["kernel_size"] = ksz
            opts["kernel_tuple"] = ksz is not None and draw(st.booleans())  # a tuple fixes the number of dimensions
            if opts["kernel_tuple"]:
                same_D = draw(gen.dims())
    elif fam == "mi":
        opts["range"] = draw(st.sampled_from(["default", "default", "explicit"]))
        opts["bins_name"] = draw(st.sampled_from(["num_bins", "bins"]))
        opts["bins"] = draw(st.sampled_from([8, 16, 16, 32, 32, None]))  # None: default number of bins (no reference value asserted)
        opts["normalized"] = draw(st.booleans())  # only used by the class MI (NMI is always normalised)
    else:
        same_D = 3
        opts["inner"] = draw(st.sampled_from(PATCH_INNER))
        opts["norm_value"] = draw(gen.logfloat(0.01, 100.0))
        opts["pshape"] = [draw(st.integers(1, 3)), draw(st.integers(1, 4)), draw(st.integers(1, 4))]
        opts["pkey"] = draw(st.integers(0, 9999))
        opts["pdtype"] = draw(gen.dtypes())
    low = (7 if ksz is None else ksz) if windowed else (3 if fam == "mi" else 1)
    soft = fam not in ("mi", "patch") and (fam != "wlcc" or draw(st.booleans()))  # wlcc: reference model for binary masks only
    calls = []
    for _ in range(draw(st.integers(2, 4))):
        D = same_D if same_D is not None else draw(gen.dims())
        c = images_base(draw, 12, 8 if windowed else 6, D=D, min_sizes=[low] * D, max_c=1 if fam == "mi" else 3)
        if calls and draw(st.integers(0, 2)) == 0:
            # same geometry as the previous call, new content: state kept from it would fit and silently change the value
            c.update({k: calls[-1][k] for k in ("D", "shape", "N", "C")})
        c["dtype"] = draw(wide_dtypes(SEG_DTYPES) if fam == "dice" else (wide_dtypes(IMG_DTYPES) if fam in ("ncc", "lcc", "wlcc") else gen.dtypes()))
        c["grad"] = draw(st.sampled_from([False, False, True])) and is_float_name(c["dtype"])
        c["content"] = "noise"
        kinds = ("11", "N1") if fam == "mi" else (("N1", "NC") if fam == "dice" else (("N1",) if fam == "patch" else ("11", "N1", "NC", "1C")))
        c["mask"] = draw(st.one_of(*[st.none()] * (3 if fam == "mi" else 1), mask_desc(kinds, soft=soft)))
        if fam == "ncc" and k6_active():
            c["mask"] = None
        if fam == "patch":
            if opts["inner"] == "NCC" and k6_active():
                c["mask"] = None
            if c["mask"] is not None:
                c["C"] = 1  # grid_sample_mask: single-channel mask of the shape of the images
        if fam == "wlcc":
            form = draw(st.sampled_from(["none", "m", "st", "st", "mst", "s", "t"]))  # documented combinations of the three masks
            md = mask_desc(("11", "N1", "NC"), soft=soft)
            c["mask"] = draw(mask_desc(kinds, soft=soft)) if "m" in form else None
            c["source_mask"] = draw(md) if "s" in form else None
            c["target_mask"] = draw(md) if "t" in form else None
        calls.append(c)
    if fam == "mi" and opts["range"] == "explicit":
        opts["vmin"] = min(c["lo"] for c in calls)
        opts["vmax"] = max(c["lo"] + c["R"] for c in calls)
    case["opts"] = opts
    case["calls"] = calls
    return case


def seq_tensors(case, c):
    """float64 arrays and tensors of one call: x, y, masks (dict name -> array)."""
    fam = case["family"]
    shp = full_shape(c)
    if fam == "dice":
        x64, y64 = make_pair(c)
        x64, y64 = (x64 > np.median(x64)).astype(np.float64), (y64 > np.median(y64)).astype(np.float64)
    else:
        x64, y64 = stored_pair(c)
    masks = {}
    for key in ("mask", "source_mask", "target_mask"):
        if c.get(key) is not None:
            masks[key] = make_mask(c[key], shp, c["key"])
    return x64, y64, masks


def freeze(v):
    """Hashable, comparable snapshot of an attribute value (type-exact)."""
    if isinstance(v, torch.Tensor):
        # raw bytes through a uint8 view: numpy has no bfloat16
        return ("tensor", str(v.dtype), tuple(v.shape), bool(v.requires_grad), v.detach().cpu().contiguous().reshape(-1).view(torch.uint8).numpy().tobytes())
    if isinstance(v, torch.nn.Module):
        return ("module", type(v).__qualname__, module_state(v))
    if isinstance(v, (list, tuple)):
        return (type(v).__name__,) + tuple(freeze(u) for u in v)
    if isinstance(v, (set, frozenset)):
        return (type(v).__name__,) + tuple(sorted(repr(u) for u in v))
    if isinstance(v, dict):
        return ("dict",) + tuple((repr(k), freeze(u)) for k, u in v.items())
    return (type(v).__name__, repr(v))


_TORCH_INTERNAL = None


def module_state(mod):
    """Snapshot of the attributes of a module: everything in its __dict__ except torch's hook registries; parameters,
    buffers (persistent or not) and sub-modules are included, i.e. state_dict() is covered."""
    global _TORCH_INTERNAL
    if _TORCH_INTERNAL is None:
        _TORCH_INTERNAL = set(vars(torch.nn.Module())) - {"training", "_parameters", "_buffers", "_modules", "_non_persistent_buffers_set"}
    return tuple((k, freeze(v)) for k, v in sorted(vars(mod).items()) if k not in _TORCH_INTERNAL)


def state_changes(before, after):
    """Names of the attributes present after construction whose value (or type) differs now, and of parameters /
    buffers / sub-modules that appeared.  New plain attributes are not reported (a correctly keyed cache is legitimate)."""
    a = dict(after)
    return [k for k, v in before if k not in a or a[k] != v]


def corr_mean_reference(loss, xr, yr, k, eps, m64s):
    """(expected, bound) of the default 'mean' reduction of ncc/lcc/wlcc from the brute-force model, or None."""
    score, B, C, nw, agg, Ms, Mt = corr_ref(loss, xr, yr, k, eps, m64s)
    bound = corr_bound(Ms, Mt, B, C, nw)
    wscore, denom, mb = weighted(score, agg, score.shape)
    wbound = bound if mb is None else np.where(mb > 0, bound * np.maximum(mb, 1e-300), 1e-30)
    if not np.isfinite(wbound).all():
        return None
    bsum = float(wbound.sum()) + 256 * EPS32 * float(np.abs(wscore).sum())
    return float(wscore.sum()) / denom, bsum / denom


def pointwise_default_reference(name, param, xr, yr, m, nrm, norm_slack_eps, eps):
    """(expected, bound) of a pointwise loss with its documented default reduction ('sum' for ssd, else 'mean')."""
    elem = R.pointwise(name, xr, yr, param)
    mb = None if m is None else np.broadcast_to(m, elem.shape)
    red = "sum" if name == "ssd" else "mean"
    exp = float(R.reduce_masked(elem, m, red, nrm))
    wsum = float(np.abs(elem if mb is None else elem * mb).sum())
    b = 256 * eps * max(wsum, 1e-300) / nrm / (1.0 if red == "sum" else float(elem.size if mb is None else mb.sum()))
    return exp, b + 64 * norm_slack_eps * abs(exp)


def patch_reshape(t):
    """(N, C, Z, Y, X) -> (N Z, C, 1, Y, X): every 2-D patch becomes one image of the batch."""
    N, C, Z, Y, X = t.shape
    return torch.stack([t[n, :, z] for n in range(N) for z in range(Z)], 0).unsqueeze(2)


def run_sequence(case):
    import deepali.core.functional as U
    import deepali.losses as LM
    import deepali.losses.functional as L
    fam = case["family"]
    cls = case["cls"]
    if fam is None or loss_family(cls) != fam:
        raise Skip(f"no adapter for loss class {cls}")
    opts = case["opts"]
    calls = case["calls"]
    ctor = getattr(LM, cls)
    first = seq_tensors(case, calls[0])
    dt0 = sdtype(calls[0]["dtype"])
    ctor_tensors = {}  # tensors handed to the constructor (must not be modified either)
    norm_slack_eps = 0.0
    nrm_ref = None  # reference value of a data-derived / given norm

    # ---- constructor arguments, functional form, reference model
    ckw, fkw = {}, {}
    fn = None
    if fam in POINT_FAMILY:
        fn = {"mse": L.mse_loss, "ssd": L.ssd_loss, "mae": L.mae_loss, "huber": L.huber_loss, "smooth_l1": L.smooth_l1_loss}[fam]
        nm = opts["norm"]
        if nm == "false":
            ckw["norm"] = False
        elif nm == "value":
            fkw["norm"] = nrm_ref = opts["norm_value"]
            if opts["norm_form"] == "float":
                ckw["norm"] = opts["norm_value"]
            else:  # 0-dim / 1-element tensor of the dtype of the first pair; the functional form gets its own copy
                ctor_tensors = {"norm": torch.tensor(opts["norm_value"] if opts["norm_form"] == "tensor0" else [opts["norm_value"]], dtype=dt0)}
                ckw.update(ctor_tensors)
                fkw["norm"] = nrm_ref = float(ctor_tensors["norm"].reshape(()))
        elif nm in ("images", "true_images"):
            ctor_tensors = {"source": T(first[0], dt0), "target": T(first[1], dt0)}
            ckw.update(ctor_tensors)
            if nm == "true_images":
                ckw["norm"] = True
            fkw["norm"] = nrm_ref = R.max_difference_sq(as64(ctor_tensors["source"]), as64(ctor_tensors["target"]))
            norm_slack_eps = eps_of(dt0)
        param = 1.0
        if fam in ("huber", "smooth_l1") and opts["thr_name"] != "none":
            param = opts["thr"]
            ckw[opts["thr_name"]] = param
            fkw["delta" if fam == "huber" else "beta"] = param
    elif fam in ("ncc", "lcc", "wlcc", "dice"):
        if opts["epsilon"] is not None:
            ckw["epsilon"] = fkw["epsilon"] = opts["epsilon"]
        if fam in ("lcc", "wlcc") and opts["kernel_size"] is not None:
            ks = (opts["kernel_size"],) * calls[0]["D"] if opts["kernel_tuple"] else opts["kernel_size"]
            ckw["kernel_size"] = fkw["kernel_size"] = ks
    elif fam == "mi":
        if opts["range"] == "explicit":
            ckw.update(vmin=opts["vmin"], vmax=opts["vmax"])
            fkw.update(vmin=opts["vmin"], vmax=opts["vmax"])
        if opts["bins"] is not None:
            ckw[opts["bins_name"]] = opts["bins"]
            fkw["num_bins"] = opts["bins"]
        normalized = True if ctor is LM.NMI else bool(opts["normalized"])
        if ctor is LM.MI and normalized:
            ckw["normalized"] = True
        fn = L.nmi_loss if normalized else L.mi_loss
    else:
        ctor_tensors = {"patches": T(hash_noise((1,) + tuple(opts["pshape"]) + (3,), opts["pkey"], -1.05, 1.05), tdtype(opts["pdtype"]))}
        inner = opts["inner"]
        fn = {"default": L.ssd_loss, "SSD": L.ssd_loss, "MSE": L.mse_loss, "MAE": L.mae_loss, "NCC": L.ncc_loss}[inner]
        if inner == "MSE":
            fkw["norm"] = opts["norm_value"]

    def construct():
        if fam != "patch":
            return ctor(**ckw)
        inner = opts["inner"]
        if inner == "default":
            return ctor(ctor_tensors["patches"])
        sub = LM.MSE(norm=opts["norm_value"]) if inner == "MSE" else getattr(LM, inner)()
        return ctor(ctor_tensors["patches"], loss_fn=sub)

    def functional(x, y, ms):
        """The functional form of deepali.losses.functional with the constructor's options."""
        m = ms.get("mask")
        if fam in POINT_FAMILY or fam == "mi":
            return fn(x, y, mask=m, **fkw)
        if fam == "ncc":
            return call_ncc(L.ncc_loss, x, y, m, **fkw)
        if fam == "lcc":
            return L.lcc_loss(x, y, mask=m, **fkw)
        if fam == "wlcc":
            return L.wlcc_loss(x, y, mask=m, source_mask=ms.get("source_mask"), target_mask=ms.get("target_mask"), **fkw)
        if fam == "dice":
            return L.dice_loss(x, y, weight=m, **fkw)
        # patch loss = the pairwise loss of the sampled 2-D patches, each patch one image of the batch
        g = ctor_tensors["patches"]
        s, t = patch_reshape(U.grid_sample(x, g)), patch_reshape(U.grid_sample(y, g))
        pm = None if m is None else patch_reshape(U.grid_sample_mask(m, g))
        if opts["inner"] == "NCC":
            return call_ncc(L.ncc_loss, s, t, pm)
        return fn(s, t, mask=pm, **fkw)

    def module_call(mod, x, y, ms):
        if fam == "ncc":
            return call_ncc(mod, x, y, ms.get("mask"))
        if fam == "patch" and opts["inner"] == "NCC" and ms.get("mask") is not None:
            return call_ncc(mod, x, y, ms.get("mask"))
        return mod(x, y, **ms) if fam == "wlcc" else mod(x, y, mask=ms.get("mask"))

    def reference(xr, yr, m64s, dt, c):
        """(expected, bound) from the float64 model for the values deepali receives, or None."""
        eps = eps_of(dt)
        if fam in POINT_FAMILY:
            nrm = 1.0 if nrm_ref is None else (float(torch.tensor(nrm_ref, dtype=dt)) if norm_slack_eps == 0.0 else nrm_ref)
            return pointwise_default_reference(fam, param, xr, yr, m64s.get("mask"), nrm, norm_slack_eps, eps)
        if fam == "patch":  # xr, yr, mask: the sampled patches (sampler trusted here), one patch per batch item
            if opts["inner"] == "NCC":
                return None if m64s else corr_mean_reference("ncc", xr, yr, None, None, {})
            name = {"default": "ssd", "SSD": "ssd", "MSE": "mse", "MAE": "mae"}[opts["inner"]]
            nrm = float(torch.tensor(opts["norm_value"], dtype=dt)) if opts["inner"] == "MSE" else 1.0
            # grid_sample_mask returns a float32 mask: its sum (the 'mean' denominator) is accumulated in float32
            return pointwise_default_reference(name, 1.0, xr, yr, m64s.get("mask"), nrm, 0.0, max(eps, EPS32) if m64s else eps)
        if fam in ("ncc", "lcc", "wlcc"):
            soft = any(c.get(key) and c[key]["soft"] for key in ("mask", "source_mask", "target_mask"))
            if (fam == "wlcc" and soft) or (fam == "ncc" and m64s):
                return None
            k = fkw.get("kernel_size", 7)
            return corr_mean_reference(fam, xr, yr, k, fkw.get("epsilon"), m64s)
        if fam == "dice":
            d = R.dice_binary(xr, yr, m64s.get("mask"), fkw.get("epsilon", 1e-15))
            return float((1 - d).mean()), 256 * EPS32
        if fam == "mi":
            if m64s or opts["bins"] is None:
                return None
            return mi_reference("nmi" if fn is L.nmi_loss else "mi", xr, yr, fkw.get("vmin"), fkw.get("vmax"), opts["bins"], dt)
        return None

    casts32 = fam in ("ncc", "lcc", "wlcc", "dice") or (fam == "patch" and opts["inner"] == "NCC")
    mod = construct()
    state0 = module_state(mod)
    ctor_copies = {k: v.detach().clone() for k, v in ctor_tensors.items()}
    worst = 0.0
    refs = empty = 0
    labels = [cls, f"calls={len(calls)}"]
    for i, c in enumerate(calls):
        dt = sdtype(c["dtype"])
        eps = eps_of(dt)
        x64, y64, m64 = first if i == 0 else seq_tensors(case, c)
        # masks: see mask_dtype_name / side_mask_dtype_name (identical to dt for float32 / float64 images)
        mdts = {k: sdtype(side_mask_dtype_name(c["dtype"]) if (fam == "dice" or k != "mask") else mask_dtype_name(c["dtype"])) for k in m64}

        def inputs():
            x, y = T(x64, dt), T(y64, dt)
            if c["grad"]:
                x.requires_grad_(True)
            return x, y, {k: T(v, mdts[k]) for k, v in m64.items()}

        x, y, ms = inputs()
        keep = {"source": x.detach().clone(), "target": y.detach().clone(), **{k: v.clone() for k, v in ms.items()}}
        got = module_call(mod, x, y, ms)
        xf, yf, msf = inputs()
        want = functional(xf, yf, msf)
        xn, yn, msn = inputs()
        fresh = module_call(construct(), xn, yn, msn)
        when = "first_call" if i == 0 else "later_call"
        what = f"{cls}({', '.join(sorted(ckw))}) call {i + 1} of {len(calls)} (shape {tuple(x.shape)}, {c['dtype']}, range [{c['lo']:g}, {c['lo'] + c['R']:g}], masks {sorted(ms)})"
        if not isinstance(got, torch.Tensor) or got.shape != want.shape or got.dtype != want.dtype:
            raise Violation("stateless_module_vs_functional_" + when,
                            f"{what} returned {type(got).__name__} {getattr(got, 'shape', None)} {getattr(got, 'dtype', None)}, functional form {tuple(want.shape)} {want.dtype}")
        # inputs (and the tensors given to the constructor) are not modified
        now = {"source": x, "target": y, **ms}
        for k, v in keep.items():
            if not torch.equal(now[k].detach(), v):
                raise Violation("module_modifies_inputs", f"{what}: tensor {k!r} was modified in place (max change {float((now[k].detach() - v).abs().max()):.6g})")
        for k, v in ctor_copies.items():
            if not torch.equal(ctor_tensors[k].detach(), v):
                raise Violation("module_modifies_inputs", f"{what}: constructor tensor {k!r} was modified in place")
        # float64 reference for the values deepali receives
        cast = f32 if casts32 else as64
        if fam == "patch":
            g = ctor_tensors["patches"]
            xr, yr = cast(patch_reshape(U.grid_sample(x.detach(), g))), cast(patch_reshape(U.grid_sample(y.detach(), g)))
            mr = {k: cast(patch_reshape(U.grid_sample_mask(v, g))) for k, v in ms.items()}
        else:
            xr, yr = cast(x.detach()), cast(y.detach())
            mr = {k: cast(v) for k, v in ms.items()}
        # the instance itself is unchanged
        changed = state_changes(state0, module_state(mod))
        if changed:
            raise Violation("module_state_changed", f"{what}: attributes / buffers changed by forward(): {changed}")
        if fam == "patch" and "mask" in mr and float(mr["mask"].sum()) == 0.0:
            # no patch point lies inside the mask: 'mean' is 0 / 0, outside the domain of the value comparisons
            empty += 1
            continue
        rf = reference(xr, yr, mr, dt, c)
        # module == functional form == fresh instance (the same computation: agreement up to a few roundings)
        extra = 0.0
        if fam in POINT_FAMILY:
            rel = 4 * eps + 64 * norm_slack_eps
        elif fam == "mi":
            rel = 64 * eps
        elif fam == "patch":
            # the module's patch tensors may be strided differently from the ones built here: sums in another order
            if casts32:
                rel, extra = 4 * EPS32, (2 * rf[1] if rf is not None else ILL)
            else:
                rel = (4 + xr.size) * (max(eps, EPS32) if mr else eps)
        elif casts32:
            rel = 4 * EPS32
        else:
            rel = 4 * eps
        scale = max(1e-30, float(want.detach().abs().max()))
        worst = max(worst, check_close(got.detach(), as64(want), rel * scale + extra, "stateless_module_vs_functional_" + when,
                                       f"{what} vs functional form with the constructor's options"))
        worst = max(worst, check_close(got.detach(), as64(fresh), 4 * eps_of(got.dtype) * scale, "stateless_module_vs_fresh_instance",
                                       f"{what} vs a newly constructed instance called with the same inputs"))
        if rf is not None:
            refs += 1
            worst = max(worst, check_close(got.detach(), rf[0], rf[1], "stateless_module_vs_reference", f"{what} vs float64 reference model"))
        # gradients flow through the module exactly as through the functional form
        if got.requires_grad != want.requires_grad:
            raise Violation("module_requires_grad", f"{what}: result requires_grad={got.requires_grad}, functional form {want.requires_grad}")
        if c["grad"] and want.requires_grad:
            try:  # a dissimilarity measure is minimised by gradient steps: its backward pass must exist
                g_mod, = torch.autograd.grad(got.sum(), x, allow_unused=True)
                g_fun, = torch.autograd.grad(want.sum(), xf, allow_unused=True)
            except RuntimeError as e:
                raise Violation("loss_backward_raises", f"{what}: backward pass raised RuntimeError: {str(e)[:160]}")
            if (g_mod is None) != (g_fun is None):
                raise Violation("module_gradient_mismatch", f"{what}: gradient w.r.t. source is {'missing' if g_mod is None else 'present'}, functional form the opposite")
            if g_fun is not None:
                gs = max(1e-30, float(g_fun.abs().max()))
                worst = max(worst, check_close(g_mod, as64(g_fun), 16 * (rel + extra) * gs, "module_gradient_mismatch", f"{what}: d loss / d source vs functional form"))
    ranges = {(c["lo"], c["R"]) for c in calls}
    labels += ["ranges=" + str(min(len(ranges), 3)), "dtype_change" if len({c["dtype"] for c in calls}) > 1 else "dtype_same",
               "D_change" if len({c["D"] for c in calls}) > 1 else "D_same", "mask_toggle" if len({c["mask"] is None for c in calls}) > 1 else "mask_same",
               "N_change" if len({c["N"] for c in calls}) > 1 else "N_same", "grad" if any(c["grad"] for c in calls) else "nograd",
               "refs=" + ("all" if refs == len(calls) else ("some" if refs else "none"))]
    if fam == "mi":
        labels.append("range=" + opts["range"])
    if fam == "patch":
        labels += ["inner=" + opts["inner"]] + (["empty_patch_mask"] if empty else [])
    kinds_of_call = {(tuple(c["shape"]), c["N"], c["C"], c["dtype"], c["mask"] is None) for c in calls}
    return {"ratio": worst, "nontrivial": len(ranges) >= 2 and len(kinds_of_call) >= 2, "labels": labels}


# ---------------------------------------------------------------------------------------

FACETS = [
    Facet("pointwise", run_pointwise, strategy=pointwise_cases,
          rule="mse/ssd/mae/l1/huber/smooth_l1 on hash-noise images, N,C <= 3, masks (1,1)/(N,1)/(N,C)/(1,C) binary or soft with >= 1 non-zero, "
               "norm float / 0-dim / 1-element tensor, all reductions, float32/float64; non-trivial = mask has zeros and non-zeros and x != y",
          quick=1200, thorough=40000, shards=16, quick_shards=2),
    Facet("correlation_reference", run_corr_reference, strategy=corr_reference_cases,
          rule="ncc/lcc/wlcc on images <= 12^2 / 8^3 against brute-force window sums in float64; kernels 3-9 (int or tuple), epsilon, masks of "
               "every documented shape (wlcc: mask / source_mask / target_mask combinations); images stored as float32/float64 (half of the "
               "cases), float16, bfloat16, uint8 or int64; non-trivial = > 50 % well-conditioned windows and reference compared",
          quick=1200, thorough=40000, shards=16, quick_shards=2),
    Facet("correlation_axioms", run_corr_axioms, strategy=corr_axiom_cases,
          rule="ncc/lcc/wlcc on images <= 20^2 / 10^3: range, swap symmetry, identity => 0, invariance under a*x+b (a != 0 both signs) of source, "
               "target or both; storage dtypes as in correlation_reference; non-trivial = (a,b) != (1,0), N >= 2, > 50 % well-conditioned windows",
          quick=800, thorough=30000, shards=16, quick_shards=2),
    Facet("mutual_information", run_mi, strategy=mi_cases,
          rule="mi_loss/nmi_loss, C = 1, explicit vmin/vmax/bins 8-64: swap symmetry, nmi in [0,2], masks (1,1)/(N,1) accepted; levels mode "
               "(interior bin centres, x levels >= 6 bins apart): mi(x,x) <= mi(x,y); non-trivial = N >= 2 or levels mode",
          quick=800, thorough=20000, shards=16, quick_shards=2),
    Facet("overlap", run_overlap, strategy=overlap_cases,
          rule="dice_score/dice_loss/tversky_index/tversky_loss on binary (and soft) maps, weights (N,..)/(N,1,..)/(N,C,..), alpha/beta incl. None, "
               "gamma, label-map targets; prediction / target / weight stored as float16, bfloat16, float32, float64, bool, uint8 or int64 "
               "(independently); sizes small (<= 12^2 / 6^3), mid (40-70^2 / 12-18^3) and large (270-330^2 / 42-48^3); a class empty in both "
               "maps; non-trivial = maps differ and N >= 2",
          quick=1200, thorough=40000, shards=16, quick_shards=2),
    Facet("modules", run_modules, strategy=module_cases,
          rule="each class of losses.image constructed with generated options vs its functional form with the same options (Dice and the "
               "correlation losses with every storage dtype they accept); non-trivial = the option changes the functional value",
          quick=1200, thorough=40000, shards=16, quick_shards=2),
    Facet("stateless_modules", run_sequence, strategy=sequence_cases,
          rule="every concrete PairwiseImageLoss class exported by deepali.losses (enumerated from the package, aliases and PatchwiseImageLoss "
               "included): ONE instance called 2-4 times with pairs differing in intensity range, shape, D, N, C, dtype, masks, requires_grad; "
               "each call vs functional form, fresh instance and float64 reference; attributes/buffers and inputs unchanged; gradients agree; "
               "non-trivial = >= 2 intensity ranges and >= 2 distinct (shape, N, C, dtype, mask presence) in the sequence",
          quick=1500, thorough=30000, shards=16, quick_shards=2),
]
