"""C16 - Image similarity and overlap losses satisfy their defining axioms."""
from __future__ import annotations

import math

import numpy as np
import torch
from hypothesis import strategies as st

from vlib import gen
from vlib import ref_c16 as R
from vlib.case import hash_noise, smooth_field, tdtype
from vlib.core import EPS32, Facet, Violation, check_close, eps_of
from vlib.findings import Known

PROPERTY = "C16"
MANIFEST = {
    "text": "Generated-input search (Hypothesis) over dimensions, shapes, batch/channel counts, mask shapes (shared, per-item, "
            "single/multi-channel, binary and soft), intensity affine maps, kernel sizes, bin counts, reductions and options. "
            "Pointwise, correlation and overlap losses are compared with plain float64 numpy reference models (brute-force window "
            "sums for the local correlations) and with the axioms of the statement (identity, range, symmetry, affine invariance, "
            "mask semantics, norm, reductions, Tversky(1/2,1/2) = Dice); mutual information is checked for swap symmetry, the "
            "documented NMI range and mi(x,x) <= mi(x,y) on the sub-domain where this is a theorem for the Parzen estimate; every "
            "module of losses.image is compared with its functional form under the same options. Exploration: no absence proof; "
            "tolerances are derived from float32 rounding and the conditioning of the correlation coefficient.",
    "note": "Trusted: numpy, the reference models in vlib/ref_c16.py (self-tested on closed-form cases), the conditioning bound "
            "of the squared correlation coefficient derived in props/c16.py; CPU, float32/float64 inputs; images <= 20^2 / 10^3; "
            "random sub-sampling options of mi_loss are not exercised (they draw from the global torch RNG).",
    "technique": "property-based testing (Hypothesis) with float64 reference models, metamorphic relations and differential module/function comparison",
}
ASSUMPTIONS = [
    "correlation losses: |loss - reference| <= 256 eps32 (1 + sqrt(n_w) (max|s|/sqrt(B) + max|t|/sqrt(C))) per window "
    "(first-order perturbation bound of rho^2 under float32 rounding of the centred samples); windows whose bound exceeds 1e-2 "
    "are counted as ill-conditioned and not compared",
    "mi_loss(x,x) <= mi_loss(x,y) is asserted only where it is a theorem for the Parzen estimate: intensities on interior bin "
    "centres, levels of x at least 6 bins apart (data-processing inequality); slack (B^2+2B) 1e-5 for the +1e-5 regularisers",
    "mi_loss/nmi_loss: C = 1, explicit vmin/vmax/num_bins, no random sub-sampling",
    "windowed-loss reference for wlcc_loss uses binary masks (soft masks: structural checks only)",
    "kernel sizes are odd (documented requirement for shape preservation)",
]

KNOWN = Known(PROPERTY)


def k6_active() -> bool:
    return KNOWN.active("K6")


def selftest():
    R.selftest()


# ---------------------------------------------------------------------------------------
# shared builders


def full_shape(case):
    return (case["N"], case["C"]) + tuple(case["shape"])


def make_pair(case):
    """Two float64 images (N, C, ...) from closed-form content; y is partially related to x."""
    shp = full_shape(case)
    lo, rng = case["lo"], case["R"]
    x = hash_noise(shp, case["key"], 0.0, 1.0)
    z = hash_noise(shp, case["key"] + 7919, 0.0, 1.0)
    if case.get("content") == "mix":
        sm = np.stack([np.stack([smooth_field(case["shape"], [1 + (b + c) % 2] * len(case["shape"]), 0.5) + 0.5
                                 for c in range(shp[1])]) for b in range(shp[0])])
        x = 0.7 * sm + 0.3 * x
    rel = case.get("rel", 0.0)
    y = rel * x + (1.0 - rel) * z
    return lo + rng * x, lo + rng * y


def mask_shape(kind, shp):
    N, C = shp[0], shp[1]
    sp = tuple(shp[2:])
    return {"11": (1, 1) + sp, "N1": (N, 1) + sp, "NC": (N, C) + sp, "1C": (1, C) + sp, "N": (N,) + sp}[kind]


def make_mask(desc, shp, anchor=0):
    """Mask array from descriptor {'kind','soft','key','p'}.  By construction every item / channel of every mask of a
    case is non-zero at one common spatial position (`anchor`), so no mask - and no product of masks - is empty."""
    if desc is None:
        return None
    ms = mask_shape(desc["kind"], shp)
    u = hash_noise(ms, desc["key"], 0.0, 1.0)
    m = (u < desc["p"]).astype(np.float64)
    nsp = int(np.prod(shp[2:]))
    m.reshape(-1, nsp)[:, anchor % nsp] = 1.0
    if desc.get("soft"):
        m = m * np.round(0.05 + 0.95 * hash_noise(ms, desc["key"] + 31, 0.0, 1.0), 3)
    return m


def mask_desc(kinds, soft=True):
    return st.fixed_dictionaries({
        "kind": st.sampled_from(list(kinds)),
        "soft": st.booleans() if soft else st.just(False),
        "key": st.integers(0, 9999),
        "p": st.sampled_from([0.2, 0.5, 0.8, 1.0]),
    })


def mask_nontrivial(m):
    return m is not None and bool((m == 0).any()) and bool((m != 0).any())


def T(a, dt):
    return None if a is None else torch.tensor(np.ascontiguousarray(a), dtype=dt)


def as64(t):
    return t.detach().double().numpy()


def check_elem(actual, expected, bound, kind, what):
    """Element-wise |actual-expected| <= bound (array); returns max ratio. Elements with bound = inf are not compared."""
    a = as64(actual) if isinstance(actual, torch.Tensor) else np.asarray(actual, np.float64)
    e = np.asarray(expected, np.float64)
    b = np.broadcast_to(np.asarray(bound, np.float64), e.shape)
    if a.shape != e.shape:
        raise Violation(kind + ":shape", f"{what}: shape {a.shape} != expected {e.shape}")
    ok = np.isfinite(b)
    if not ok.any():
        return 0.0
    if not np.isfinite(a[ok]).all():
        raise Violation(kind + ":nonfinite", f"{what}: non-finite result")
    err = np.abs(a - e)
    ratio = np.where(ok, err / np.where(ok, b, 1.0), 0.0)
    i = int(np.argmax(ratio))
    r = float(ratio.reshape(-1)[i])
    if r > 1.0:
        raise Violation(kind, f"{what}: |delta|={err.reshape(-1)[i]:.6g} > bound {b.reshape(-1)[i]:.3g} "
                              f"(actual {a.reshape(-1)[i]:.9g}, expected {e.reshape(-1)[i]:.9g}, flat index {i})")
    return r


def images_base(draw, max2, max3, min_size=1, max_n=3, max_c=3, D=None, min_sizes=None):
    D = draw(gen.dims()) if D is None else D
    hi = max2 if D == 2 else max3
    lows = [min_size] * D if min_sizes is None else list(min_sizes)
    return {
        "D": D,
        "shape": [draw(st.integers(lo, max(lo, hi))) for lo in lows],
        "N": draw(st.integers(1, max_n)),
        "C": draw(st.integers(1, max_c)),
        "key": draw(st.integers(0, 10 ** 6)),
        "lo": draw(st.sampled_from([0.0, 0.0, -1.0, 10.0, 100.0])),
        "R": draw(st.sampled_from([0.1, 1.0, 1.0, 10.0, 255.0])),
        "rel": draw(st.sampled_from([0.0, 0.5, 0.9])),
    }


# ---------------------------------------------------------------------------------------
# facet 1: pointwise losses against the numpy reference

POINTWISE = ("mse", "ssd", "mae", "l1", "huber", "smooth_l1")
PARAM_NAME = {"huber": "delta", "smooth_l1": "beta"}


@st.composite
def pointwise_cases(draw):
    case = images_base(draw, 12, 6)
    case["loss"] = draw(st.sampled_from(POINTWISE))
    case["param"] = draw(st.one_of(st.none(), gen.qfloat(0.05, 3.0, 0.05))) if case["loss"] in PARAM_NAME else None
    case["dtype"] = draw(gen.dtypes())
    case["mask"] = draw(st.one_of(st.none(), *[mask_desc(("11", "N1", "NC", "1C"))] * 3))
    case["norm"] = draw(st.one_of(st.none(), gen.logfloat(0.01, 1000.0)))
    case["norm_form"] = draw(st.sampled_from(["float", "tensor0", "tensor1"]))
    case["big"] = draw(st.sampled_from([1.0, 100.0, -1000.0]))
    return case


def pointwise_fn(name):
    import deepali.losses.functional as L

    return getattr(L, name + "_loss")


def run_pointwise(case):
    name = case["loss"]
    fn = pointwise_fn(name)
    dt = tdtype(case["dtype"])
    eps = eps_of(dt)
    shp = full_shape(case)
    x64, y64 = make_pair(case)
    x, y = T(x64, dt), T(y64, dt)
    xr, yr = as64(x), as64(y)  # the values deepali actually receives
    m = T(make_mask(case["mask"], shp, case["key"]), dt)
    m64 = None if m is None else as64(m)
    kw = {}
    param = 1.0
    if case["param"] is not None:
        param = case["param"]
        kw[PARAM_NAME[name]] = param
    norm = case["norm"]
    if norm is not None:
        kw["norm"] = {"float": norm, "tensor0": torch.tensor(norm, dtype=dt), "tensor1": torch.tensor([norm], dtype=dt)}[case["norm_form"]]
    nrm = 1.0 if norm is None else float(torch.tensor(norm, dtype=dt))
    elem = R.pointwise(name, xr, yr, param)
    mb = None if m64 is None else np.broadcast_to(m64, shp)
    wsum = float(np.abs(elem if mb is None else elem * mb).sum())
    denom = float(elem.size if mb is None else mb.sum())
    b_elem = 16 * eps * max(float(elem.max()), 1e-300) / nrm
    b_sum = 256 * eps * max(wsum, 1e-300) / nrm
    b_mean = b_sum / denom
    worst = 0.0
    outs = {}
    for red, bound in (("none", b_elem), ("sum", b_sum), ("mean", b_mean)):
        out = fn(x, y, mask=m, reduction=red, **kw)
        outs[red] = out
        exp = R.reduce_masked(elem, m64, red, nrm)
        if out.dtype != dt:
            raise Violation("pointwise_dtype", f"{name}_loss returned {out.dtype} for {dt} inputs")
        worst = max(worst, check_close(out, exp, bound, f"pointwise_reference_{red}",
                                       f"{name}_loss(reduction={red!r}, mask={case['mask'] and case['mask']['kind']}, norm={norm}) vs numpy sum(loss*m)/sum(m)"))
    # documented default reduction
    dflt = "sum" if name == "ssd" else "mean"
    worst = max(worst, check_close(fn(x, y, mask=m, **kw), R.reduce_masked(elem, m64, dflt, nrm), b_sum if dflt == "sum" else b_mean,
                                   "pointwise_default_reduction", f"{name}_loss default reduction must be {dflt!r}"))
    # 'mean' / 'sum' are the (mask-aware) mean / sum of the 'none' output
    none64 = as64(outs["none"])
    worst = max(worst, check_close(outs["sum"], none64.sum(), b_sum, "reduction_sum_of_none", f"{name}_loss 'sum' != sum of 'none' output"))
    worst = max(worst, check_close(outs["mean"], none64.sum() / denom, b_mean, "reduction_mean_of_none",
                                   f"{name}_loss 'mean' != sum of 'none' output / sum(mask)"))
    # norm divides the value
    if norm is not None:
        kw0 = {k: v for k, v in kw.items() if k != "norm"}
        for red, bound in (("none", b_elem), ("mean", b_mean)):
            un = fn(x, y, mask=m, reduction=red, **kw0)
            worst = max(worst, check_close(as64(outs[red]) * nrm, as64(un), 2 * bound * nrm, "norm_divides", f"{name}_loss(norm=c) * c != {name}_loss()"))
    # identity => exactly 0
    for red in ("none", "mean"):
        check_close(fn(x, x, mask=m, reduction=red, **kw), 0.0, 0.0, "pointwise_identity", f"{name}_loss(x, x) != 0")
    # symmetry
    worst = max(worst, check_close(fn(y, x, mask=m, reduction="mean", **kw), as64(outs["mean"]), b_mean, "pointwise_symmetry", f"{name}_loss(y, x) != {name}_loss(x, y)"))
    # samples where mask == 0 are ignored entirely
    if mb is not None and (mb == 0).any():
        x2 = T(np.where(mb == 0, xr + case["big"], xr), dt)
        y2 = T(np.where(mb == 0, yr - 3.0 * case["big"], yr), dt)
        for red, bound in (("none", b_elem), ("mean", b_mean), ("sum", b_sum)):
            o2 = fn(x2, y2, mask=m, reduction=red, **kw)
            worst = max(worst, check_close(o2, as64(outs[red]), bound, "masked_out_samples_ignored",
                                           f"{name}_loss changed after altering samples where mask == 0 (reduction={red!r})"))
    nt = mask_nontrivial(m64) and wsum > 0
    return {"ratio": worst, "nontrivial": nt,
            "labels": [name, "mask=" + (case["mask"]["kind"] if case["mask"] else "none"), case["dtype"], f"N={shp[0]}", f"C={shp[1]}", f"D={case['D']}",
                       "soft" if case["mask"] and case["mask"]["soft"] else "hard", "norm" if norm is not None else "nonorm"]}


# ---------------------------------------------------------------------------------------
# correlation losses: shared evaluation

CORR_K = 256.0
ILL = 1e-2  # windows with a larger derived bound are ill-conditioned: not compared (counted)


def corr_bound(Ms, Mt, B, C, nw):
    """First-order bound of |rho^2 - fl32(rho^2)|: centred samples carry absolute errors ~ eps32 max|s| each (rounded inputs,
    float32 mean, subtraction), i.e. a relative perturbation sqrt(n_w) eps32 max|s| / sqrt(B) of the centred window vector;
    rho^2 changes by <= 4 x that for each image; the sums add O(eps32)."""
    with np.errstate(divide="ignore", invalid="ignore"):
        cond = np.sqrt(nw) * (Ms / np.sqrt(B) + Mt / np.sqrt(C))
    b = CORR_K * EPS32 * (1.0 + cond)
    return np.where(np.isfinite(b) & (b <= ILL), b, np.inf)


def eps_term(B, C, eps):
    """Deviation of A^2/(BC+eps) from the scale-free rho^2 is at most eps/(BC+eps)."""
    return eps / (B * C + eps)


def chan_max(a):
    """max |a| per (n, c), broadcastable to a."""
    return np.abs(a).reshape(a.shape[0], a.shape[1], -1).max(2).reshape(a.shape[:2] + (1,) * (a.ndim - 2))


def call_ncc(fn, x, y, m, **kw):
    """ncc_loss / NCC() with a mask: K6 - every mask is rejected."""
    if m is None:
        return fn(x, y, **kw)
    try:
        return fn(x, y, mask=m, **kw)
    except (ValueError, IndexError) as e:
        raise Violation("ncc_mask_rejected", f"ncc_loss with a documented mask of shape {tuple(m.shape)} raised {type(e).__name__}: {str(e)[:120]}")


def corr_eval(loss, x, y, k, eps, masks, reduction="none"):
    """Call the deepali functional form. masks = dict(mask=, source_mask=, target_mask=) of tensors / None."""
    import deepali.losses.functional as L

    kw = {} if eps is None else {"epsilon": eps}
    if loss == "ncc":
        return call_ncc(L.ncc_loss, x, y, masks.get("mask"), reduction=reduction, **kw)
    if loss == "lcc":
        return L.lcc_loss(x, y, mask=masks.get("mask"), kernel_size=k, reduction=reduction, **kw)
    return L.wlcc_loss(x, y, kernel_size=k, reduction=reduction, **masks, **kw)


def corr_ref(loss, xr, yr, k, eps, m64s):
    """Reference local scores, window sums and the mask used for aggregation.
    Returns (score, B, C, nw, agg_mask, Ms, Mt) with arrays of the shape of the deepali 'none' output."""
    e = 1e-15 if eps is None else eps
    if loss == "ncc":
        l, B, C, n = R.ncc(xr, yr, e)
        N = xr.shape[0]
        Ms = np.abs(xr).reshape(N, -1).max(1)
        Mt = np.abs(yr).reshape(N, -1).max(1)
        return l, B, C, float(n), None, Ms, Mt
    if loss == "lcc":
        l, B, C, nw = R.lcc(xr, yr, k, e)
        return l, B, C, nw, m64s.get("mask"), chan_max(xr), chan_max(yr)
    l, B, C, nw, agg, undefined = R.wlcc(xr, yr, k, e, m64s.get("mask"), m64s.get("source_mask"), m64s.get("target_mask"))
    B = np.where(undefined, 0.0, B)  # -> infinite bound: windows with an unsupported weighted mean are not compared
    return l, B, C, nw, agg, chan_max(xr), chan_max(yr)


def kernel_arg(k):
    return tuple(k) if isinstance(k, list) else k


def corr_inputs(case):
    dt = tdtype(case["dtype"])
    x64, y64 = make_pair(case)
    x, y = T(x64, dt), T(y64, dt)
    shp = full_shape(case)
    m64s, ms = {}, {}
    for key in ("mask", "source_mask", "target_mask"):
        d = case.get(key)
        if d is not None:
            ms[key] = T(make_mask(d, shp, case["key"]), dt)
            m64s[key] = f32(ms[key])
    return x, y, m64s, ms


def f32(t):
    """The values a loss that casts to float32 actually works with."""
    return t.float().double().numpy()


def weighted(score, agg, shape):
    if agg is None:
        return score, float(score.size), None
    mb = np.broadcast_to(agg, shape)
    return score * mb, float(mb.sum()), mb


def corr_mask_strategy(draw, loss):
    """Mask descriptors for one loss; ncc + mask is known finding K6 (routed around only while it is listed)."""
    out = {"mask": None, "source_mask": None, "target_mask": None}
    kinds = ("11", "N1", "NC", "1C")
    if loss == "ncc":
        if not k6_active() and draw(st.integers(0, 3)) == 0:
            out["mask"] = draw(mask_desc(kinds))
        return out
    if loss == "lcc":
        out["mask"] = draw(st.one_of(st.none(), mask_desc(kinds)))
        return out
    form = draw(st.sampled_from(["none", "mask", "mask", "st", "mst", "s", "t"]))
    if "m" in form and form != "none":
        out["mask"] = draw(mask_desc(kinds))
    if form in ("st", "mst", "s"):
        out["source_mask"] = draw(mask_desc(kinds))
    if form in ("st", "mst", "t"):
        out["target_mask"] = draw(mask_desc(kinds))
    return out


def kernel_strategy(draw, D, hi, allow_aniso):
    """Odd kernel sizes 3-9 (<= hi); returns (kernel, per-axis minimum image size).  The image is generated at least
    as large as the kernel: torch's 3-D average pooling rejects smaller images even with padding (implicit
    precondition of lcc/wlcc, constructed rather than filtered)."""
    ok = [v for v in (3, 3, 5, 7, 9) if v <= hi]
    k = draw(st.sampled_from(ok))
    form = draw(st.sampled_from(["int", "int", "tuple"] + (["aniso"] if allow_aniso else [])))
    if form == "int":
        return k, [k] * D
    if form == "tuple":
        return [k] * D, [k] * D
    ks = [draw(st.sampled_from([v for v in (3, 5, 7) if v <= hi])) for _ in range(D)]
    return ks, ks


# ---------------------------------------------------------------------------------------
# facet 2: correlation losses against the brute-force reference (small images)


@st.composite
def corr_reference_cases(draw):
    D = draw(gen.dims())
    k, lows = kernel_strategy(draw, D, 12 if D == 2 else 8, allow_aniso=False)
    case = images_base(draw, 12, 8, D=D, min_sizes=lows)
    case["k"] = k
    case["loss"] = draw(st.sampled_from(["ncc", "lcc", "lcc", "wlcc", "wlcc"]))
    case["content"] = draw(st.sampled_from(["noise", "noise", "mix"]))
    case["dtype"] = draw(gen.dtypes())
    case["eps"] = draw(st.sampled_from([None, None, 1e-15, 1e-8, 1e-3]))
    case.update(corr_mask_strategy(draw, case["loss"]))
    return case


def run_corr_reference(case):
    loss = case["loss"]
    x, y, m64s, ms = corr_inputs(case)
    xr, yr = f32(x), f32(y)
    k, eps = kernel_arg(case["k"]), case["eps"]
    soft = any(case.get(key) and case[key]["soft"] for key in ("mask", "source_mask", "target_mask"))
    shp = full_shape(case)
    worst = 0.0
    none = corr_eval(loss, x, y, k, eps, ms, "none")
    mean = corr_eval(loss, x, y, k, eps, ms, "mean")
    total = corr_eval(loss, x, y, k, eps, ms, "sum")
    if loss == "ncc" and ms.get("mask") is not None:
        # not reached on the pinned tree (K6); a repaired ncc_loss must at least stay in its range
        for o in (none, mean):
            if not bool(((o > -1e-3) & (o < 1 + 1e-3)).all()):
                raise Violation("ncc_masked_range", f"masked ncc_loss outside [0, 1]: {as64(o).ravel()[:4]}")
        return {"nontrivial": False, "labels": ["ncc", "masked"]}
    exp_shape = (shp[0],) if loss == "ncc" else shp
    if tuple(none.shape) != exp_shape:
        raise Violation("corr_none_shape", f"{loss}_loss(reduction='none') has shape {tuple(none.shape)}, expected {exp_shape}")
    score, B, C, nw, agg, Ms, Mt = corr_ref(loss, xr, yr, k, eps, m64s)
    bound = corr_bound(Ms, Mt, B, C, nw)
    wscore, denom, mb = weighted(score, agg, score.shape)
    wbound = bound if mb is None else np.where(mb > 0, bound * np.maximum(mb, 1e-300), 1e-30)
    labels = [loss, case["dtype"], f"D={case['D']}", f"N={shp[0]}", f"C={shp[1]}", f"k={case['k'] if not isinstance(case['k'], list) else 'tuple'}",
              "masks=" + "".join(c for c, key in (("m", "mask"), ("s", "source_mask"), ("t", "target_mask")) if case.get(key)),
              "maskkind=" + (case["mask"]["kind"] if case.get("mask") else "-"), "soft" if soft else "hard",
              "eps=" + str(eps)]
    n64 = as64(none)
    # reductions are the (mask-aware) sum / mean of the 'none' output
    s_abs = max(float(np.abs(n64).sum()), 1e-300)
    worst = max(worst, check_close(total, n64.sum(), 256 * EPS32 * s_abs, "reduction_sum_of_none", f"{loss}_loss 'sum' != sum of its 'none' output"))
    worst = max(worst, check_close(mean, n64.sum() / denom, 256 * EPS32 * s_abs / denom, "reduction_mean_of_none",
                                   f"{loss}_loss 'mean' != sum of its 'none' output / sum(mask)"))
    # range of the (mask-weighted) local scores
    hi = 1.0 if mb is None else mb
    if (n64 < -np.where(np.isfinite(wbound), wbound, 0) - 1e-6).any() or (n64 > hi * (1 + 1e-6) + np.where(np.isfinite(wbound), wbound, 0)).any():
        raise Violation("corr_range", f"{loss}_loss local values outside [0, mask]: min {n64.min():.6g} max {(n64 - hi).max():.6g} above")
    reference = not (loss == "wlcc" and soft)
    if reference:
        worst = max(worst, check_elem(none, wscore, wbound, "corr_reference_none",
                                      f"{loss}_loss(k={case['k']}, eps={eps}) 'none' vs brute-force window reference weighted by the mask"))
        ok = np.isfinite(wbound)
        if ok.all():
            bsum = float(wbound.sum()) + 256 * EPS32 * float(np.abs(wscore).sum())
            worst = max(worst, check_close(total, wscore.sum(), bsum, "corr_reference_sum", f"{loss}_loss 'sum' vs reference"))
            worst = max(worst, check_close(mean, wscore.sum() / denom, bsum / denom, "corr_reference_mean",
                                           f"{loss}_loss 'mean' vs reference sum(score*m)/sum(m)"))
        else:
            labels.append("ill_conditioned_windows")
    else:
        labels.append("soft_wlcc_structural_only")
    if loss == "wlcc" and not any(case.get(key) for key in ("mask", "source_mask", "target_mask")):
        # without any mask wlcc is lcc (different code path: plain window means)
        import deepali.losses.functional as L

        kw = {} if eps is None else {"epsilon": eps}
        o = L.lcc_loss(x, y, kernel_size=k, reduction="none", **kw)
        worst = max(worst, check_elem(none, as64(o), 2 * bound, "wlcc_without_masks_is_lcc", "wlcc_loss() without masks != lcc_loss()"))
    nt = bool(np.isfinite(wbound).mean() > 0.5) and (shp[0] >= 2 or mask_nontrivial(agg))
    return {"ratio": worst, "nontrivial": nt and reference, "labels": labels}


# ---------------------------------------------------------------------------------------
# facet 3: correlation axioms (identity, symmetry, affine invariance, range) on larger images


@st.composite
def corr_axiom_cases(draw):
    D = draw(gen.dims())
    k, lows = kernel_strategy(draw, D, 20 if D == 2 else 10, allow_aniso=True)
    case = images_base(draw, 20, 10, D=D, min_sizes=lows)
    case["k"] = k
    case["loss"] = draw(st.sampled_from(["ncc", "ncc", "lcc", "lcc", "wlcc"]))
    case["content"] = draw(st.sampled_from(["noise", "noise", "mix"]))
    case["dtype"] = draw(gen.dtypes())
    case["eps"] = draw(st.sampled_from([None, None, None, 1e-12]))
    case.update(corr_mask_strategy(draw, case["loss"]))
    sign = draw(st.sampled_from([1.0, 1.0, -1.0]))
    case["a"] = sign * draw(st.sampled_from([1.0, 0.01, 0.5, 2.0, 3.0, 100.0]))
    case["b"] = draw(st.sampled_from([0.0, 1.0, -2.0, 50.0, -300.0]))
    case["which"] = draw(st.sampled_from(["source", "target", "both"]))
    return case


def run_corr_axioms(case):
    loss = case["loss"]
    x, y, m64s, ms = corr_inputs(case)
    dt = x.dtype
    xr, yr = f32(x), f32(y)
    k, eps = kernel_arg(case["k"]), case["eps"]
    e = 1e-15 if eps is None else eps
    shp = full_shape(case)
    # the reference is needed here only for the conditioning of each local score (tuple kernels in tensor-axis order)
    worst = 0.0

    def bounds(xa, ya):
        s = corr_ref(loss, xa, ya, k, eps, m64s)
        bc = s[1] * s[2]
        with np.errstate(divide="ignore", invalid="ignore"):
            rho2 = np.where(bc > 0, (1.0 - s[0]) * (bc + e) / np.where(bc > 0, bc, 1.0), 0.0)  # scale-free squared correlation
        return corr_bound(s[5], s[6], s[1], s[2], s[3]), eps_term(s[1], s[2], e), s[4], rho2

    if loss == "ncc" and ms.get("mask") is not None:
        corr_eval(loss, x, y, k, eps, ms, "none")  # K6: raises ncc_mask_rejected on the pinned tree
        return {"nontrivial": False, "labels": ["ncc", "masked"]}
    bxy, exy, agg, rho2 = bounds(xr, yr)
    mb = None if agg is None else np.broadcast_to(agg, bxy.shape)
    wm = 1.0 if mb is None else mb

    def wb(b):
        return b if mb is None else np.where(mb > 0, b * np.maximum(mb, 1e-300), 1e-30)

    o_xy = corr_eval(loss, x, y, k, eps, ms, "none")
    n_xy = as64(o_xy)
    labels = [loss, case["dtype"], f"D={case['D']}", f"N={shp[0]}", f"C={shp[1]}", "a<0" if case["a"] < 0 else "a>0",
              "b=0" if case["b"] == 0 else "b!=0", case["which"], "masked" if m64s else "unmasked",
              "k=aniso" if isinstance(k, tuple) and len(set(k)) > 1 else "k=iso"]
    # range
    fin = np.where(np.isfinite(bxy), bxy, 0.0)
    if (n_xy < -wb(fin) - 1e-6).any() or (n_xy > wm * (1 + 1e-6) + wb(fin)).any():
        raise Violation("corr_range", f"{loss}_loss outside [0, 1]: min {n_xy.min():.6g}, max {n_xy.max():.6g}")
    # symmetry under swapping the arguments (wlcc: swap the source/target masks as well)
    ms_sw = dict(ms)
    if loss == "wlcc":
        ms_sw["source_mask"], ms_sw["target_mask"] = ms.get("target_mask"), ms.get("source_mask")
        ms_sw = {kk: v for kk, v in ms_sw.items() if v is not None}
    o_yx = corr_eval(loss, y, x, k, eps, ms_sw, "none")
    worst = max(worst, check_elem(o_yx, n_xy, wb(2 * bxy), "corr_symmetry", f"{loss}_loss(y, x) != {loss}_loss(x, y)"))
    # identity => 0 (up to the epsilon regulariser and conditioning)
    ms_id = dict(ms)
    if loss == "wlcc" and (ms.get("source_mask") is None) != (ms.get("target_mask") is None):
        ms_id = {kk: v for kk, v in ms.items() if kk == "mask"}  # identical inputs need identical mean weights
        m64_id = {kk: v for kk, v in m64s.items() if kk == "mask"}
    elif loss == "wlcc" and ms.get("source_mask") is not None:
        ms_id = dict(ms, target_mask=ms["source_mask"])
        m64_id = dict(m64s, target_mask=m64s["source_mask"])
    else:
        m64_id = m64s
    sx = corr_ref(loss, xr, xr, k, eps, m64_id)
    bxx = corr_bound(sx[5], sx[6], sx[1], sx[2], sx[3])
    exx = eps_term(sx[1], sx[2], e)
    agg_id = sx[4]
    mbi = None if agg_id is None else np.broadcast_to(agg_id, bxx.shape)
    o_xx = corr_eval(loss, x, x, k, eps, ms_id, "none")
    # expected: the documented epsilon regulariser leaves epsilon / (B^2 + epsilon) (B in float32: relative slack 1e-3)
    bid = bxx + 1e-3 * exx
    wid = 1.0 if mbi is None else mbi
    bid = bid if mbi is None else np.where(mbi > 0, bid * np.maximum(mbi, 1e-300), 1e-30)
    worst = max(worst, check_elem(o_xx, exx * wid, bid, "corr_identity", f"{loss}_loss(x, x) != 0 (+ epsilon / (B^2 + epsilon))"))
    if np.isfinite(bid).all():
        o_mean = corr_eval(loss, x, x, k, eps, ms_id, "mean")
        den = float(bxx.size if mbi is None else mbi.sum())
        worst = max(worst, check_close(o_mean, float((exx * wid).sum()) / den, float(bid.sum()) / den + 256 * EPS32 * float((exx * wid).sum()) / den + 1e-300,
                                       "corr_identity", f"{loss}_loss(x, x) 'mean' != 0"))
    # invariance under intensity scale and offset a*x + b, a != 0
    a, b = case["a"], case["b"]
    x2 = T(a * as64(x) + b, dt) if case["which"] in ("source", "both") else x
    y2 = T(a * as64(y) + b, dt) if case["which"] in ("target", "both") else y
    b2, e2, _, _ = bounds(f32(x2), f32(y2))
    o2 = corr_eval(loss, x2, y2, k, eps, ms, "none")
    # loss = 1 - rho^2 (1 - t), t = epsilon / (B C + epsilon): rho^2 is invariant, the documented regulariser term t is
    # not (B C scales with a^2); its known change rho^2 (t' - t) is accounted for exactly (relative slack 1e-3 on t, t')
    shift = rho2 * (e2 - exy) * wm
    binv = wb(bxy + b2 + 1e-3 * (exy + e2))
    worst = max(worst, check_elem(o2, n_xy + shift, binv, "corr_affine_invariance",
                                  f"{loss}_loss changed under intensity map {a}*x+{b} of {case['which']}"))
    if np.isfinite(binv).all():
        den = float(bxy.size if mb is None else mb.sum())
        m1 = corr_eval(loss, x, y, k, eps, ms, "mean")
        m2 = corr_eval(loss, x2, y2, k, eps, ms, "mean")
        worst = max(worst, check_close(m2, as64(m1) + float(np.sum(shift)) / den, float(binv.sum()) / den + 256 * EPS32, "corr_affine_invariance",
                                       f"{loss}_loss 'mean' changed under intensity map {a}*x+{b} of {case['which']}"))
    else:
        labels.append("ill_conditioned_windows")
    nt = (a != 1.0 or b != 0.0) and bool(np.isfinite(binv).mean() > 0.5) and shp[0] >= 2
    return {"ratio": worst, "nontrivial": nt, "labels": labels}


# ---------------------------------------------------------------------------------------
# facet 4: mutual information


@st.composite
def mi_cases(draw):
    D = draw(gen.dims())
    shape = draw(st.lists(st.integers(4, 14) if D == 2 else st.integers(3, 6), min_size=D, max_size=D))
    mode = draw(st.sampled_from(["generic", "levels"]))
    bins = draw(st.integers(13, 64) if mode == "levels" else st.integers(8, 64))
    vmin = draw(st.sampled_from([0.0, 0.0, -1.0, 10.0]))
    case = {
        "D": D, "shape": shape, "N": draw(st.integers(1, 3)), "C": 1, "key": draw(st.integers(0, 10 ** 6)),
        "bins": bins, "vmin": vmin, "vmax": vmin + draw(st.sampled_from([1.0, 1.0, 16.0, 255.0])),
        "dtype": draw(gen.dtypes()), "mode": mode,
        # binary region-of-interest masks only: mi_loss multiplies the intensities by the mask, which has no documented meaning for soft weights
        "mask": draw(st.one_of(st.none(), mask_desc(("11", "N1"), soft=False))),
        "fill": draw(st.sampled_from([1.0, 1.0, 0.6])),  # fraction of [vmin, vmax] covered by the data (generic mode)
        "rel": draw(st.sampled_from([0.0, 0.5, 0.9])),
    }
    if mode == "levels":
        case["levels"] = draw(st.integers(2, (bins - 7) // 6 + 1))
        case["mask"] = None
    return case


def mi_images(case):
    shp = full_shape(case)
    vmin, vmax, bins = case["vmin"], case["vmax"], case["bins"]
    if case["mode"] == "levels":
        step = (vmax - vmin) / (bins - 1)
        u = hash_noise(shp, case["key"], 0.0, 1.0)
        v = hash_noise(shp, case["key"] + 7919, 0.0, 1.0)
        ix = 3 + 6 * np.minimum((u * case["levels"]).astype(int), case["levels"] - 1)
        iy = 3 + np.minimum((v * (bins - 6)).astype(int), bins - 7)
        if case["rel"] > 0:  # make y depend on x for a part of the samples
            dep = hash_noise(shp, case["key"] + 13, 0.0, 1.0) < case["rel"]
            iy = np.where(dep, 3 + (ix * 7 + 1) % (bins - 6), iy)
        return vmin + step * ix, vmin + step * iy
    c = dict(case, lo=0.0, R=1.0)
    x, y = make_pair(c)
    f = case["fill"]
    off = vmin + (vmax - vmin) * (1 - f) / 2
    return off + (vmax - vmin) * f * x, off + (vmax - vmin) * f * y


def run_mi(case):
    import deepali.losses.functional as L

    dt = tdtype(case["dtype"])
    eps = eps_of(dt)
    x64, y64 = mi_images(case)
    x, y = T(x64, dt), T(y64, dt)
    shp = full_shape(case)
    m = T(make_mask(case["mask"], shp, case["key"]), dt)
    bins = case["bins"]
    n = int(np.prod(case["shape"]))
    kw = dict(vmin=case["vmin"], vmax=case["vmax"], num_bins=bins)
    # rounding: entries of the joint histogram are sums of n products (relative error <= n eps, first order); an
    # entropy -sum p log p changes by <= (H + 1) x that, H <= log(bins^2)
    b_round = (256 + n) * eps * (1 + 2 * math.log(bins))
    worst = 0.0
    vals = {}
    for name, fn in (("mi", L.mi_loss), ("nmi", L.nmi_loss)):
        v_xy = fn(x, y, mask=m, **kw)
        v_yx = fn(y, x, mask=m, **kw)
        if v_xy.ndim != 0 or not bool(torch.isfinite(v_xy)):
            raise Violation("mi_value", f"{name}_loss returned {v_xy}")
        vals[name] = float(v_xy)
        scale = 3.0 if name == "mi" else 8.0  # d(nmi) <= (dHx + dHy + 2 dHxy) / Hxy; Hxy >= 0.8 by the blur of the Parzen window
        worst = max(worst, check_close(v_yx, as64(v_xy), scale * b_round, f"{name}_symmetry", f"{name}_loss(y, x) != {name}_loss(x, y)"))
    # documented range of the normalised loss
    if not (-1e-3 <= vals["nmi"] <= 2 + 1e-3):
        raise Violation("nmi_range", f"nmi_loss = {vals['nmi']:.6g} outside the documented range [0, 2]")
    labels = [case["mode"], case["dtype"], f"N={shp[0]}", f"D={case['D']}", "bins<=16" if bins <= 16 else "bins>16",
              "mask=" + (case["mask"]["kind"] if case["mask"] else "none")]
    if case["mode"] == "levels":
        v_xx = float(L.mi_loss(x, x, **kw))
        slack = (bins * bins + 2 * bins) * 1e-5 + 3 * b_round + 1e3 * eps * bins
        if v_xx > vals["mi"] + slack:
            raise Violation("mi_identity_minimum", f"mi_loss(x, x) = {v_xx:.6g} > mi_loss(x, y) = {vals['mi']:.6g} + slack {slack:.3g} "
                                                   f"(bins={bins}, levels={case['levels']})")
        gap = vals["mi"] - v_xx
        labels.append("gap>0.1" if gap > 0.1 else "gap<=0.1")
    return {"ratio": worst, "nontrivial": shp[0] >= 2 or case["mode"] == "levels", "labels": labels}


# ---------------------------------------------------------------------------------------
# facet 5: overlap measures


@st.composite
def overlap_cases(draw):
    D = draw(gen.dims())
    hi = 12 if D == 2 else 6
    C = draw(st.integers(1, 3))
    target_form = draw(st.sampled_from(["same", "same", "same", "labels"]))
    case = {
        "D": D, "shape": draw(st.lists(st.integers(1, hi), min_size=D, max_size=D)),
        "N": draw(st.integers(1, 3)), "C": C, "key": draw(st.integers(0, 10 ** 6)),
        "p": draw(st.sampled_from([0.0, 0.2, 0.5, 0.8, 1.0])), "flip": draw(st.sampled_from([0.0, 0.1, 0.5])),
        "soft": draw(st.sampled_from([False, False, True])),
        "dtype": draw(gen.dtypes()),
        "weight": draw(st.one_of(st.none(), mask_desc(("N1", "NC", "N")))),
        "alpha": draw(st.one_of(st.none(), gen.qfloat(0.0, 1.0, 0.05))),
        "beta": draw(st.one_of(st.none(), gen.qfloat(0.0, 1.0, 0.05))),
        "gamma": draw(st.sampled_from([None, None, 1.0, 1.5, 2.0, 3.0])),
        "eps": draw(st.sampled_from([None, None, 1e-15, 1e-6])),
        "reduction": draw(st.sampled_from(["none", "mean", "sum"])),
        "target_form": target_form,
    }
    if target_form == "labels":
        case["soft"] = False
    return case


def overlap_maps(case):
    shp = full_shape(case)
    u = hash_noise(shp, case["key"], 0.0, 1.0)
    v = hash_noise(shp, case["key"] + 7919, 0.0, 1.0)
    if case["target_form"] == "labels" and case["C"] >= 2:
        # one-hot target from a label map; prediction = target with some labels changed
        lab = np.minimum((hash_noise((shp[0],) + shp[2:], case["key"] + 5, 0.0, 1.0) * case["C"]).astype(np.int64), case["C"] - 1)
        b = np.stack([(lab == c) for c in range(case["C"])], 1).astype(np.float64)
        a = np.where(v < case["flip"], (u < 0.5).astype(np.float64), b)
        return a, b, lab
    a = (u < case["p"]).astype(np.float64)
    b = np.where(v < case["flip"], 1.0 - a, a)
    if case["soft"]:
        a = np.round(a * 0.7 + 0.3 * v, 3)
        b = np.round(b * 0.6 + 0.4 * u, 3)
    lab = b[:, 0].astype(np.int64) if case["C"] == 1 else None
    return a, b, lab


def accepted(kind, what, fn, *args, **kw):
    """Call a deepali function with arguments of a documented form; a ValueError/TypeError rejection is the violation `kind`."""
    try:
        return fn(*args, **kw)
    except (ValueError, TypeError) as e:
        raise Violation(kind, f"{what} raised {type(e).__name__}: {str(e)[:160]}")


def run_overlap(case):
    import deepali.losses.functional as L

    dt = tdtype(case["dtype"])
    shp = full_shape(case)
    a64, b64, lab = overlap_maps(case)
    a, b = T(a64, dt), T(b64, dt)
    ar, br = f32(a), f32(b)
    wd = case["weight"]
    w = T(make_mask(wd, shp, case["key"]), dt)
    w64 = None if w is None else f32(w)
    wref = None if w64 is None else (w64[:, None] if wd["kind"] == "N" else w64)
    w_dice = None if w is None else (w.unsqueeze(1) if wd["kind"] == "N" else w)
    eps = case["eps"]
    e = 1e-15 if eps is None else eps
    kw = {} if eps is None else {"epsilon": eps}
    red = case["reduction"]
    tol = 256 * EPS32
    binary = not case["soft"]
    worst = 0.0
    NC = shp[:2]

    # ---- Dice
    d_ab = L.dice_score(a, b, weight=w_dice, reduction="none", **kw)
    if tuple(d_ab.shape) != NC:
        raise Violation("dice_none_shape", f"dice_score(reduction='none') shape {tuple(d_ab.shape)} != (N, C) = {NC}")
    d64 = as64(d_ab)
    if (d64 < -tol).any() or (d64 > 1 + tol).any():
        raise Violation("dice_range", f"dice_score outside [0, 1]: {d64.min():.6g} .. {d64.max():.6g}")
    worst = max(worst, check_close(L.dice_score(b, a, weight=w_dice, reduction="none", **kw), d64, tol, "dice_symmetry", "dice_score(b, a) != dice_score(a, b)"))
    worst = max(worst, check_close(L.dice_score(a, b, weight=w_dice, reduction=red, **kw), R.reduce_plain(d64, red), tol * max(1.0, d64.size if red == "sum" else 1),
                                   "dice_reduction", f"dice_score reduction {red!r} is not the {red} of the 'none' output"))
    dl = L.dice_loss(a, b, weight=w_dice, reduction="none", **kw)
    worst = max(worst, check_close(dl, 1 - d64, tol, "dice_loss_is_one_minus_score", "dice_loss != 1 - dice_score"))
    worst = max(worst, check_close(L.dice_loss(a, b, weight=w_dice, reduction=red, **kw), R.reduce_plain(1 - d64, red), tol * max(1.0, d64.size if red == "sum" else 1),
                                   "dice_reduction", f"dice_loss reduction {red!r} is not the {red} of the 'none' output"))
    if binary:
        worst = max(worst, check_close(L.dice_score(a, a, weight=w_dice, reduction="none", **kw), 1.0, 4 * EPS32, "dice_identity", "dice_score(a, a) != 1 for a binary map"))
        worst = max(worst, check_close(L.dice_loss(b, b, weight=w_dice, reduction=red, **kw), 0.0, 4 * EPS32 * (d64.size if red == "sum" else 1), "dice_identity", "dice_loss(b, b) != 0 for a binary map"))
        worst = max(worst, check_close(d_ab, R.dice_binary(ar, br, wref, e), tol, "dice_reference", "dice_score vs 2|A n B|/(|A|+|B|) on binary maps"))

    # ---- Tversky index
    alpha, beta = case["alpha"], case["beta"]
    if alpha is None and beta is None:
        al = be = 0.5
    elif alpha is None:
        al, be = 1 - beta, beta
    elif beta is None:
        al, be = alpha, 1 - alpha
    else:
        al, be = alpha, beta
    tkw = dict(kw)
    if alpha is not None:
        tkw["alpha"] = alpha
    if beta is not None:
        tkw["beta"] = beta
    # F26: a 1-channel weight with a 1-channel prediction is rejected
    t_ab = accepted("tversky_weight_rejected", f"tversky_index(input {tuple(a.shape)}, target {tuple(b.shape)}, weight {None if w is None else tuple(w.shape)})",
                    L.tversky_index, a, b, weight=w, reduction="none", **tkw)
    if tuple(t_ab.shape) != NC:
        raise Violation("tversky_none_shape", f"tversky_index(reduction='none') shape {tuple(t_ab.shape)} != (N, C) = {NC}")
    t64 = as64(t_ab)
    if (t64 < -tol).any() or (t64 > 1 + tol).any():
        raise Violation("tversky_range", f"tversky_index outside [0, 1]: {t64.min():.6g} .. {t64.max():.6g}")
    # swapping prediction and target exchanges false positives and false negatives
    skw = dict(kw, alpha=be, beta=al)
    worst = max(worst, check_close(L.tversky_index(b, a, weight=w, reduction="none", **skw), t64, tol, "tversky_swap_symmetry",
                                   "tversky_index(b, a, alpha=beta0, beta=alpha0) != tversky_index(a, b, alpha0, beta0)"))
    worst = max(worst, check_close(L.tversky_index(a, b, weight=w, reduction=red, **tkw), R.reduce_plain(t64, red), tol * max(1.0, t64.size if red == "sum" else 1),
                                   "tversky_reduction", f"tversky_index reduction {red!r} is not the {red} of the 'none' output"))
    if binary:
        worst = max(worst, check_close(L.tversky_index(a, a, weight=w, reduction="none", **tkw), 1.0, 4 * EPS32, "tversky_identity", "tversky_index(a, a) != 1 for a binary map"))
        worst = max(worst, check_close(t_ab, R.tversky_binary(ar, br, wref, al, be, e), tol, "tversky_reference", f"tversky_index(alpha={al}, beta={be}) vs TP/(TP+a FP+b FN)"))
        # alpha = beta = 1/2 on binary inputs is Dice
        t_half = L.tversky_index(a, b, weight=w, alpha=0.5, beta=0.5, reduction="none", **kw)
        tol_d = tol + 100 * e  # epsilon enters the two formulas differently; weighted counts are 0 or >= 0.05
        worst = max(worst, check_close(t_half, d64, tol_d, "tversky_half_is_dice", "tversky_index(alpha=beta=1/2) != dice_score on binary inputs"))
        t_def = L.tversky_index(a, b, weight=w, reduction="none", **kw)
        worst = max(worst, check_close(t_def, d64, tol_d, "tversky_half_is_dice", "tversky_index(default alpha, beta) != dice_score on binary inputs"))
    differ = bool((ar != br).any())

    def result():
        return {"ratio": worst, "nontrivial": differ and shp[0] >= 2,
                "labels": ["binary" if binary else "soft", f"C={shp[1]}", f"N={shp[0]}", f"D={case['D']}", "weight=" + (wd["kind"] if wd else "none"),
                           "gamma" if case["gamma"] and case["gamma"] > 1 else "nogamma", case["target_form"], "a=b" if al == be else "a!=b", red]}

    # regression witnesses may carry 'upto' to stop after the section they are about (never generated)
    if case.get("upto") == "index":
        return result()
    # ---- documented target forms: label map (N, ..., X)
    if case["target_form"] == "labels" and lab is not None:
        lab_t = torch.tensor(lab, dtype=dt) if case["C"] == 1 else torch.tensor(lab)
        t_lab = accepted("tversky_label_map_target_rejected", f"tversky_index(input {tuple(a.shape)}, target labels {tuple(lab_t.shape)} {lab_t.dtype})",
                         L.tversky_index, a, lab_t, weight=w, reduction="none", **tkw)
        worst = max(worst, check_close(t_lab, t64, tol, "tversky_label_map_target", "tversky_index with a label map target (N, ..., X) != one-hot target"))
    if case.get("upto") == "labels":
        return result()
    # ---- Tversky loss = 1 - index, focal exponent
    gamma = case["gamma"]
    lkw = dict(tkw)
    if gamma is not None:
        lkw["gamma"] = gamma
    g = 1.0 if gamma is None else gamma
    exp_none = np.clip(1 - t64, 0.0, None) ** g
    # F11: gamma is passed on to tversky_index, which does not take it
    tl = accepted("tversky_loss_raises", f"tversky_loss(gamma={gamma})", L.tversky_loss, a, b, weight=w, reduction="none", **lkw)
    worst = max(worst, check_close(tl, exp_none, tol * max(1.0, g), "tversky_loss_is_one_minus_index", f"tversky_loss(gamma={gamma}) != (1 - tversky_index)^gamma"))
    worst = max(worst, check_close(L.tversky_loss(a, b, weight=w, reduction=red, **lkw), R.reduce_plain(exp_none, red), tol * max(1.0, g) * max(1.0, t64.size if red == "sum" else 1),
                                   "tversky_reduction", f"tversky_loss reduction {red!r}"))
    return result()


# ---------------------------------------------------------------------------------------
# facet 6: modules of losses.image against the functional forms

MODULES = ("MSE", "L2ImageLoss", "SSD", "MAE", "L1ImageLoss", "HuberImageLoss", "SmoothL1ImageLoss", "NCC", "LCC", "LNCC", "WLCC", "SLCC",
           "Dice", "DSC", "MI", "NMI")


@st.composite
def module_cases(draw):
    cls = draw(st.sampled_from(MODULES))
    mi = cls in ("MI", "NMI")
    D = draw(gen.dims())
    ksz = None
    if cls in ("LCC", "LNCC", "WLCC", "SLCC"):
        ksz = draw(st.sampled_from([None, 3, 5, 7, 9] if D == 2 else [None, 3, 5, 7]))  # None = default kernel size 7
    low = 3 if ksz is None and cls not in ("LCC", "LNCC", "WLCC", "SLCC") else (7 if ksz is None else ksz)
    case = images_base(draw, 12, 8, D=D, min_sizes=[low] * D, max_c=1 if mi else 3)
    case["cls"] = cls
    case["dtype"] = draw(gen.dtypes())
    case["content"] = "noise"
    kinds = ("11", "N1") if mi else ("11", "N1", "NC")
    if cls in ("Dice", "DSC"):
        kinds = ("N1", "NC")
    case["mask"] = draw(st.one_of(st.none(), mask_desc(kinds, soft=not mi)))
    if cls == "NCC" and k6_active():
        case["mask"] = None
    opts = {}
    if cls in ("MSE", "L2ImageLoss", "SSD", "MAE", "L1ImageLoss", "HuberImageLoss", "SmoothL1ImageLoss"):
        opts["norm"] = draw(st.sampled_from(["none", "false", "value", "value", "images", "true_images", "source_only"]))
        opts["norm_value"] = draw(gen.logfloat(0.01, 100.0))
        if cls in ("HuberImageLoss", "SmoothL1ImageLoss"):
            opts["thr_name"] = draw(st.sampled_from(["none", "delta", "beta", "delta", "beta"]))
            opts["thr"] = draw(st.sampled_from([0.1, 0.25, 0.5, 2.0])) * case["R"]
    elif cls in ("NCC", "LCC", "LNCC", "WLCC", "SLCC", "Dice", "DSC"):
        opts["epsilon"] = draw(st.sampled_from([None, 1e-15, 1e-4, 1e-2, 1.0]))
        if cls not in ("NCC", "Dice", "DSC"):
            opts["kernel_size"] = [ksz] * D if ksz is not None and draw(st.booleans()) else ksz
        if cls in ("WLCC", "SLCC"):
            opts["source_mask"] = draw(st.one_of(st.none(), mask_desc(("11", "N1", "NC"))))
            opts["target_mask"] = draw(st.one_of(st.none(), mask_desc(("11", "N1", "NC"))))
    else:
        opts["bins_name"] = draw(st.sampled_from(["num_bins", "bins"]))
        opts["bins"] = draw(st.sampled_from([8, 16, 32]))
        opts["normalized"] = draw(st.booleans()) if cls == "MI" else None
    case["opts"] = opts
    return case


def run_modules(case):
    import deepali.losses as LM
    import deepali.losses.functional as L

    cls = case["cls"]
    opts = case["opts"]
    dt = tdtype(case["dtype"])
    eps = eps_of(dt)
    shp = full_shape(case)
    x64, y64 = make_pair(case)
    if cls in ("Dice", "DSC"):
        x64, y64 = (x64 > np.median(x64)).astype(np.float64), (y64 > np.median(y64)).astype(np.float64)
    x, y = T(x64, dt), T(y64, dt)
    m = T(make_mask(case["mask"], shp, case["key"]), dt)
    ctor = getattr(LM, cls)
    labels = [cls, case["dtype"], "mask=" + (case["mask"]["kind"] if case["mask"] else "none")]
    alt = None  # functional value with the option left at its default (non-triviality of the option)

    if cls in ("MSE", "L2ImageLoss", "SSD", "MAE", "L1ImageLoss", "HuberImageLoss", "SmoothL1ImageLoss"):
        fn = {"MSE": L.mse_loss, "L2ImageLoss": L.mse_loss, "SSD": L.ssd_loss, "MAE": L.mae_loss, "L1ImageLoss": L.mae_loss,
              "HuberImageLoss": L.huber_loss, "SmoothL1ImageLoss": L.smooth_l1_loss}[cls]
        ckw, fkw = {}, {}
        nm = opts["norm"]
        xr, yr = as64(x), as64(y)
        if nm == "false":
            ckw["norm"] = False
        elif nm == "value":
            ckw["norm"] = opts["norm_value"]
            fkw["norm"] = opts["norm_value"]
        elif nm in ("images", "true_images"):
            ckw.update(source=x, target=y)
            if nm == "true_images":
                ckw["norm"] = True
            fkw["norm"] = R.max_difference_sq(xr, yr)
        elif nm == "source_only":
            ckw.update(source=x)
            fkw["norm"] = R.max_difference_sq(xr, xr)
        if cls in ("HuberImageLoss", "SmoothL1ImageLoss"):
            own = "delta" if cls == "HuberImageLoss" else "beta"
            if opts["thr_name"] != "none":
                ckw[opts["thr_name"]] = opts["thr"]
                fkw[own] = opts["thr"]
                alt = fn(x, y, mask=m, **{k: v for k, v in fkw.items() if k != own})
        mod = ctor(**ckw)
        got = mod(x, y, mask=m)
        want = fn(x, y, mask=m, **fkw)
        labels += ["norm=" + nm, "thr=" + opts.get("thr_name", "-")]
        rel = 64 * eps if nm in ("images", "true_images", "source_only") else 4 * eps
    elif cls in ("NCC", "LCC", "LNCC", "WLCC", "SLCC"):
        ckw, fkw = {}, {}
        if opts["epsilon"] is not None:
            ckw["epsilon"] = fkw["epsilon"] = opts["epsilon"]
        if opts.get("kernel_size") is not None:
            ks = kernel_arg(opts["kernel_size"])
            ckw["kernel_size"] = fkw["kernel_size"] = ks
        # the same call without the epsilon option (is the option observable?); the kernel size is kept because
        # the default kernel (7) may exceed the image
        alt_kw = {kk: v for kk, v in fkw.items() if kk == "kernel_size"}
        mod = ctor(**ckw)
        if cls == "NCC":
            got = call_ncc(mod, x, y, m)
            want = call_ncc(L.ncc_loss, x, y, m, **fkw)
            alt = L.ncc_loss(x, y) if m is None and fkw else None
        elif cls in ("LCC", "LNCC"):
            got = mod(x, y, mask=m)
            want = L.lcc_loss(x, y, mask=m, **fkw)
            alt = L.lcc_loss(x, y, mask=m, **alt_kw) if fkw else None
        else:
            sm, tm = T(make_mask(opts["source_mask"], shp, case["key"]), dt), T(make_mask(opts["target_mask"], shp, case["key"]), dt)
            got = mod(x, y, mask=m, source_mask=sm, target_mask=tm)
            want = L.wlcc_loss(x, y, mask=m, source_mask=sm, target_mask=tm, **fkw)
            alt = L.wlcc_loss(x, y, mask=m, source_mask=sm, target_mask=tm, **alt_kw) if fkw else None
        labels += ["eps=" + str(opts["epsilon"]), "k=" + str(opts.get("kernel_size"))]
        rel = 4 * eps_of(torch.float32)
    elif cls in ("Dice", "DSC"):
        ckw = {} if opts["epsilon"] is None else {"epsilon": opts["epsilon"]}
        mod = ctor(**ckw)
        got = mod(x, y, mask=m)
        want = L.dice_loss(x, y, weight=m, **ckw)
        alt = L.dice_loss(x, y, weight=m) if ckw else None
        labels += ["eps=" + str(opts["epsilon"])]
        rel = 4 * eps_of(torch.float32)
    else:
        vmin, vmax = case["lo"], case["lo"] + case["R"]
        ckw = {"vmin": vmin, "vmax": vmax, opts["bins_name"]: opts["bins"]}
        fkw = {"vmin": vmin, "vmax": vmax, "num_bins": opts["bins"]}
        if cls == "MI":
            if opts["normalized"]:
                ckw["normalized"] = True
            fn = L.nmi_loss if opts["normalized"] else L.mi_loss
            other = L.mi_loss if opts["normalized"] else L.nmi_loss
        else:
            fn, other = L.nmi_loss, L.mi_loss
        mod = ctor(**ckw)
        got = mod(x, y, mask=m)
        want = fn(x, y, mask=m, **fkw)
        alt = other(x, y, mask=m, **fkw)
        labels += [f"bins={opts['bins']}", "normalized" if fn is L.nmi_loss else "plain"]
        rel = 64 * eps
    if not isinstance(got, torch.Tensor) or got.shape != want.shape:
        raise Violation("module_mismatch_" + cls, f"{cls}(...)(x, y) returned {type(got).__name__} {getattr(got, 'shape', None)}, functional form {tuple(want.shape)}")
    scale = max(1e-30, float(want.abs().max())) if want.numel() else 1.0
    ratio = check_close(got, as64(want), rel * scale, "module_mismatch_" + cls, f"{cls}({', '.join(sorted(ckw))}) vs functional form with the same options")
    nt = (alt is not None and float((alt.double() - want.double()).abs().max()) > 1e3 * rel * scale) or opts.get("kernel_size") is not None
    return {"ratio": ratio, "nontrivial": bool(nt), "labels": labels}


# ---------------------------------------------------------------------------------------

FACETS = [
    Facet("pointwise", run_pointwise, strategy=pointwise_cases,
          rule="mse/ssd/mae/l1/huber/smooth_l1 on hash-noise images, N,C <= 3, masks (1,1)/(N,1)/(N,C)/(1,C) binary or soft with >= 1 non-zero, "
               "norm float / 0-dim / 1-element tensor, all reductions, float32/float64; non-trivial = mask has zeros and non-zeros and x != y",
          quick=1200, thorough=40000, shards=16, quick_shards=2),
    Facet("correlation_reference", run_corr_reference, strategy=corr_reference_cases,
          rule="ncc/lcc/wlcc on images <= 12^2 / 8^3 against brute-force window sums in float64; kernels 3-9 (int or tuple), epsilon, masks of "
               "every documented shape (wlcc: mask / source_mask / target_mask combinations); non-trivial = > 50 % well-conditioned windows "
               "and reference compared",
          quick=1200, thorough=40000, shards=16, quick_shards=2),
    Facet("correlation_axioms", run_corr_axioms, strategy=corr_axiom_cases,
          rule="ncc/lcc/wlcc on images <= 20^2 / 10^3: range, swap symmetry, identity => 0, invariance under a*x+b (a != 0 both signs) of source, "
               "target or both; non-trivial = (a,b) != (1,0), N >= 2, > 50 % well-conditioned windows",
          quick=800, thorough=30000, shards=16, quick_shards=2),
    Facet("mutual_information", run_mi, strategy=mi_cases,
          rule="mi_loss/nmi_loss, C = 1, explicit vmin/vmax/bins 8-64: swap symmetry, nmi in [0,2], masks (1,1)/(N,1) accepted; levels mode "
               "(interior bin centres, x levels >= 6 bins apart): mi(x,x) <= mi(x,y); non-trivial = N >= 2 or levels mode",
          quick=800, thorough=20000, shards=16, quick_shards=2),
    Facet("overlap", run_overlap, strategy=overlap_cases,
          rule="dice_score/dice_loss/tversky_index/tversky_loss on binary (and soft) maps, weights (N,..)/(N,1,..)/(N,C,..), alpha/beta incl. None, "
               "gamma, label-map targets; non-trivial = maps differ and N >= 2",
          quick=1200, thorough=40000, shards=16, quick_shards=2),
    Facet("modules", run_modules, strategy=module_cases,
          rule="each class of losses.image constructed with generated options vs its functional form with the same options; non-trivial = the "
               "option changes the functional value",
          quick=1200, thorough=40000, shards=16, quick_shards=2),
]
