"""C13 - Composition of flows and velocity fields obeys its algebra."""
from __future__ import annotations

import math

import numpy as np
import torch
from hypothesis import strategies as st

from props.c11 import (affine_field, build_generator, cube_axis, cube_coords, forms, invoke, pollute_coords, pollutions,
                       spoil_result)
from vlib import gen
from vlib.case import hash_noise, smooth_field, tdtype
from vlib.core import EPS32, Facet, Violation, check_close, eps_of

PROPERTY = "C13"
MANIFEST = {
    "text": "Generated-input search (Hypothesis) over dimensions, grid shapes, both align_corners conventions, dtypes, "
            "batch sizes, constructed invariant affine pairs, affine generator pairs (general and commuting), smooth "
            "band-limited voxel-space fields, all truncation orders 0..5, and every argument the API exposes for the "
            "exponential and the logarithm (expv: steps 0..7 even and odd, scale of either sign, inverse; logv: num_iters, "
            "bch_terms 0..5, sigma, exp_steps, spacing as list or per-item tensor; each also omitted to exercise the "
            "defaults). Oracles: float64 numpy "
            "closed forms (composed affine map; matrix commutators of homogeneous generators for the Lie bracket and "
            "for every partial sum of the documented BCH series), exact metamorphic relations (zero field identity, "
            "bilinearity, antisymmetry, independence of batch items, voxel-space independence of the align_corners "
            "convention) and explicit, stated error bounds for the approximate clauses (BCH truncation error growth; "
            "logv(expv(v, scale, steps, inverse), ...) = +-scale v with a bound that is a stated function of the step "
            "counts and the iteration count). "
            "Every call of compose_flows / expv / logv / lie_bracket / compose_svfs in the exact facets, convention_independence "
            "and log_exp is made in a generated argument form (keywords, positional in the documented order, documented "
            "defaults omitted) and the documented positional order is compared with the live signature. Degenerate option "
            "values have closed forms on invariant affine fields: expv(steps=0) = +-scale v, and logv(exp_steps=0, num_iters "
            "0..5, bch_terms 0..5) = the documented fixed-point iteration evaluated with matrices. Purity: calls are preceded "
            "(generated) by in-place modification of Grid.coords() tensors of a grid of the same shape, of gaussian1d() "
            "kernels and of results of earlier identical calls, which must not change the result; arguments stay unmodified. "
            "Exploration: no absence proof; the exact facets pin every grid point to K*eps, discrete errors "
            "(operand order, a coefficient, a sign, a dropped align_corners) are 3-10 orders above the bounds.",
    "note": "Trusted: numpy/scipy (matmul, expm/logm in the self-test), the reference construction of normalised sample "
            "coordinates (props/c11.py), the docstrings of compose_flows / compose_svfs / lie_bracket as the "
            "specification of operand order, series and bracket sign. CPU only; float32/float64; shapes <= 12 (exact "
            "facets), <= 40 (2-D) / 20 (3-D) for the smooth-field facets. The smooth-field bounds (bch_smooth growth "
            "slack, discretisation floor of the log_exp bound) are calibrated on the fixed tree with a safety factor >= 3, "
            "not derived; the step-count and iteration terms of the log_exp bound are first-order derivations with an "
            "allowance factor. Not observable (hence not claimed): whether logv forwards sigma to compose_svfs when brackets "
            "are smoothed (exp_steps forwarding and the exact iteration count are pinned by degenerate_closed_forms with "
            "exp_steps=0 only).",
    "technique": "property-based testing (Hypothesis) with closed-form reference models and metamorphic relations",
}
ASSUMPTIONS = [
    "invariant affine displacement fields are constructed (not filtered): row-wise dominance margins make the sample "
    "hull invariant under x -> x + u(x), so linear interpolation of the second field is exact",
    "Lie bracket sign and operand order are taken from the docstrings: [v,u] = Jac(v) u - Jac(u) v with v the first "
    "argument; compose_flows(u, v) = u(x) + v(x + u(x)); compose_svfs(u, v) ~ log(exp(v) o exp(u)); for affine fields "
    "the bracket is the matrix commutator of the homogeneous generators (self-test checks the documented series against "
    "scipy logm(expm(Gv) expm(Gu)))",
    "finite-difference brackets use spacing cast to float32 by deepali, hence eps32 terms in the bounds even for float64",
    "bch_smooth (CALIBRATED, not derived): e_k = max|exp(bch_k(u,v)) - exp(v) o exp(u)| in samples for smooth "
    "band-limited pairs with amplitude a <= 1 sample, every exponential with the same generated steps in 2..8; "
    "asserted: e_{k+1} - e_k <= 0.25 (e_0 + 0.01 a), k = 0..4; "
    "largest value of (e_{k+1} - e_k)/(e_0 + 0.01 a) measured on the fixed tree over 16906 distinct generated cases "
    "with steps 5..7 is 0.066, re-measured for steps 2, 3, 4, 8 (3238 distinct cases each): 0.059, 0.060, 0.047, 0.046 "
    "(safety 3.8; later terms are legitimately up to ~|Jac|/6 ~ 0.1 of the first correction). NOT asserted "
    "because not robust on the correct tree: pairwise ratio e_{k+1}/e_k (measured up to 1.48 through cancellation), "
    "e_1 <= 0.6 e_0 (measured e_1/e_0 up to 1.03 for pairs with e_0 >= 0.01 a on coarse grids, 1.34 for nearly "
    "commuting ones), and a smaller floor 1e-3 a (heavy tail for nearly commuting pairs)",
    "log_exp: r = logv(expv(v, scale=s, steps=k, inverse=i), num_iters=m, bch_terms=b, sigma=g, exp_steps=k', "
    "spacing consistent with the convention), w = +-s v the scaled field of amplitude a <= 2 samples (v = w/(+-s), "
    "0.25 <= |s| <= 4), grids >= 12 per axis, wave numbers <= 2, k, k' in 3..7 or omitted (5), m in 1..6 or omitted (5), "
    "b in 0..5 or omitted (1), g in {omitted (1.0), None, 0.5, 1, 1.5}. Asserted: max|r - w| <= kappa (0.5 a^2 + 0.25 a) "
    "+ (2^-k + 2^-k') P + min(1, L)^m P samples, kappa = D (pi w_max/(n_min-1))^2, P = max|Dw.w| (float64 central "
    "differences), L = largest adjacent-sample difference of w. First term CALIBRATED (interpolation error floor, "
    "form and constants of the original facet, which used only the defaults). Second term DERIVED: k squarings of "
    "id + w/2^k are Euler steps, expv_k(w) = exp(w - 2^-(k+1) Dw.w + O(4^-k)); logv solves expv_k'(-v') o expv_k(w) = id, "
    "so v' - w = -(2^-k + 2^-k')/2 Dw.w to first order (the Euler errors of the forward and the inverse exponential add "
    "up); allowance factor 2. Third term: the start value exp(w) - id is off by Dw.w/2 and every iteration contracts "
    "the error by about the slope of w (first-order BCH remainder [d, w]/2); allowance 2 on the start error. "
    "Largest measured error/bound on the fixed tree: 0.33 over about 19400 distinct generated cases (13 seeds; safety 3.0); per value of each generated argument "
    "the maximum lies between 0.26 and 0.32, i.e. the stated dependence on k, k', m is adequate and b, g do not "
    "matter at this resolution. Without the second and third term (original bound) the widened generator reaches "
    "0.64 (steps=3). A halving relation err(a/2) <= c err(a) is not asserted (measured ratios 0.1..0.57 leave no "
    "robust constant below 1 with a safety margin); independence of align_corners is checked with a derived "
    "rounding bound (function of steps, iterations and BCH nesting depth, see rounding_bound)",
    "expv arguments in convention_independence and log_exp: the generated field is the scaled field scale*v (sign of "
    "`inverse` included) and the argument passed is v = field/scale, so amplitude and slope of what is exponentiated "
    "(and hence the bounds) do not depend on the generated scale; documented: `scale` is a constant factor of the "
    "flow field, inverse=True is equivalent to negating it",
    "batch items are independent: lie_bracket on a batch equals lie_bracket on each item (with the item's row of a "
    "per-item (N, D) spacing tensor, as documented for flow_derivatives) within the rounding bound of one bracket",
    "logv / compose_svfs are called with `spacing` consistent with the convention (2/(n-1) resp. 2/n): with "
    "spacing=None deepali always uses 2/(n-1), which is documented behaviour of flow_derivatives",
    "argument forms: documented positional order and defaults are the literals SIGNATURES / DEFAULTS of props/c11.py "
    "(order of the 'Args:' sections = signatures of the pinned tree; for lie_bracket the signature order (v, u), which is "
    "the order of the formula [v, u]); a live signature that no longer starts with the documented, positionally "
    "passable parameters is reported as signature_changed:<function>",
    "degenerate_closed_forms: logv is the documented fixed-point iteration (property anchor: v <- BCH(exp(-v) o flow, v), "
    "start value v_0 = flow, so num_iters=0 returns flow); with exp_steps=0 the inner exponential is the documented "
    "zero-step value -v, compose_flows(flow, -v) samples the affine field -v at x + flow(x) inside the sample hull "
    "(exact), and compose_svfs is the documented series with exact finite differences (sigma=None whenever a bracket is "
    "evaluated).  Rounding bound: error bookkeeping of bch_exact_affine chained over the iterations, allowance factor 8",
    "tensors returned by Grid.coords(), kernels.gaussian1d() and by the functions of the property belong to the caller "
    "and may be modified in place; documented aliases: expv(steps=0) and logv(num_iters=0) may return their argument "
    "(fresh copies are passed where such a result is modified)",
]


# ---------------------------------------------------------------------------------------
# reference helpers (float64 numpy, no deepali)


def hom_gen(H: np.ndarray) -> np.ndarray:
    """(D+1)x(D+1) homogeneous generator [[M, t], [0, 0]] of the affine field v(x) = M x + t."""
    D = H.shape[0]
    G = np.zeros((D + 1, D + 1))
    G[:D] = H
    return G


def comm(Gv: np.ndarray, Gu: np.ndarray) -> np.ndarray:
    """[v, u] = Jac(v) u - Jac(u) v for affine fields = Gv Gu - Gu Gv: (BA - AB) x + (B a - A b)."""
    return Gv @ Gu - Gu @ Gv


def bch_terms_doc(Gu: np.ndarray, Gv: np.ndarray):
    """The terms of the series in the compose_svfs docstring, in documented order and nesting.

    w = v + u + 1/2 [v,u] + 1/12 ([v,[v,u]] - [u,[v,u]]) + 1/48 ([[v,[v,u]],u] - [v,[u,[v,u]]])
    """
    vu = comm(Gv, Gu)
    vvu = comm(Gv, vu)
    uvu = comm(Gu, vu)
    return [
        Gv + Gu,
        vu / 2.0,
        vvu / 12.0,
        -uvu / 12.0,
        comm(vvu, Gu) / 48.0,
        -comm(Gv, uvu) / 48.0,
    ]


def bch_doc(Gu, Gv, k: int) -> np.ndarray:
    return sum(bch_terms_doc(Gu, Gv)[: k + 1])


def selftest():
    from scipy.linalg import expm, logm

    rng_vals = hash_noise((2, 3, 4), 7, -1.0, 1.0)
    Gu, Gv = hom_gen(rng_vals[0]), hom_gen(rng_vals[1])
    vvu = comm(Gv, comm(Gv, Gu))
    lhs = comm(vvu, Gu) - comm(Gv, comm(Gu, comm(Gv, Gu)))
    rhs = -2 * comm(Gu, vvu)
    if np.abs(lhs - rhs).max() > 1e-13:
        raise AssertionError("identity of the compose_svfs docstring does not hold for the reference commutator")
    # the documented series is the BCH series of log(expm(Gv) expm(Gu)) (u applied first)
    prev = None
    for k, order in ((0, 2), (1, 3), (3, 4), (5, 5)):
        errs = []
        for s in (0.1, 0.05):
            W = np.real(logm(expm(s * Gv) @ expm(s * Gu)))
            errs.append(np.abs(bch_doc(s * Gu, s * Gv, k) - W).max())
        rate = math.log2(errs[0] / errs[1])
        if not (order - 0.5 < rate < order + 1.5):
            raise AssertionError(f"documented BCH series truncated at {k} terms has order {rate:.2f}, expected {order}")
        if prev is not None and errs[0] >= prev:
            raise AssertionError("documented BCH series does not improve with more terms on small matrices")
        prev = errs[0]
    # sign of the first-order term: swapping operands must be worse
    W = np.real(logm(expm(0.1 * Gv) @ expm(0.1 * Gu)))
    if np.abs(bch_doc(0.1 * Gu, 0.1 * Gv, 1) - W).max() >= np.abs(bch_doc(0.1 * Gv, 0.1 * Gu, 1) - W).max():
        raise AssertionError("operand order of the reference series is wrong")


def unit_of(shape, ac: bool) -> np.ndarray:
    """Size of one sample step in normalised units, per component (x, ...) order."""
    return np.array([2.0 / (n - 1) if ac else 2.0 / n for n in shape[::-1]], dtype=np.float64)


def to_norm(f_vox: np.ndarray, shape, ac: bool) -> np.ndarray:
    """Voxel-unit vectors (N, D, ..., X) -> normalised-cube units of the given convention."""
    D = len(shape)
    return f_vox * unit_of(shape, ac).reshape((1, D) + (1,) * D)


def to_vox(f, shape, ac: bool) -> np.ndarray:
    D = len(shape)
    a = f.detach().double().numpy() if isinstance(f, torch.Tensor) else np.asarray(f, dtype=np.float64)
    return a / unit_of(shape, ac).reshape((1, D) + (1,) * D)


def lipschitz(f: np.ndarray) -> float:
    """Largest difference between adjacent samples (all spatial axes) of an (N, D, ..., X) array."""
    out = 0.0
    for ax in range(2, f.ndim):
        if f.shape[ax] > 1:
            out = max(out, float(np.abs(np.diff(f, axis=ax)).max()))
    return out


def advection_size(f: np.ndarray) -> float:
    """max |Df.f| over batch items, components and samples of an (N, D, ..., X) voxel-unit field: (Df.f)_i =
    sum_j d_j f_i f_j with central differences (one-sided at the boundary), component j along tensor axis D-1-j."""
    N, D = f.shape[:2]
    out = 0.0
    for b in range(N):
        for i in range(D):
            adv = sum(np.gradient(f[b, i], axis=D - 1 - j) * f[b, j] for j in range(D))
            out = max(out, float(np.abs(adv).max()))
    return out


def vox_smooth(shape, waves, amp: float, flip: bool = False, shift: int = 0) -> np.ndarray:
    """(D, ..., X) band-limited field in voxel units, vanishing on the boundary; component c uses rotated waves
    and a fixed sign/size pattern (shift selects another pattern, so that two fields are not multiples)."""
    D = len(shape)
    comps = []
    for c in range(D):
        w = [waves[(c + k + shift) % D] for k in range(D)]
        s = (1.0, -0.7, 0.85, 0.6)[(c + 2 * shift) % 4]
        comps.append(smooth_field(shape, w, amp * s))
    f = np.stack(comps)
    if flip:
        f = f[:, ::-1].copy()
    return f


# ---------------------------------------------------------------------------------------
# facet 1: compose_flows on invariant affine pairs, zero field as two-sided identity


def gen_params(draw, D, mag=0.5, tmag=0.3):
    return {
        "M": draw(st.lists(gen.qfloat(-mag, mag, 0.01), min_size=D * D, max_size=D * D)),
        "t": draw(st.lists(gen.qfloat(-tmag, tmag, 0.01), min_size=D, max_size=D)),
        "m1": draw(st.lists(gen.qfloat(0.0, 1.0, 0.05), min_size=D, max_size=D)),
        "m2": draw(st.lists(gen.qfloat(0.0, 0.3, 0.05), min_size=D, max_size=D)),
    }


def invariant_disp(case, p) -> np.ndarray:
    """Displacement generator H = [A | a] with x -> x + A x + a mapping the sample hull into itself.

    build_generator gives row-wise  A_ii h_i + sum_j |A_ij| h_j + |a_i| <= 0; that condition is homogeneous, so
    dividing by max(1, max_i -A_ii) additionally gives 1 + A_ii >= 0, which together are the invariance condition.
    """
    H = build_generator({"D": case["D"], "shape": case["shape"], "ac": case["ac"], **p})
    D = case["D"]
    s = max(1.0, max(-H[i, i] for i in range(D)))
    return H / s


@st.composite
def compose_cases(draw):
    D = draw(gen.dims())
    shape = draw(st.lists(st.integers(2, 12 if D == 2 else 9), min_size=D, max_size=D))
    return {
        "D": D, "shape": shape, "ac": draw(st.booleans()), "dtype": draw(gen.dtypes()), "N": draw(st.integers(1, 3)),
        "u": gen_params(draw, D), "v": gen_params(draw, D),
        "v_free": draw(st.booleans()),  # second field: arbitrary affine (no invariance needed for exactness)
        "form": draw(forms()),  # align_corners by keyword / positionally / omitted when it is the documented default
        "pollute": draw(pollutions()),
        "key": draw(st.integers(0, 10 ** 6)),
    }


def run_compose(case):
    from deepali.core import functional as U

    D, shape, ac, N = case["D"], case["shape"], case["ac"], case["N"]
    dt = tdtype(case["dtype"])
    eps = eps_of(dt)
    x = cube_coords(shape, ac)
    Hu0 = invariant_disp(case, case["u"])
    if case["v_free"]:
        Hv0 = np.concatenate([np.array(case["v"]["M"]).reshape(D, D), np.array(case["v"]["t"])[:, None]], axis=1)
    else:
        Hv0 = invariant_disp(case, case["v"])
    pairs = []
    for b in range(N):
        Hu, Hv = Hu0 / (b + 1), Hv0 / (b + 1)
        if b % 2 == 1 and not case["v_free"]:
            Hu, Hv = Hv, Hu  # both invariant: swapped roles for odd items
        pairs.append((Hu, Hv))
    u = torch.tensor(np.stack([affine_field(Hu, x) for Hu, _ in pairs]), dtype=dt)
    v = torch.tensor(np.stack([affine_field(Hv, x) for _, Hv in pairs]), dtype=dt)
    u0, v0 = u.clone(), v.clone()

    form = case.get("form") or ("kw" if case.get("ac_kw", True) else "pos")

    def compose(a, b):
        return invoke("compose_flows", U.compose_flows, form, [a, b], {"align_corners": ac})

    pollute_coords(shape, ac, dt, case.get("pollute"))
    w = compose(u, v)
    if w.shape != u.shape or w.dtype != u.dtype:
        raise Violation("compose_shape_dtype", f"result {tuple(w.shape)} {w.dtype} for input {tuple(u.shape)} {u.dtype}")
    worst = 0.0
    for b, (Hu, Hv) in enumerate(pairs):
        A, a, B, c = Hu[:, :D], Hu[:, D], Hv[:, :D], Hv[:, D]
        W = A + B + B @ A  # w(x) = u(x) + v(x + u(x)) = (A + B + B A) x + (a + B a + c)
        t = a + B @ a + c
        expect = np.moveaxis(x @ W.T + t, -1, 0)
        mag = max(1.0, float(np.abs(Hu).sum(1).max()), float(np.abs(Hv).sum(1).max()))
        bound = 64 * eps * mag * mag
        worst = max(worst, check_close(w[b], expect, bound, "compose_affine_exact",
                                       f"compose_flows(u, v, {ac}) vs u(x)+v(x+u(x)) of the affine maps, item {b}"))
    if not (torch.equal(u, u0) and torch.equal(v, v0)):
        raise Violation("compose_input_modified", "compose_flows modified an argument")
    # zero field: two-sided identity, for arbitrary content (hash noise, amplitude 1 in normalised units)
    f = torch.tensor(hash_noise((N, D) + tuple(shape), case["key"], -1.0, 1.0), dtype=dt)
    z = torch.zeros_like(f)
    # compose(0, f) samples f at the grid points: index rounding n*eps times adjacent difference (<= 2)
    bid = 16 * eps * (max(shape) * 2.0 + 1.0)
    worst = max(worst, check_close(compose(z, f), f, bid, "zero_left_identity", f"compose_flows(0, f, {ac}) != f"))
    worst = max(worst, check_close(compose(f, z), f, 4 * eps, "zero_right_identity", f"compose_flows(f, 0, {ac}) != f"))
    # the result belongs to the caller: modifying it in place must change neither the arguments nor a later result
    snap = w.clone()
    spoil_result(w)
    if not (torch.equal(u, u0) and torch.equal(v, v0)):
        raise Violation("compose_result_shares_memory", "modifying the result of compose_flows in place changed an argument")
    check_close(compose(u, v), snap, 2 * eps * max(1.0, float(snap.abs().max())), "compose_depends_on_earlier_result",
                "compose_flows: same arguments, different result after the first result was modified in place")
    offd = any(abs(Hu0[i, j]) > 0.01 for i in range(D) for j in range(D) if i != j)
    noncomm = float(np.abs(Hv0[:, :D] @ Hu0[:, :D] - Hu0[:, :D] @ Hv0[:, :D]).max()) > 1e-3
    return {"ratio": worst, "nontrivial": offd and noncomm and len(set(shape)) > 1,
            "labels": [f"D={D}", f"ac={ac}", case["dtype"], f"N={N}", "v_free" if case["v_free"] else "v_invariant",
                       "order_sensitive" if noncomm else "order_insensitive", f"form={form}",
                       f"pollute={case.get('pollute')}"]}


# ---------------------------------------------------------------------------------------
# facet 2: voxel-space result independent of the align_corners convention


@st.composite
def convention_cases(draw):
    D = draw(gen.dims())
    op = draw(st.sampled_from(["compose", "expv", "logv", "logv"]))
    hi = (24 if D == 2 else 10) if op != "compose" else (24 if D == 2 else 12)
    shape = draw(st.lists(st.integers(2 if op == "compose" else 5, hi), min_size=D, max_size=D))
    case = {
        "D": D, "shape": shape, "op": op, "dtype": draw(gen.dtypes()), "N": draw(st.integers(1, 2)),
        "amp": draw(gen.qfloat(0.1, 3.0 if op == "compose" else 1.5, 0.05)),
        "waves": draw(st.lists(st.integers(1, 2), min_size=D, max_size=D)),
        "noise": draw(st.sampled_from([0.0, 0.0, 0.05, 0.2])) if op != "compose" else draw(gen.qfloat(0.0, 2.0, 0.1)),
        "key": draw(st.integers(0, 10 ** 6)),
        "form": draw(forms()), "pollute": draw(pollutions()),
    }
    if op == "expv":
        case["steps"] = draw(st.one_of(st.none(), st.integers(0, 7)))
        case["inverse"] = draw(st.booleans())
        case["scale"] = draw(scales())
    if op == "logv":
        case["steps"] = draw(st.one_of(st.none(), st.integers(2, 7)))  # of the exponential that is inverted
        case["iters"] = draw(st.one_of(st.none(), st.integers(0, 6)))  # None: argument omitted (default 5)
        case["bch_terms"] = draw(st.one_of(st.none(), st.integers(0, 5)))  # None: omitted (default 1)
        case["sigma"] = draw(st.sampled_from(["default", None, 0.5, 1.0, 1.5]))  # "default": omitted (1.0)
        case["exp_steps"] = draw(st.one_of(st.none(), st.integers(2, 7)))
    return case


def scales():
    """`scale` of expv: None (omitted) or a non-zero factor of either sign with 0.25 <= |scale| <= 4."""
    mag = st.one_of(st.sampled_from([1.0, 0.5, 2.0]), gen.qfloat(0.25, 4.0, 0.05))
    return st.one_of(st.none(), st.builds(lambda m, neg: -m if neg else m, mag, st.booleans()))


def signed_scale(case) -> float:
    """Factor by which expv(., scale=case['scale'], inverse=case['inverse']) multiplies the velocity field."""
    s = case.get("scale")
    s = 1.0 if s is None else float(s)
    return -s if case.get("inverse") else s


def expv_kwargs(case) -> dict:
    kw = {}
    if case.get("steps") is not None:
        kw["steps"] = case["steps"]
    if case.get("scale") is not None:
        kw["scale"] = case["scale"]
    if case.get("inverse"):
        kw["inverse"] = True
    return kw


def logv_kwargs(case) -> dict:
    """Only the generated arguments are passed, omitted ones exercise the defaults of the signature."""
    kw = {}
    if case.get("iters") is not None:
        kw["num_iters"] = case["iters"]
    if case.get("bch_terms") is not None:
        kw["bch_terms"] = case["bch_terms"]
    if case.get("sigma", "default") != "default":
        kw["sigma"] = case["sigma"]
    if case.get("exp_steps") is not None:
        kw["exp_steps"] = case["exp_steps"]
    return kw


def rounding_bound(eps, n, a, L, D, steps, iters=None, bch_terms=0):
    """Derived bound (index units) on the difference of two evaluations of expv (iters=None) or logv that differ
    only by rounding, for fields of amplitude a and adjacent-sample difference L on grids of at most n samples.

    base: positions carry n*eps of index error, which is multiplied by the adjacent-sample difference L of the
    sampled field; values carry eps*amplitude.  expv: squaring doubles absolute errors, which were introduced at
    2^-(k-j) scale: ~ steps * base, amplified by prod_j (1 + L_j/2) <= exp(L_final) with L_final <= e^L - 1 the
    Lipschitz constant of the exponential.  logv, per iteration: one exponential, one composition, and the BCH
    series whose Jacobians use a spacing cast to float32 (relative eps32 on each Jacobian entry <= L, times
    |u| <= a, D terms: e1); a bracket applied to a field that carries an absolute error d returns an error
    <= g d with g = D (L + 2 a) (Jac(v) d <= D L d, Jac(d) v <= D 2 d a), so the nested terms of the series with
    coefficients 1/2, 1/12, 1/12, 1/48, 1/48 (twice the coefficient as allowance) contribute
    e1 (1, g/6, g/6, g^2/24, g^2/24)."""
    base = 64 * eps * (n * max(L, 0.05) + max(a, 1.0))
    if iters is None and steps == 0:
        return base
    ampl = math.exp(math.expm1(min(L, 2.0)))
    bound = base * (steps + 1) * ampl
    if iters is None:
        return bound
    g = D * (max(L, 0.05) + 2.0 * max(a, 1.0))
    F = [1.0, 1.0, 1.0 + g / 6, 1.0 + g / 3, 1.0 + g / 3 + g * g / 24, 1.0 + g / 3 + g * g / 12][bch_terms]
    e1 = 64 * max(EPS32, eps) * D * max(L, 0.05) * max(a, 1.0)
    return max(iters, 1) * (bound + base + F * e1)


def voxel_fields(case, second=False, vary_items=False):
    """(N, D, ..., X) voxel-unit fields; vary_items: every batch item gets its own wave pattern, amplitude and
    orientation (so that mixing up batch items is observable), otherwise items b >= 1 are -0.6 times item 0."""
    D, shape, N = case["D"], case["shape"], case["N"]
    items = []
    for b in range(N):
        waves = case["waves"] if not second else case["waves"][::-1]
        amp = case["amp"] * (1.0 if b == 0 else -0.6) * (0.8 if second else 1.0)
        flip = second
        if vary_items and b >= 1:
            waves = [waves[(k + b) % D] for k in range(D)]
            amp = case["amp"] * (1.0, -0.6, 0.8)[b % 3] * (0.8 if second else 1.0)
            flip = second != (b == 2)
        f = vox_smooth(shape, waves, amp, flip=flip, shift=b if vary_items else 0)
        if case["noise"]:
            f = f + hash_noise(f.shape, case["key"] + 17 * b + (5 if second else 0), -case["noise"], case["noise"])
        items.append(f)
    return np.stack(items)


def run_convention(case):
    from deepali.core import functional as U

    D, shape, op = case["D"], case["shape"], case["op"]
    dt = tdtype(case["dtype"])
    eps = eps_of(dt)
    fv = voxel_fields(case)
    gv = voxel_fields(case, second=True) if op == "compose" else None
    # expv: the generated field is the *scaled* velocity field scale * v (sign of `inverse` included), the argument
    # is v = field / scale, so amplitude and slope of what is exponentiated do not depend on the generated scale
    sc = signed_scale(case) if op == "expv" else 1.0
    out = {}
    form = case.get("form", "kw")
    for ac in (True, False):
        f = torch.tensor(to_norm(fv / sc, shape, ac), dtype=dt)
        pollute_coords(shape, ac, dt, case.get("pollute"))
        if op == "compose":
            g = torch.tensor(to_norm(gv, shape, ac), dtype=dt)
            r = invoke("compose_flows", U.compose_flows, form, [f, g], {"align_corners": ac})
        elif op == "expv":
            r = invoke("expv", U.expv, form, [f], dict(expv_kwargs(case), align_corners=ac))
        else:
            sp = [float(s) for s in unit_of(shape, ac)]
            e = invoke("expv", U.expv, form, [f], dict(expv_kwargs(case), align_corners=ac))
            r = invoke("logv", U.logv, form, [e], dict(logv_kwargs(case), spacing=sp, align_corners=ac))
        if r.shape != f.shape:
            raise Violation("convention_shape", f"{op}: result shape {tuple(r.shape)} != {tuple(f.shape)}")
        out[ac] = to_vox(r, shape, ac)
    n = max(shape)
    a = float(np.abs(fv).max()) * max(1.0, 1.0 / abs(sc)) + (float(np.abs(gv).max()) if gv is not None else 0.0)
    L = lipschitz(gv if gv is not None else fv)
    if op == "compose":
        bound = rounding_bound(eps, n, a, L, D, 0)
    elif op == "expv":
        bound = rounding_bound(eps, n, a, L, D, 5 if case.get("steps") is None else case["steps"])
    else:
        steps = max(case.get("steps") or 5, case.get("exp_steps") or 5)  # documented default of expv: 5
        iters = 5 if case.get("iters") is None else case["iters"]
        bt = 1 if case.get("bch_terms") is None else case["bch_terms"]
        bound = rounding_bound(eps, n, a, L, D, steps, iters, bt)
    kind = {"compose": "convention_dependent_compose", "expv": "convention_dependent_expv", "logv": "convention_dependent_logv"}[op]
    ratio = check_close(out[True], out[False], bound, kind,
                        f"voxel-space {op} differs between align_corners=True and False (a={case['amp']}, shape={shape})")
    labels = [f"op={op}", f"D={D}", case["dtype"], f"N={case['N']}", "noise" if case["noise"] else "smooth", f"form={form}",
              f"pollute={case.get('pollute')}"]
    if op == "expv":
        labels += [f"steps={case.get('steps')}", "scale=omitted" if case.get("scale") is None else
                   ("scale<0" if case["scale"] < 0 else "scale>0"), f"inverse={bool(case.get('inverse'))}"]
    if op == "logv":
        labels += [f"exp_steps={case.get('exp_steps')}", f"iters={case.get('iters')}", f"bch_terms={case.get('bch_terms')}",
                   f"sigma={case.get('sigma', 'default')}"]
    return {"ratio": ratio, "nontrivial": case["amp"] >= 0.3 and len(set(shape)) > 1, "labels": labels}


# ---------------------------------------------------------------------------------------
# affine fields sampled on a physical lattice (shared by facets 3 and 4)


def lattice_coords(shape, spacing, offset) -> np.ndarray:
    """Points x_j = (i_j - (n_j-1)/2) s_j + o_j, array (..., X, D), component order (x, ...)."""
    D = len(shape)
    axes = []
    for ax in range(D):  # tensor axis order (..., X); component index D-1-ax
        c = D - 1 - ax
        n = shape[ax]
        axes.append((np.arange(n, dtype=np.float64) - (n - 1) / 2.0) * spacing[c] + offset[c])
    mesh = np.meshgrid(*axes, indexing="ij")
    return np.stack(mesh[::-1], axis=-1)


class AField:
    """Affine field with first-order error bookkeeping: G homogeneous generator, fmax = max |values| on the lattice,
    err = bound on the absolute error of the computed samples."""

    def __init__(self, G, x, err):
        D = G.shape[0] - 1
        self.G = G
        self.vals = np.moveaxis(x @ G[:D, :D].T + G[:D, D], -1, 0)
        self.fmax = float(np.abs(self.vals).max())
        self.minf = float(np.abs(G[:D, :D]).sum(1).max())
        self.ment = float(np.abs(G[:D, :D]).max())
        self.err = err


def bracket_model(F: AField, Gf: AField, x, eps, smin) -> AField:
    """[F, G] with the error bound of forward/central/backward differences (see DESIGN C12/C13 and the facet text):
    Jacobian entry error = 2 err/s_min (differences of perturbed samples) + (eps32 + 2 eps) |J| (float32 spacing)."""
    D = F.G.shape[0] - 1
    eJF = 2 * F.err / smin + (EPS32 + 2 * eps) * F.ment
    eJG = 2 * Gf.err / smin + (EPS32 + 2 * eps) * Gf.ment
    err = (D * eJF * Gf.fmax + F.minf * Gf.err + D * eJG * F.fmax + Gf.minf * F.err
           + 4 * D * eps * (F.minf * Gf.fmax + Gf.minf * F.fmax))
    return AField(comm(F.G, Gf.G), x, err)


def bch_model(Fu: AField, Fv: AField, x, eps, smin):
    """Partial sums of the documented series (values) with accumulated error bounds, k = 0..5."""
    vu = bracket_model(Fv, Fu, x, eps, smin)
    vvu = bracket_model(Fv, vu, x, eps, smin)
    uvu = bracket_model(Fu, vu, x, eps, smin)
    t4 = bracket_model(vvu, Fu, x, eps, smin)
    t5 = bracket_model(Fv, uvu, x, eps, smin)
    terms = [(1.0, None), (0.5, vu), (1 / 12, vvu), (-1 / 12, uvu), (1 / 48, t4), (-1 / 48, t5)]
    vals = Fu.vals + Fv.vals
    err = Fu.err + Fv.err + eps * (Fu.fmax + Fv.fmax)
    out = [(vals.copy(), err)]
    for c, T in terms[1:]:
        vals = vals + c * T.vals
        err = err + abs(c) * (T.err + 2 * eps * T.fmax) + eps * float(np.abs(vals).max())
        out.append((vals.copy(), err))
    return out, vu


def raw_gen(p, D, scale=1.0) -> np.ndarray:
    H = np.concatenate([np.array(p["M"], dtype=np.float64).reshape(D, D), np.array(p["t"], dtype=np.float64)[:, None]], axis=1)
    return H * scale


@st.composite
def lattice(draw, lo=3, hi2=10, hi3=7):
    D = draw(gen.dims())
    shape = draw(st.lists(st.integers(lo, hi2 if D == 2 else hi3), min_size=D, max_size=D))
    kind = draw(st.sampled_from(["cube_T", "cube_F", "iso", "aniso", "aniso"]))
    if kind == "iso":
        sp = [draw(gen.logfloat(0.05, 2.0))] * D
    elif kind == "aniso":
        sp = draw(st.lists(gen.logfloat(0.05, 2.0), min_size=D, max_size=D))
    else:
        sp = [float(s) for s in unit_of(shape, kind == "cube_T")]
    off = draw(st.lists(gen.qfloat(-1.0, 1.0, 0.05), min_size=D, max_size=D)) if kind in ("iso", "aniso") else [0.0] * D
    return {"D": D, "shape": shape, "spacing_kind": kind, "spacing": sp, "offset": off}


def free_params(draw, D):
    return {"M": draw(st.lists(gen.qfloat(-1.0, 1.0, 0.01), min_size=D * D, max_size=D * D)),
            "t": draw(st.lists(gen.qfloat(-1.0, 1.0, 0.01), min_size=D, max_size=D))}


ITEM_FACTORS = (1.0, 1.5, 0.75)


def item_spacing(case, b):
    """Spacing (x, ...) of batch item b: the generated spacing for every item, except for spacing_form
    'tensor_items' (documented (N, D) tensor with a separate spacing per batch item), where item b uses the
    generated spacing rotated by b components and multiplied by (1, 1.5, 0.75)[b]."""
    sp = [float(v) for v in case["spacing"]]
    if case.get("spacing_form") == "tensor_items" and b:
        D = len(sp)
        sp = [sp[(c + b) % D] * ITEM_FACTORS[b % 3] for c in range(D)]
    return sp


def spacing_arg(case, items=None):
    """The `spacing` argument in the generated form (list, scalar when isotropic, or (N, D) tensor with equal or
    different rows); items: batch items of a sub-batch (rows of the tensor forms)."""
    sp = case["spacing"]
    form = case.get("spacing_form", "list")
    if form == "scalar" and len(set(sp)) == 1:
        return sp[0]
    if form in ("tensor", "tensor_items"):
        items = range(case["N"]) if items is None else items
        return torch.tensor([item_spacing(case, b) for b in items], dtype=torch.float64)
    return list(sp)


def item_lattices(case):
    """Per batch item: lattice coordinates (..., X, D) and smallest spacing."""
    xs = [lattice_coords(case["shape"], item_spacing(case, b), case["offset"]) for b in range(case["N"])]
    return xs, [min(item_spacing(case, b)) for b in range(case["N"])]


# ---------------------------------------------------------------------------------------
# facet 3: Lie bracket algebra


FD_MODES = [None, "forward_central_backward", "central", "forward", "backward", "sobel", "prewitt"]


@st.composite
def bracket_cases(draw):
    case = draw(lattice())
    D = case["D"]
    case.update({
        "N": draw(st.integers(1, 3)), "dtype": draw(gen.dtypes()),
        "mode": draw(st.sampled_from(FD_MODES)), "sigma": draw(st.sampled_from([None, None, 1.0, 0.7])),
        "use_default_spacing": draw(st.sampled_from([False, False, False, True])),
        "spacing_form": draw(st.sampled_from(["list", "scalar", "tensor", "tensor_items"])),
        "alpha": draw(gen.qfloat(-2.0, 2.0, 0.05)), "beta": draw(gen.qfloat(-2.0, 2.0, 0.05)),
        "key": draw(st.integers(0, 10 ** 6)),
        "u": free_params(draw, D), "v": free_params(draw, D),
        "content": draw(st.sampled_from(["noise", "smooth+noise", "affine"])),
        "form": draw(forms()), "pollute": draw(st.booleans()),
    })
    return case


def generic_fields(case, xs):
    """Three (N, D, ..., X) float64 arrays of 'arbitrary' content (xs: lattice coordinates per batch item)."""
    D, shape, N = case["D"], case["shape"], case["N"]
    out = []
    for m in range(3):
        if case["content"] == "affine":
            H = raw_gen(case["u"] if m != 1 else case["v"], D, 1.0 if m < 2 else -0.5)
            f = np.stack([affine_field(H / (b + 1), xs[b]) for b in range(N)])
            if m == 2:
                f = f + hash_noise(f.shape, case["key"] + 2, -0.2, 0.2)
        else:
            f = hash_noise((N, D) + tuple(shape), case["key"] + m, -1.0, 1.0)
            if case["content"] == "smooth+noise":
                f = 0.2 * f + np.stack([vox_smooth(shape, [1 + (m + k) % 2 for k in range(D)], 1.0) for _ in range(N)])
        out.append(f)
    return out


def run_bracket(case):
    from deepali.core import functional as U

    D, shape, N = case["D"], case["shape"], case["N"]
    dt = tdtype(case["dtype"])
    eps = eps_of(dt)
    xs, smins = item_lattices(case)
    kw = {"mode": case["mode"], "sigma": case["sigma"]}
    if case["use_default_spacing"]:
        smin = float(unit_of(shape, True).min())  # documented default of flow_derivatives: 2/(n-1)
    else:
        kw["spacing"] = spacing_arg(case)
        smin = min(smins)
    f1, f2, g = [torch.tensor(a, dtype=dt) for a in generic_fields(case, xs)]
    al, be = case["alpha"], case["beta"]

    form = case.get("form", "kw")
    def lb(a, b):
        r = invoke("lie_bracket", U.lie_bracket, form, [a, b], kw)
        if r.shape != a.shape:
            raise Violation("bracket_shape", f"lie_bracket result {tuple(r.shape)} for input {tuple(a.shape)}")
        return r

    R = max(float(f1.abs().max()), float(f2.abs().max()), float(g.abs().max()), 1e-3)
    jmax = 2 * R / smin  # any difference quotient of values in [-R, R]
    # each bracket component: 2 D products J*u of magnitude <= jmax R, J itself carries eps relative rounding
    rb = 64 * eps * D * jmax * R
    worst = 0.0
    f1_0, g_0 = f1.clone(), g.clone()
    if case.get("pollute"):
        # result before other owners of shared-looking tensors modify them in place: (1) the first result itself,
        # (2) a kernel obtained from the public helper that the Gaussian pre-smoothing uses
        before = lb(f1, g)
        snap = before.clone()
        spoil_result(before)
        if case["sigma"]:
            from deepali.core import kernels as K

            for t in (torch.float, dt):
                for dev in (None, torch.device("cpu")):
                    K.gaussian1d(case["sigma"], dtype=t, device=dev).mul_(-2.0).add_(0.5)
        worst = max(worst, check_close(lb(f1, g), snap, rb / 16, "bracket_depends_on_shared_state",
                                       "lie_bracket(v, u): same arguments, different result after the first result and a "
                                       "gaussian1d() kernel of another caller were modified in place"))
    b12 = lb(f1, g)
    b21 = lb(g, f1)
    if not (torch.equal(f1, f1_0) and torch.equal(g, g_0)):
        raise Violation("bracket_input_modified", "lie_bracket modified an argument")
    worst = max(worst, check_close(b12, -b21.double(), rb, "bracket_antisymmetry", "[v,u] != -[u,v]"))
    worst = max(worst, check_close(lb(f1, f1), torch.zeros_like(f1), rb, "bracket_self_nonzero", "[v,v] != 0"))
    c = abs(al) + abs(be) + 1.0
    lin = al * f1 + be * f2
    worst = max(worst, check_close(lb(lin, g), al * b12.double() + be * lb(f2, g).double(), rb * c,
                                   "bracket_linear_first", "[a v1 + b v2, u] != a [v1,u] + b [v2,u]"))
    worst = max(worst, check_close(lb(g, lin), al * b21.double() + be * lb(g, f2).double(), rb * c,
                                   "bracket_linear_second", "[v, a u1 + b u2] != a [v,u1] + b [v,u2]"))
    # batch items are independent fields: item b of the batched result is the bracket of the items b alone
    # (same rounding bound; with a per-item spacing tensor the row of that item is passed)
    if N > 1:
        for b in range(N):
            kwb = dict(kw)
            if isinstance(kw.get("spacing"), torch.Tensor):
                kwb["spacing"] = spacing_arg(case, items=[b])
            single = invoke("lie_bracket", U.lie_bracket, form, [f1[b:b + 1], g[b:b + 1]], kwb)
            worst = max(worst, check_close(b12[b:b + 1], single.double(), rb, "bracket_batch_item",
                                           f"item {b} of lie_bracket(v, u) on a batch of {N} != lie_bracket(v[{b}], u[{b}])"))
    # analytic value on affine fields (exact for forward/central/backward differences, no smoothing)
    analytic = case["mode"] in (None, "forward_central_backward") and not case["sigma"] and not case["use_default_spacing"]
    nz = False
    if analytic:
        models, us, vs = [], [], []
        for b in range(N):
            Fu = AField(hom_gen(raw_gen(case["u"], D, 1.0 / (b + 1))), xs[b], 0.0)
            Fv = AField(hom_gen(raw_gen(case["v"], D, 1.0 / (b + 1))), xs[b], 0.0)
            Fu.err, Fv.err = eps * Fu.fmax, eps * Fv.fmax
            us.append(Fu.vals)
            vs.append(Fv.vals)
            models.append(bracket_model(Fv, Fu, xs[b], eps, smins[b]))
        got = invoke("lie_bracket", U.lie_bracket, form, [torch.tensor(np.stack(vs), dtype=dt), torch.tensor(np.stack(us), dtype=dt)], kw)
        for b, m in enumerate(models):
            nz = nz or float(np.abs(m.vals).max()) > 1e-2
            worst = max(worst, check_close(got[b], m.vals, 8 * m.err + 1e-300, "bracket_analytic",
                                           "lie_bracket(v, u) != Jac(v) u - Jac(u) v = (BA-AB)x + (Ba-Ab) on affine fields"))
    labels = [f"D={D}", case["dtype"], f"N={N}", f"mode={case['mode']}", f"sigma={case['sigma']}", case["content"],
              "spacing=default" if case["use_default_spacing"] else f"spacing={case['spacing_kind']}/{case['spacing_form']}",
              "analytic" if analytic else "algebra_only", f"form={form}"]
    return {"ratio": worst, "nontrivial": (nz or not analytic) and len(set(shape)) > 1, "labels": labels}


# ---------------------------------------------------------------------------------------
# facet 4: BCH partial sums are exact on affine fields; commuting pairs give u + v for every k


@st.composite
def bch_affine_cases(draw):
    case = draw(lattice(hi2=9, hi3=6))
    D = case["D"]
    case.update({
        "N": draw(st.integers(1, 3)), "dtype": draw(gen.dtypes()),
        "pair": draw(st.sampled_from(["general", "general", "general", "scalar_multiple", "translations", "diagonal",
                                      "generic_scalar_multiple"])),
        "mode": draw(st.sampled_from(["forward_central_backward", "forward_central_backward", None])),
        "spacing_form": draw(st.sampled_from(["list", "scalar", "tensor", "tensor_items"])),
        "u": free_params(draw, D), "v": free_params(draw, D),
        "c": draw(gen.qfloat(-2.0, 2.0, 0.05)),
        "key": draw(st.integers(0, 10 ** 6)),
        "form": draw(forms()),
    })
    return case


ITEM_C = (1.0, -0.5, 0.75)  # factor of the generated multiplier c for batch item b (commuting pairs)


def pair_generators(case, b):
    """(Hu, Hv) of batch item b for the pair kind.  Items are built from different generators (roles of the two
    generated parameter sets swapped for odd b, scaled by 1/(b+1)), so that fields of *different* items neither
    commute nor are multiples of each other: pairing data of the wrong item is observable also for commuting pairs."""
    D = case["D"]
    Hu = raw_gen(case["u"], D, 1.0 / (b + 1))
    Hv = raw_gen(case["v"], D, 1.0 / (b + 1))
    if b % 2 == 1:
        Hu, Hv = Hv, Hu
    kind = case["pair"]
    if kind == "scalar_multiple":
        Hv = case["c"] * ITEM_C[b % 3] * Hu
    elif kind == "translations":
        Hu[:, :D] = 0.0
        Hv[:, :D] = 0.0
    elif kind == "diagonal":
        Hu = np.concatenate([np.diag(np.diag(Hu[:, :D])), np.zeros((D, 1))], axis=1)
        Hv = np.concatenate([np.diag(np.diag(Hv[:, :D])), np.zeros((D, 1))], axis=1)
    return Hu, Hv


def run_bch_affine(case):
    from deepali.core import functional as U

    D, shape, N = case["D"], case["shape"], case["N"]
    dt = tdtype(case["dtype"])
    eps = eps_of(dt)
    xs, smins = item_lattices(case)
    smin = min(smins)
    kw = {"mode": case["mode"], "spacing": spacing_arg(case)}
    form = case.get("form", "kw")

    def svfs(a, b, **more):
        return invoke("compose_svfs", U.compose_svfs, form, [a, b], dict(kw, **more))

    commuting = case["pair"] != "general"
    worst = 0.0
    nz = False
    if case["pair"] == "generic_scalar_multiple":
        # any field commutes with its scalar multiples: [c f, f] = c (J f - J f) = 0 for a linear derivative operator
        f = hash_noise((N, D) + tuple(shape), case["key"], -1.0, 1.0)
        f = 0.3 * f + np.stack([vox_smooth(shape, [1 + k % 2 for k in range(D)], 1.0) for _ in range(N)])
        cs = np.array([case["c"] * ITEM_C[b % 3] for b in range(N)]).reshape((N,) + (1,) * (D + 1))  # per item
        u = torch.tensor(f, dtype=dt)
        v = torch.tensor(cs * f, dtype=dt)
        R = max(float(u.abs().max()), float(v.abs().max()))
        j = 2 * R / smin
        e1 = 64 * eps * D * j * R  # rounding of one bracket (as in bracket_algebra)
        # deeper brackets differentiate the rounding noise of the previous level: factor 2 D (j + R / smin) per level
        amp = 2 * D * (j + R / smin)
        errs = [0.0, e1, e1 * amp, e1 * amp, e1 * amp * amp, e1 * amp * amp]
        for k in range(6):
            w = svfs(u, v, bch_terms=k)
            bound = 4 * eps * R + sum(errs[: k + 1])
            worst = max(worst, check_close(w, u.double() + v.double(), bound, "bch_commuting_not_sum",
                                           f"compose_svfs(f, c f, bch_terms={k}) != f + c f"))
        nz = abs(case["c"]) > 0.05
    else:
        us, vs, models = [], [], []
        for b in range(N):
            Hu, Hv = pair_generators(case, b)
            Fu, Fv = AField(hom_gen(Hu), xs[b], 0.0), AField(hom_gen(Hv), xs[b], 0.0)
            Fu.err, Fv.err = eps * Fu.fmax, eps * Fv.fmax
            us.append(Fu.vals)
            vs.append(Fv.vals)
            models.append(bch_model(Fu, Fv, xs[b], eps, smins[b]))
        u = torch.tensor(np.stack(us), dtype=dt)
        v = torch.tensor(np.stack(vs), dtype=dt)
        u_0, v_0 = u.clone(), v.clone()
        for k in range(6):
            w = svfs(u, v, bch_terms=k)
            if k == case["key"] % 6:
                spoil_result(w)  # the result belongs to the caller
                w = svfs(u, v, bch_terms=k)
            if not (torch.equal(u, u_0) and torch.equal(v, v_0)):
                raise Violation("bch_input_modified", f"compose_svfs(u, v, bch_terms={k}) modified or returned an argument")
            if w.shape != u.shape:
                raise Violation("bch_shape", f"compose_svfs result {tuple(w.shape)} for input {tuple(u.shape)}")
            for b in range(N):
                series, vu = models[b]
                vals, err = series[k]
                if commuting:
                    vals = series[0][0]
                    kind = "bch_commuting_not_sum"
                    what = f"commuting pair ({case['pair']}): compose_svfs(u, v, bch_terms={k}) != u + v"
                else:
                    kind = "bch_affine_series"
                    what = f"compose_svfs(u, v, bch_terms={k}) != documented series with analytic brackets, item {b}"
                    nz = nz or float(np.abs(vu.vals).max()) > 1e-2
                worst = max(worst, check_close(w[b], vals, 8 * err + 1e-300, kind, what))
        if commuting:
            nz = float(u.abs().max()) > 1e-2 and float(v.abs().max()) > 1e-2
        # documented default: bch_terms=3
        w3 = svfs(u, v)
        for b in range(N):
            vals, err = models[b][0][3]
            worst = max(worst, check_close(w3[b], vals, 8 * err + 1e-300, "bch_default_terms",
                                           "compose_svfs default must be the 3-term formula"))
    labels = [f"D={D}", case["dtype"], f"N={N}", f"pair={case['pair']}", f"mode={case['mode']}",
              f"spacing={case['spacing_kind']}/{case['spacing_form']}", f"form={form}"]
    return {"ratio": worst, "nontrivial": nz and len(set(shape)) > 1, "labels": labels}


# ---------------------------------------------------------------------------------------
# facet 5: BCH truncation error on smooth non-commuting pairs does not grow with the order


GROWTH = 0.25  # e_{k+1} <= e_k + GROWTH * (e_0 + FLOOR * a)   (calibrated, see ASSUMPTIONS)
FLOOR = 1e-2


@st.composite
def bch_smooth_cases(draw):
    D = draw(gen.dims())
    lo, hi = (16, 40) if D == 2 else (12, 20)
    shape = draw(st.lists(st.integers(lo, hi), min_size=D, max_size=D))
    return {
        "D": D, "shape": shape, "ac": draw(st.booleans()), "dtype": draw(st.sampled_from(["float64", "float64", "float32"])),
        "amp": draw(gen.qfloat(0.1, 1.0, 0.05)), "ratio": draw(st.sampled_from([-1.0, -0.8, -0.5, 0.5, 0.8, 1.0])),
        "waves_u": draw(st.lists(st.integers(1, 2), min_size=D, max_size=D)),
        "waves_v": draw(st.lists(st.integers(1, 2), min_size=D, max_size=D)),
        "steps": draw(st.integers(2, 8)),
        "spacing_given": draw(st.booleans()),
    }


def bch_errors(case):
    """e_k = max |exp(bch_k(u, v)) - exp(v) o exp(u)| in samples, k = 0..5."""
    from deepali.core import functional as U

    D, shape, ac = case["D"], case["shape"], case["ac"]
    dt = tdtype(case["dtype"])
    a = case["amp"]
    uv = vox_smooth(shape, case["waves_u"], a)[None]
    vv = vox_smooth(shape, case["waves_v"], a * case["ratio"], flip=True, shift=1)[None]
    u = torch.tensor(to_norm(uv, shape, ac), dtype=dt)
    v = torch.tensor(to_norm(vv, shape, ac), dtype=dt)
    steps = case["steps"]
    # exp(v) o exp(u): u applied first  (compose_flows(a, b) = a(x) + b(x + a(x)))
    ref = U.compose_flows(U.expv(u, steps=steps, align_corners=ac), U.expv(v, steps=steps, align_corners=ac), align_corners=ac)
    kw = {}
    if case["spacing_given"] or not ac:  # spacing=None means 2/(n-1), i.e. the align_corners=True convention
        kw["spacing"] = [float(s) for s in unit_of(shape, ac)]
    errs = []
    for k in range(6):
        w = U.compose_svfs(u, v, bch_terms=k, **kw)
        e = U.expv(w, steps=steps, align_corners=ac)
        errs.append(float(np.abs(to_vox(e - ref, shape, ac)).max()))
    return errs


def run_bch_smooth(case):
    """'Does not grow' is stated as  e_{k+1} - e_k <= GROWTH * (e_0 + FLOOR a)  for k = 0..4.

    Scale: e_0 is the error of the plain sum, i.e. the size of the correction [v,u]/2 the series has to make (plus the
    discretisation error common to all k); FLOOR*a = 0.01 a is the threshold below which a pair counts as nearly
    commuting (there e_0 is only discretisation error and may even be lowered by cancellation).  Why a slack is
    needed at all: a single term can increase the error before the next one compensates; relative to the first
    correction the later terms have size <= |Jac|/6 (k = 1, 2) and |Jac|^2/24 (k = 3, 4) with
    |Jac| <~ a pi w / (n - 1) <= 0.6 on the generated domain, i.e. growth up to ~0.1 is legitimate.
    NOT asserted, because not robust on the correct tree: the pairwise ratio e_{k+1}/e_k (cancellation between
    truncation and discretisation error makes single e_k small: measured up to 1.48), 'e_1 <= 0.6 e_0' (measured
    e_1/e_0 up to 1.34 for nearly commuting pairs and 1.03 for pairs with e_0 >= 0.01 a on coarse grids), and a floor
    of 1e-3 a (heavy tail: 0.105 on 5.7k cases, 0.204 on 16.9k).
    Calibration (fixed tree, 16906 distinct generated cases, 20 seeds): largest (e_{k+1} - e_k) / (e_0 + 0.01 a) =
    0.066 (per k: 0.051, 0.066, 0.033, 0.007, 0.009; unchanged between 5.7k and 16.9k cases); GROWTH = 0.25 keeps a
    factor 3.8 (steps 5..7).  Re-measured after widening the generated steps to 2..8 (3238 distinct cases per value):
    steps=2: 0.059, 3: 0.060, 4: 0.047, 8: 0.046, i.e. the statistic does not depend on the step count (all
    exponentials of a case use the same one).  A sign error of the first-order term gives e_1 ~ 2 e_0, a growth of
    ~1.0 on this scale."""
    errs = bch_errors(case)
    a = case["amp"]
    scale = errs[0] + FLOOR * a
    worst = 0.0
    for k in range(5):
        g = (errs[k + 1] - errs[k]) / scale
        if not g <= GROWTH:
            raise Violation("bch_error_grows", f"e_{k + 1} - e_{k} = {errs[k + 1] - errs[k]:.4g} > {GROWTH} (e_0 + {FLOOR} a) = "
                            f"{GROWTH * scale:.4g}; e_k = " + ", ".join(f"{e:.3g}" for e in errs) + f" (a={a})")
        worst = max(worst, g / GROWTH)
    noncomm = errs[0] >= 0.01 * a
    return {"ratio": worst, "nontrivial": noncomm and a >= 0.3,
            "labels": [f"D={case['D']}", f"ac={case['ac']}", case["dtype"], "noncommuting" if noncomm else "near_commuting",
                       "gain>=2" if errs[5] <= 0.5 * errs[0] else "gain<2"]}


# ---------------------------------------------------------------------------------------
# facet 6: log(exp(v)) = v within a stated bound, independent of the convention


LOG_C2 = 0.5  # |logv(expv(v)) - v| <= kappa (LOG_C2 a^2 + LOG_C1 a) samples, kappa = D (pi w_max / (n_min - 1))^2
LOG_C1 = 0.25
LOG_STEPS = (3, 7)  # generated range of expv(steps=) and logv(exp_steps=), even and odd, independently drawn
LOG_ITERS = (1, 6)  # generated range of logv(num_iters=); 0 returns the input itself (only in convention_independence)


@st.composite
def log_exp_cases(draw):
    D = draw(gen.dims())
    lo, hi = (12, 40) if D == 2 else (12, 18)
    shape = draw(st.lists(st.integers(lo, hi), min_size=D, max_size=D))
    steps = st.one_of(st.none(), st.integers(LOG_STEPS[0], LOG_STEPS[1]))
    return {
        "D": D, "shape": shape, "dtype": draw(gen.dtypes()), "N": draw(st.sampled_from([1, 1, 2, 3])),
        # amplitude (samples) of the scaled velocity field scale * v that is exponentiated; v = field / scale
        "amp": draw(gen.qfloat(0.05, 2.0, 0.05)), "waves": draw(st.lists(st.integers(1, 2), min_size=D, max_size=D)),
        "noise": 0.0, "key": 0, "vary_items": True,
        # expv arguments (None: omitted)
        "steps": draw(steps), "scale": draw(scales()), "inverse": draw(st.booleans()),
        # logv arguments (None / "default": omitted)
        "exp_steps": draw(steps), "iters": draw(st.one_of(st.none(), st.integers(LOG_ITERS[0], LOG_ITERS[1]))),
        "bch_terms": draw(st.one_of(st.none(), st.integers(0, 5))),
        "sigma": draw(st.sampled_from(["default", None, 0.5, 1.0, 1.5])),
        "spacing_form": draw(st.sampled_from(["list", "list", "tensor"])),  # per-axis list or (N, D) tensor
        "form": draw(forms()), "pollute": draw(pollutions()),
    }


def run_log_exp(case):
    """logv(expv(v, scale=s, steps=k, inverse=i), num_iters=m, bch_terms=b, sigma=g, exp_steps=k') = +-s v within
    kappa (LOG_C2 a^2 + LOG_C1 a) samples, a = amplitude of s v.  Every argument is generated (or omitted); the
    bound does not depend on them on the stated domain (steps in LOG_STEPS, iterations in LOG_ITERS), see
    ASSUMPTIONS for the measurement."""
    from deepali.core import functional as U

    D, shape = case["D"], case["shape"]
    dt = tdtype(case["dtype"])
    eps = eps_of(dt)
    fv = voxel_fields(case, vary_items=bool(case.get("vary_items")))  # the scaled field s v, i.e. the expected logarithm
    sc = signed_scale(case)
    a = case["amp"]
    out = {}
    worst = 0.0
    kappa = D * (math.pi * max(case["waves"]) / (min(shape) - 1)) ** 2  # curvature of the field in index units / a
    L = lipschitz(fv)
    P = advection_size(fv)
    ke, kl = case.get("steps") or 5, case.get("exp_steps") or 5  # documented default of expv: 5 steps
    iters = 5 if case.get("iters") is None else case["iters"]
    # (1) discretisation floor (calibrated form, see ASSUMPTIONS): interpolation error of the compositions
    floor = kappa * (LOG_C2 * a * a + LOG_C1 * a)
    # (2) derived: k squarings of id + w/2^k are 2^k Euler steps of size h = 2^-k, and id + h w =
    # exp(h w - h^2/2 Dw.w + O(h^3)), so expv_k(w) = exp(w - h/2 Dw.w + O(h^2)).  logv looks for v' with
    # expv_k'(-v') o expv_k(w) = id, i.e. -v' - h'/2 Dv'.v' = -(w - h/2 Dw.w): v' - w = -(h + h')/2 Dw.w to first
    # order (the Euler errors of the forward and of the inverse exponential add up, they do not cancel).  Asserted
    # with allowance 2 for the higher-order terms: (h + h') P, P = max |Dw.w| (central differences, float64 numpy).
    euler = (2.0 ** -ke + 2.0 ** -kl) * P
    # (3) iteration: the start value flow = exp(w) - id = w + Dw.w/2 + ... is off by ~P/2; one iteration with the
    # plain sum (bch_terms=0) leaves the first-order BCH remainder [d, w]/2 of the error d, of size ~ slope of w
    # times |d| when d varies on the scale of w; more BCH terms converge faster.  Asserted: P min(1, L)^iters
    # (L = largest adjacent-sample difference of w), which is P for num_iters=0 (logv returns flow itself).
    start = P * min(1.0, L) ** iters
    bound = floor + euler + start
    ekw, lkw = expv_kwargs(case), logv_kwargs(case)
    form = case.get("form", "kw")
    for ac in (True, False):
        v = torch.tensor(to_norm(fv / sc, shape, ac), dtype=dt)
        pollute_coords(shape, ac, dt, case.get("pollute"))
        e = invoke("expv", U.expv, form, [v], dict(ekw, align_corners=ac))
        sp = [float(s) for s in unit_of(shape, ac)]  # anisotropic for non-cubic shapes
        if case.get("spacing_form") == "tensor":
            sp = torch.tensor([sp] * case["N"], dtype=torch.float64)
        r = invoke("logv", U.logv, form, [e], dict(lkw, spacing=sp, align_corners=ac))
        if r.shape != v.shape:
            raise Violation("log_exp_shape", f"logv result shape {tuple(r.shape)} != {tuple(v.shape)}")
        out[ac] = to_vox(r, shape, ac)
        worst = max(worst, check_close(out[ac], fv, bound, "log_exp_bound",
                                       f"|logv(expv(v, {ekw}), {lkw}) - scale v| (samples) vs kappa ({LOG_C2} a^2 + {LOG_C1} a) + "
                                       f"(2^-steps + 2^-exp_steps + min(1, L)^iters) P, a={a}, kappa={kappa:.4g}, L={L:.3g}, "
                                       f"P={P:.3g}, align_corners={ac}"))
    n = max(shape)
    steps = max(ke, kl)
    bt = 1 if case.get("bch_terms") is None else case["bch_terms"]
    rb = rounding_bound(eps, n, a * max(1.0, 1.0 / abs(sc)), L, D, steps, iters, bt)
    r2 = check_close(out[True], out[False], rb, "convention_dependent_logv",
                     f"voxel-space logv(expv(v)) differs between align_corners=True and False (a={a}, shape={shape})")
    return {"ratio": max(worst, r2), "nontrivial": a >= 0.5 and len(set(shape)) > 1,
            "labels": [f"D={D}", case["dtype"], f"N={case['N']}", "a>=1" if a >= 1 else "a<1",
                       f"steps={case.get('steps')}", f"exp_steps={case.get('exp_steps')}",
                       "scale=omitted" if case.get("scale") is None else ("scale<0" if case["scale"] < 0 else "scale>0"),
                       f"inverse={bool(case.get('inverse'))}", f"iters={case.get('iters')}",
                       f"bch_terms={case.get('bch_terms')}", f"sigma={case.get('sigma', 'default')}", f"form={form}"]}


# ---------------------------------------------------------------------------------------
# facet 7: degenerate-but-valid option values with closed forms (steps=0, exp_steps=0, bch_terms=0, few iterations)


@st.composite
def degenerate_cases(draw):
    D = draw(gen.dims())
    shape = draw(st.lists(st.integers(2, 10 if D == 2 else 7), min_size=D, max_size=D))
    if draw(st.booleans()):
        # plain sum (no bracket is evaluated): any iteration count, None: omitted (documented default 5)
        bt, iters = 0, draw(st.one_of(st.none(), st.integers(0, 4)))
    else:
        # nested finite-difference brackets: few iterations keep the derived rounding bound useful
        bt, iters = draw(st.one_of(st.none(), st.integers(1, 5))), draw(st.integers(0, 2))  # None: omitted (default 1)
    return {
        "D": D, "shape": shape, "ac": draw(st.booleans()), "dtype": draw(gen.dtypes()), "N": draw(st.integers(1, 3)),
        "f": gen_params(draw, D), "iters": iters, "bch_terms": bt,
        "sigma": draw(st.sampled_from(["default", None, 1.0, 0.7])),  # only free when no bracket is evaluated
        "scale": draw(st.one_of(st.none(), st.sampled_from([0, 0.0, 1, 1.0, -1, -1.0]), gen.qfloat(-2.0, 2.0, 0.01))),
        "inverse": draw(st.booleans()),
        "form": draw(forms()), "pollute": draw(pollutions()), "repeat": draw(st.booleans()),
    }


def run_degenerate(case):
    """Closed forms of the documented algorithms at the degenerate end of their integer options, on invariant affine
    displacement fields f(x) = A x + a (homogeneous generator F), where every sampling step is exact:

    * expv(f, scale=s, steps=0, inverse=i) = (-1)^i s f   (zero steps return the scaled input);
    * logv(f, num_iters=m, bch_terms=k, exp_steps=0, sigma=None, spacing=h): v_0 = f and, for n < m,
      w_n = expv(v_n, steps=0, inverse=True) = -v_n,  u_n = compose_flows(f, w_n) = f + w_n o (id + f), i.e.
      U_n = F - V_n (I + F) (x + f(x) stays in the sample hull, so linear interpolation of the affine field w_n is
      exact whatever V_n is),  v_{n+1} = compose_svfs(u_n, v_n, bch_terms=k) = documented series with matrix
      commutators (forward/central/backward differences are exact on affine fields).  m = 0 returns f.
    Rounding: AField error bookkeeping as in bch_exact_affine; the sampled values carry the error of v_n (convex
    weights) and positions x + f(x) carry <= 4 n eps index units, times the slope of v_n per sample."""
    from deepali.core import functional as U

    D, shape, ac, N = case["D"], case["shape"], case["ac"], case["N"]
    dt = tdtype(case["dtype"])
    eps = eps_of(dt)
    form = case.get("form", "kw")
    x = cube_coords(shape, ac)
    sp = [float(v) for v in unit_of(shape, ac)]
    smin = min(sp)
    H0 = invariant_disp(case, case["f"])
    gens = [hom_gen(H0 / (b + 1)) for b in range(N)]  # the invariance condition is homogeneous
    flow = torch.tensor(np.stack([affine_field(G[:D], x) for G in gens]), dtype=dt)
    flow0 = flow.clone()
    worst = 0.0
    pollute_coords(shape, ac, dt, case.get("pollute"))

    # (a) zero squaring steps: the scaled input
    scale = case["scale"]
    s = 1.0 if scale is None else float(scale)
    given = {"steps": 0, "align_corners": ac}
    if scale is not None:
        given["scale"] = scale
    if case["inverse"]:
        given["inverse"] = True
    e = invoke("expv", U.expv, form, [flow], given)
    expect = flow0.double() * (-s if case["inverse"] else s)
    worst = max(worst, check_close(e, expect, 4 * eps * max(1.0, float(expect.abs().max())), "expv_steps0_closed_form",
                                   f"expv(f, {given}) must be the scaled input"))

    # (b) logarithm with exp_steps=0
    iters = 5 if case["iters"] is None else case["iters"]
    bt = 1 if case["bch_terms"] is None else case["bch_terms"]
    lg = {"spacing": sp, "exp_steps": 0, "align_corners": ac}
    if case["iters"] is not None:
        lg["num_iters"] = case["iters"]
    if case["bch_terms"] is not None:
        lg["bch_terms"] = case["bch_terms"]
    if bt >= 1:
        lg["sigma"] = None  # no pre-smoothing: brackets of affine fields are exact
    elif case["sigma"] != "default":
        lg["sigma"] = case["sigma"]

    def log(f):
        r = invoke("logv", U.logv, form, [f], lg)
        if r.shape != f.shape or r.dtype != f.dtype:
            raise Violation("logv_shape_dtype", f"logv result {tuple(r.shape)} {r.dtype} for input {tuple(f.shape)} {f.dtype}")
        return r

    snap = None
    if case.get("repeat"):
        first = log(flow.clone())
        snap = first.clone()
        spoil_result(first)
    r = log(flow)
    if not torch.equal(flow, flow0):
        raise Violation("logv_input_modified", "logv (or expv with steps=0) modified its argument")
    if snap is not None:
        check_close(r, snap, 2 * eps * max(1.0, float(snap.abs().max())), "logv_depends_on_earlier_result",
                    "logv: same argument, different result after the first result was modified in place")
    eye = np.eye(D + 1)
    tight = True
    for b, F in enumerate(gens):
        Ff = AField(F, x, 0.0)
        Ff.err = eps * Ff.fmax
        V = AField(F, x, Ff.err)
        for _ in range(iters):
            Fu = AField(F - V.G @ (eye + F), x, 0.0)
            Fu.err = Ff.err + V.err + 32 * eps * (V.minf + V.fmax + Ff.fmax)
            series, _vu = bch_model(Fu, V, x, eps, smin)
            vals, err = series[bt]
            V = AField(bch_doc(Fu.G, V.G, bt), x, err)
            if float(np.abs(V.vals - vals).max()) > 1e-9 * max(1.0, V.fmax):
                raise AssertionError("reference models of the BCH series disagree")
        bound = 8 * V.err + 1e-300
        tight = tight and bound <= 1e-3 * max(V.fmax, Ff.fmax, 1e-6)
        worst = max(worst, check_close(r[b], V.vals, bound, "logv_affine_closed_form",
                                       f"logv(f, {lg}) vs the documented iteration in closed form, item {b}"))
    offd = any(abs(H0[i, j]) > 0.01 for i in range(D) for j in range(D) if i != j)
    return {"ratio": worst, "nontrivial": offd and tight and iters >= 1 and len(set(shape)) > 1,
            "labels": [f"D={D}", f"ac={ac}", case["dtype"], f"N={N}", f"iters={case['iters']}", f"bch_terms={case['bch_terms']}",
                       f"form={form}", f"pollute={case.get('pollute')}", f"inverse={case['inverse']}",
                       "scale=omitted" if scale is None else ("scale=0" if s == 0 else ("|scale|=1" if abs(s) == 1 else "scale=other")),
                       "tight" if tight else "loose"]}


# ---------------------------------------------------------------------------------------

FACETS = [
    Facet("compose_affine", run_compose, strategy=compose_cases,
          rule="pairs of invariant affine displacement generators constructed from free off-diagonals + dominance margins "
               "(second field optionally an arbitrary affine field), N in 1..3, both conventions, f32/f64, hash-noise for the "
               "zero-field identities; non-trivial = off-diagonal entries, linear parts do not commute (operand order "
               "observable), non-cubic shape",
          quick=800, thorough=16000, shards=16, quick_shards=2),
    Facet("convention_independence", run_convention, strategy=convention_cases,
          rule="voxel-space smooth (+hash-noise) fields of amplitude 0.1..3 samples, op in {compose_flows, expv, logv}, "
               "N in 1..2, f32/f64; expv: steps omitted or 0..7, scale omitted or +-[0.25, 4], inverse; logv: steps / "
               "exp_steps omitted or 2..7, num_iters omitted or 0..6, bch_terms omitted or 0..5, sigma omitted / None / "
               "0.5 / 1 / 1.5; non-trivial = amplitude >= 0.3 samples and non-cubic shape",
          quick=400, thorough=6000, shards=16, quick_shards=2),
    Facet("bracket_algebra", run_bracket, strategy=bracket_cases,
          rule="noise / smooth+noise / affine fields on lattices with cube or generated (an)isotropic spacing, all finite "
               "difference modes, optional Gaussian pre-smoothing, spacing as list/scalar/(N,D) tensor with equal or different "
               "rows/default, N in 1..3 (items compared with per-item calls); analytic value "
               "for forward_central_backward without smoothing; non-trivial = non-cubic shape and non-zero analytic bracket",
          quick=400, thorough=6000, shards=16, quick_shards=3),
    Facet("bch_exact_affine", run_bch_affine, strategy=bch_affine_cases,
          rule="free affine generator pairs |entries| <= 1 (general; commuting: scalar multiple, translations, diagonal, "
               "generic field and its multiple), N in 1..3 with items built from different generators and multipliers, spacing "
               "forms as in bracket_algebra, every bch_terms 0..5 per case; non-trivial = bracket not ~0 (general) "
               "/ both fields non-zero (commuting), non-cubic shape",
          quick=400, thorough=6000, shards=16, quick_shards=3),
    Facet("bch_smooth", run_bch_smooth, strategy=bch_smooth_cases,
          rule="pairs of band-limited fields (wave numbers 1..2) vanishing at the boundary, amplitude 0.1..1 samples, "
               "amplitude ratio in +-{0.5, 0.8, 1}, steps 2..8; non-trivial = e_0 >= 0.01 a and a >= 0.3",
          quick=160, thorough=3000, shards=16, quick_shards=2),
    Facet("log_exp", run_log_exp, strategy=log_exp_cases,
          rule="band-limited fields vanishing at the boundary, amplitude 0.05..2 samples, grids >= 12 per axis, both "
               "conventions per case, N in 1..3 (different field per item); expv steps and logv exp_steps independently "
               "omitted or 3..7, scale omitted or +-[0.25, 4], inverse, num_iters omitted or 1..6, bch_terms omitted or "
               "0..5, sigma omitted / None / 0.5 / 1 / 1.5, spacing list or (N, D) tensor; non-trivial = a >= 0.5 and "
               "non-cubic shape",
          quick=100, thorough=2000, shards=16, quick_shards=2),
    Facet("degenerate_closed_forms", run_degenerate, strategy=degenerate_cases,
          rule="invariant affine displacement fields, N in 1..3, both conventions, f32/f64; expv with steps=0, scale omitted / "
               "0 / +-1 / [-2, 2], inverse; logv with exp_steps=0, num_iters omitted or 0..4 (<= 2 when brackets are "
               "evaluated), bch_terms omitted or 0..5, sigma free when bch_terms=0; every call keyword / positional / "
               "defaults omitted, after in-place modification of Grid.coords() tensors and of an earlier result; "
               "non-trivial = off-diagonal entries, num_iters >= 1, derived bound <= 1e-3 of the values, non-cubic shape",
          quick=400, thorough=6000, shards=16, quick_shards=2),
]
