"""C06 - A spatial transform means one world-space map, however it is evaluated.

Reference world map of a transform defined on grid G (float64 numpy, vlib.ref.GridModel):

    T_w = (cube -> world)_G  o  T_c  o  (world -> cube)_G ,   cube = CUBE_CORNERS if G.align_corners() else CUBE

with T_c built from the parameter *values* of the case:
  linear models   T_c(x) = M x + t, M/t from own elementary matrices (rotations in the stated order, diag scales,
                  tan of shear angles in the upper triangle, (w,x,y,z) quaternion formula), composites multiply
                  their members in constructor order;
  dense models    T_c(x) = x + u(x), u = multilinear interpolation (border clamp) of the sampled field, where the
                  sampled field is the parameter tensor (DDF), the closed form ((I+H/2^k)^(2^k) - I) x of an
                  invariant affine velocity (SVF, SVFFD; props/c11.py) or the analytic cubic B-spline of the
                  coefficients (FFD);
  composites      Sequential: member maps composed in listed order, MultiLevel: x + sum_i (T_i(x) - x); members may be
                  composites or generic configurations (reference trees SeqRef / MultiRef).
forward(x, grid=True) is the same map: the flag only states that x are undeformed grid points of the transform domain, which
lets a dense model resize its field (the same multilinear interpolant) instead of sampling it - a later member of a sequence
never sees undeformed points.
Dense vector field models with 'stride' hold their parameters on a lattice of ceil(n / stride) points spanning the same domain;
the buffered field is that lattice (resize=False) or its multilinear resampling to the grid (resize=True) - the reference is built
on the respective lattice (vf_shape / vf_resample).
The object under test may be the result of a history of public calls (facet 'history'): the reference is then built from the
grid and the parameter values set last, tracked by the interpreter of the history (HSym / History), never read back from deepali.
"""
from __future__ import annotations

import math

import numpy as np
import torch
from hypothesis import strategies as st

from props.c11 import build_generator, cube_coords, min_steps
from vlib import gen, ref
from vlib.case import hash_noise, make_grid, tdtype
from vlib.core import EPS32, Facet, Skip, Violation, check_close
from vlib.findings import Known

PROPERTY = "C06"
MANIFEST = {
    "text": "Every transformation class of deepali.spatial (7 elementary linear, 5 composite linear, displacement field, "
            "stationary velocity field, FFD, SVFFD, Sequential/MultiLevel composites of 1-3 members which may themselves be "
            "composites or GenericSpatialTransform configurations and may mix 1 and N parameter groups, GenericSpatialTransform "
            "configurations) is built on generated oriented anisotropic grids (D in {2,3}, both align_corners, groups 1 and 2) "
            "with parameters set through the public setters, and every view (forward on point sets and grid shaped tensors, "
            "forward(x, grid=True) at the undeformed sample points of same-domain grids of any size - for elementary models, "
            "composites and generic configurations -, disp/flow on its own, a same-domain, a cropped, an align_corners-flipped "
            "and an unrelated grid, tensor/matrix, points() and PointSetTransformer for generated (grid, axes) pairs, "
            "ImageTransformer with elementary, composite (linear, non-rigid, nested) and generic transforms on generated "
            "target/source grids, with flip_coords and align_centers) is compared with one float64 reference world map built "
            "in numpy from the parameter values and the independent grid model; fresh transforms are compared with the "
            "identity. Dense vector field models are also built with the 'stride' / 'resize' options (parameters on a coarser "
            "lattice). In facet 'history' the object whose views are compared is what a generated sequence of public calls "
            "(evaluations, data_/data(arg)/setters/matrix(arg), copy/deepcopy, grid_/grid(arg), condition_/condition, link/unlink, "
            "inverse pairs, reset_parameters, in-place edits, load_state_dict and state_dict round trips, train/eval, to(dtype), "
            "clear_buffers) leaves behind - either the returned copy or the original, after the other one has been used - and "
            "the reference is built from the grid and parameter values set last. Exploration, not proof.",
    "note": "Trusted: vlib/ref.py (grid model, rotations, interpolation, B-spline basis, scaling-and-squaring closed form), the "
            "reference classes in props/c06.py. Dense parameter fields are cube-affine, hash-noise (reference = multilinear "
            "interpolation, which is the documented point map of a dense model and also what resizing the field under "
            "grid=True computes), invariant affine velocities and affine or hash-noise spline coefficients. The reference of a "
            "sequence evaluates every dense member at the already mapped point, that of a multi-level composite evaluates all "
            "members at the input point; comparisons are restricted to points for which every dense (sub-)member is evaluated "
            "inside the hull of its samples. Bounds 64*eps32*condition with the condition computed from the reference "
            "(|R| diag(h) |J| diag(1/h) |R^T| amplification through the cube of an oblique anisotropic grid; product of the "
            "member |J| for sequences; times the number of leaves of a composite).",
    "technique": "property-based testing (Hypothesis) against a float64 reference world map (closed forms for every model), "
                 "linear-ramp images for warping",
}
ASSUMPTIONS = [
    "transform grids: size 2..12 per axis (dense models 3..9, 3-D 3..6), spacing in [0.1, 10], |center| <= 200, |det direction| = 1",
    "parameters: offsets in [-0.5,0.5] cube units, angles in (-pi,pi), scales in [0.5,2], shear angles in (-pi/4,pi/4), "
    "homogeneous matrices I + [-0.3,0.3]; dense fields of amplitude <= 0.25 cube units",
    "dense views are compared at points inside the hull of the sample points of the transform grid (outside, extrapolation "
    "differs between border-clamped point sampling and zero-padded field resampling and is not stated by the property); in a "
    "sequence this applies to the point each dense member receives",
    "B-spline models require align_corners=True grids (constructor contract)",
    "members of a composite may live on their own grids of the same cube domain and the same align_corners convention but "
    "another size (CompositeTransform.__init__ only requires same_domain_as); members whose convention differs from the "
    "composite's are not generated (what grid=True means for them is not stated)",
    "parameters changed in place (optimizer style) are only observed through evaluations that run the update() pre-hook "
    "(transform(x), ImageTransformer, PointSetTransformer, enclosing composites); tensor()/disp() are read after such a call "
    "or after an explicit update()",
    "forward(x, grid=True) is only called with x = the undeformed sample points of a grid spanning the domain of the transform "
    "grid (documented precondition of the flag); under it the result must be the same map as forward(x)",
    "members of a composite with different numbers of parameter groups are 1 and N (broadcast as documented for "
    "transform_points/transform_grid)",
    "flip_coords=True is only exercised with linear transforms incl. linear composites (T applies to (z,y,x) coordinates: "
    "y = P T(P x)); for dense models the meaning of the flag is not stated",
    "align_centers=True is only exercised with targets centred on the transform grid (own, resized, align_corners-flipped), "
    "where 'the target' of the docstring can only mean one centre; reference = source grid re-centred on the transform grid",
    "warping uses an image that is a linear ramp in the index space of the source grid, border padding, linear sampling; "
    "only target samples whose reference position T(x) lies at least 0.02 samples inside the source sample hull are compared",
    "MultiLevelTransform.forward passes grid=True only to its first member; passing it to every member would be the same map "
    "(all members are evaluated at the undeformed points), so that choice is not observable and not asserted",
    "dense vector field models with 'stride': strides 1.5..3 (scalar or per axis, (x, ...) order), parameter lattice >= 2 points per "
    "axis; a velocity field is only resized (resize=True) on corner-aligned grids (resized from a lattice whose border samples are "
    "not those of the grid it is clamped near the border and has no closed-form exponential); views are compared inside the "
    "hull of the samples of the buffered field (the parameter lattice for resize=False)",
    "histories: views that do not run the update() pre-hook (tensor, disp, flow, points, forward, disp() of an enclosing composite) "
    "are read first only where the documented contract makes them current - after data_(), data(arg), matrix(arg), setters, "
    "reset_parameters(), grid changes, condition on a dense model with callable parameters, inverse(update_buffers=True) of an "
    "up-to-date transform; after an in-place edit of the parameters, load_state_dict(), inverse(update_buffers=False), link(), a "
    "linear model with callable parameters before its first update and after condition (known finding K5 of C09) the first view "
    "is a functor call or a PointSetTransformer (both run the hook). link() of a dense transform that has been evaluated keeps "
    "the buffered field of the old parameters until update(); whether that is intended is not documented, so it is not asserted",
    "histories: the final object is not an inverse (inverse() is applied an even number of times along the followed objects; "
    "accuracy of inverses is C07); after grid_()/grid(arg) of a dense model its resampled parameters are not modelled (C09) - "
    "new parameters are set before the views are compared; B-spline models are re-gridded by subdivision only (documented); "
    "copies are only given other parameters (data_) when the operation that made them documents own parameters (data(arg), "
    "grid(arg), unlink(), deepcopy) - plain shallow copies share the parameter container by design",
    "histories: copy.deepcopy is preceded by the public clear_buffers() where buffered fields are non-leaf tensors (computed from "
    "a Parameter; torch cannot deep-copy those); Module.to(dtype) is only applied to objects whose parameters are a Parameter / "
    "registered tensor / linked transformation (a plain tensor attribute or the output of a callable is not converted by torch) and "
    "parameter tensors handed over afterwards have the module's dtype (mixing dtypes is a usage error); load_state_dict uses "
    "strict=False, the loaded values must arrive through the views",
    "histories: the structural choices of a case are made with a running hash of the integers Hypothesis drew (see history_cases), "
    "cases remain plain JSON and replayable",
]

K = 64.0
KNOWN = Known(PROPERTY)


def cax(ac: bool) -> str:
    return "cube_corners" if ac else "cube"


def _axes(name):
    from deepali.core import Axes

    return Axes(name)


# ---------------------------------------------------------------------------------------
# reference maps in the cube coordinates of the transform grid


class LinRef:
    linear = True

    def __init__(self, mats):
        self.mats = [np.asarray(m, dtype=np.float64) for m in mats]  # (D, D+1) per group
        self.N = len(self.mats)
        self.D = self.mats[0].shape[0]
        self.extra = 0.0

    def cube(self, x, b):
        return ref.happly(self.mats[b % self.N], x)

    def absjac(self):
        return np.max([np.abs(m[:, : self.D]) for m in self.mats], axis=0)

    def absdev(self):
        return np.max([np.abs(m[:, : self.D] - np.eye(self.D)) for m in self.mats], axis=0)

    def shift(self):
        return max(float(np.abs(m[:, self.D]).max()) for m in self.mats)

    def matrix(self, b):
        return self.mats[b % self.N]

    def valid(self, x, b):
        return np.ones(np.shape(x)[:-1], dtype=bool)

    def leaves(self):
        return 1

    def effect(self):
        return max(float(np.abs(m - np.eye(self.D, self.D + 1)).max()) for m in self.mats)


class DenseRef:
    """x -> x + u(x): u multilinear interpolation with border clamp of samples u[N, D, ..., X] (cube units) located on a
    lattice of n = u.shape[:1:-1] points that spans the transform domain with the convention `ac`."""

    linear = False

    def __init__(self, u, ac, extra=0.0):
        self.u = np.asarray(u, dtype=np.float64)
        self.N = self.u.shape[0]
        self.D = self.u.shape[1]
        self.ac = ac
        self.n = np.array(self.u.shape[2:][::-1], dtype=np.float64)
        self.extra = float(extra)

    def index(self, x):
        return (x + 1) * (self.n - 1) / 2 if self.ac else (x + 1) * self.n / 2 - 0.5

    def disp(self, x, b):
        val = ref.interp(self.u[b % self.N], self.index(np.asarray(x, dtype=np.float64)), "linear", "border")
        return np.moveaxis(val, 0, -1)

    def cube(self, x, b):
        return x + self.disp(x, b)

    def absdev(self):
        D = self.D
        G = np.zeros((D, D))
        for j in range(D):  # derivative along x_j = tensor axis -1-j of the spatial part
            ax = self.u.ndim - 1 - j
            if self.u.shape[ax] > 1:
                d = np.abs(np.diff(self.u, axis=ax))
                unit = 2.0 / (self.n[j] - 1 if self.ac else self.n[j])
                for i in range(D):
                    G[i, j] = float(d[:, i].max()) / unit
        return G

    def absjac(self):
        return np.eye(self.D) + self.absdev()

    def shift(self):
        return float(np.abs(self.u).max())

    def valid(self, x, b):
        """Points inside the hull of the samples (outside, extrapolation is not part of the property)."""
        lim = np.ones(self.D) if self.ac else 1.0 - 1.0 / self.n
        return np.all(np.abs(np.asarray(x, dtype=np.float64)) <= lim + 1e-9, axis=-1)

    def leaves(self):
        return 1

    def effect(self):
        return float(np.abs(self.u).max())


class SeqRef:
    def __init__(self, members):
        self.members = members
        self.N = max(m.N for m in members)
        self.D = members[0].D
        self.linear = all(m.linear for m in members)
        self.extra = sum(m.extra for m in members)

    def cube(self, x, b):
        for m in self.members:
            x = m.cube(x, b)
        return x

    def absjac(self):
        J = np.eye(self.D)
        for m in self.members:
            J = m.absjac() @ J
        return J

    def absdev(self):
        return self.absjac() + np.eye(self.D)

    def shift(self):
        return sum(m.shift() for m in self.members) * float(self.absjac().sum(1).max())

    def matrix(self, b):
        M = self.members[0].matrix(b)
        for m in self.members[1:]:
            M = ref.hmul(m.matrix(b), M)
        return M

    def valid(self, x, b):
        """Every dense (sub-)member is evaluated inside its sample hull: x for the first, the mapped point for later ones."""
        x = np.asarray(x, dtype=np.float64)
        ok = np.ones(x.shape[:-1], dtype=bool)
        for m in self.members:
            ok &= m.valid(x, b)
            x = m.cube(x, b)
        return ok

    def leaves(self):
        return sum(m.leaves() for m in self.members)

    def effect(self):
        return max(m.effect() for m in self.members)


class MultiRef:
    def __init__(self, members):
        self.members = members
        self.N = max(m.N for m in members)
        self.D = members[0].D
        self.linear = all(m.linear for m in members)
        self.extra = sum(m.extra for m in members)

    def cube(self, x, b):
        x = np.asarray(x, dtype=np.float64)
        return x + sum(m.cube(x, b) - x for m in self.members)

    def absdev(self):
        return sum(m.absdev() for m in self.members)

    def absjac(self):
        return np.eye(self.D) + self.absdev()

    def shift(self):
        return sum(m.shift() for m in self.members)

    def matrix(self, b):
        D = self.D
        I = np.eye(D, D + 1)
        return I + sum(m.matrix(b) - I for m in self.members)

    def valid(self, x, b):
        x = np.asarray(x, dtype=np.float64)
        ok = np.ones(x.shape[:-1], dtype=bool)
        for m in self.members:
            ok &= m.valid(x, b)
        return ok

    def leaves(self):
        return sum(m.leaves() for m in self.members)

    def effect(self):
        return max(m.effect() for m in self.members)


class FlipRef:
    """y = P T(P x) with P the reversal of the coordinate order (flip_coords semantics of ImageTransformer)."""

    def __init__(self, inner):
        self.inner = inner
        self.N, self.D, self.linear, self.extra = inner.N, inner.D, inner.linear, inner.extra

    def cube(self, x, b):
        return self.inner.cube(np.asarray(x)[..., ::-1], b)[..., ::-1]

    def absjac(self):
        return self.inner.absjac()[::-1, ::-1]

    def absdev(self):
        return self.inner.absdev()[::-1, ::-1]

    def shift(self):
        return self.inner.shift()

    def valid(self, x, b):
        return self.inner.valid(np.asarray(x)[..., ::-1], b)

    def leaves(self):
        return self.inner.leaves()

    def effect(self):
        return self.inner.effect()


class WorldMap:
    """The reference world map of a transform with cube-space reference `r` on grid model `m`."""

    def __init__(self, r, m: ref.GridModel):
        self.r, self.m = r, m
        self.ax = cax(m.ac)
        self.N = r.N
        n = m.n - 1 if m.ac else m.n
        self.h = m.s * n / 2.0  # world units per cube unit along each grid axis
        self.absR = np.abs(m.R)
        self.ext = float(np.abs(m.c).max() + np.abs(m.s * m.n).sum())

    def to_cube(self, xw):
        return self.m.points(xw, "world", self.ax)

    def world(self, xw, b):
        return self.m.points(self.r.cube(self.to_cube(xw), b), self.ax, "world")

    def amp(self) -> float:
        """|| |R| diag(h) |J| diag(1/h) |R^T| ||_inf: how a world-space rounding error of the input comes back."""
        A = self.absR @ (self.h[:, None] * self.r.absjac() / self.h[None, :]) @ self.absR.T
        return float(A.sum(1).max())

    def cond(self, *pts) -> float:
        """Magnitude against which eps32 is scaled for a world-space result of the map (see MANIFEST note)."""
        W = max([self.ext] + [float(np.abs(p).max()) for p in pts if np.size(p)])
        back = float((self.absR @ self.h).max())  # world units per unit cube error
        J = float(self.r.absjac().sum(1).max())
        return W * (1.0 + self.amp()) + back * (2.0 + J * 2.0 + self.r.shift()) + back * self.r.extra / (K * EPS32)

    def cube_bound(self, xc) -> float:
        """Bound for results natively in the cube coordinates of the transform grid."""
        J = float(self.r.absjac().sum(1).max())
        xm = float(np.abs(xc).max()) if np.size(xc) else 1.0
        return K * EPS32 * (J * (1.0 + xm) + self.r.shift() + 1.0) + self.r.extra


# ---------------------------------------------------------------------------------------
# elementary matrices (cube space, float64) from parameter values

ORDERS = ["ZXZ", "XZX", "XYZ", "ZYX", "ZXY", "YXZ", "XYX", "YZY", "zyx", None]

ELEMENTARY = {
    "Translation": "translation", "EulerRotation": "euler", "QuaternionRotation": "quaternion",
    "IsotropicScaling": "iso", "AnisotropicScaling": "aniso", "Shearing": "shear", "HomogeneousTransform": "homogeneous",
}
# members in the order listed in the constructors (= order of application)
COMPOSITE = {
    "RigidTransform": [("rotation", "euler"), ("translation", "translation")],
    "RigidQuaternionTransform": [("rotation", "quaternion"), ("translation", "translation")],
    "SimilarityTransform": [("scaling", "iso"), ("rotation", "euler"), ("translation", "translation")],
    "AffineTransform": [("scaling", "aniso"), ("rotation", "euler"), ("translation", "translation")],
    "FullAffineTransform": [("scaling", "aniso"), ("shearing", "shear"), ("rotation", "euler"), ("translation", "translation")],
}
DENSE = ["DisplacementFieldTransform", "StationaryVelocityFieldTransform", "FreeFormDeformation",
         "StationaryVelocityFreeFormDeformation"]


def elem_matrix(kind: str, v, D: int, order=None) -> np.ndarray:
    v = [float(a) for a in np.asarray(v, dtype=np.float64).reshape(-1)]
    L, t = np.eye(D), np.zeros(D)
    if kind == "translation":
        t = np.array(v)
    elif kind == "euler":
        L = ref.rot2(v[0]) if D == 2 else ref.euler_matrix(v, (order or "ZXZ"))
    elif kind == "quaternion":
        L = ref.quaternion_matrix(v)
    elif kind == "iso":
        L = np.eye(D) * v[0]
    elif kind == "aniso":
        L = np.diag(v)
    elif kind == "shear":
        L = np.eye(D)
        pairs = [(0, 1)] if D == 2 else [(0, 1), (0, 2), (1, 2)]
        for (i, j), a in zip(pairs, v):
            L[i, j] = math.tan(a)
    elif kind == "homogeneous":
        m = np.array(v).reshape(D, D + 1)
        return m
    else:
        raise ValueError(kind)
    return ref.hom(L, t)


def selftest():
    # elementary matrices: rotations orthonormal, first angle = left-most factor, shear upper triangular, composites
    R = elem_matrix("euler", [0.3, -0.7, 1.1], 3, "XYZ")[:, :3]
    assert np.allclose(R, ref.rotx(0.3) @ ref.roty(-0.7) @ ref.rotz(1.1)) and np.allclose(R @ R.T, np.eye(3))
    assert np.allclose(elem_matrix("quaternion", [1, 0, 0, 0], 3)[:, :3], np.eye(3))
    assert np.allclose(elem_matrix("quaternion", [math.cos(0.2), 0, 0, math.sin(0.2)], 3)[:, :3], ref.rotz(0.4))
    assert np.allclose(elem_matrix("shear", [0.5], 2), [[1, math.tan(0.5), 0], [0, 1, 0]])
    # a translation by one cube unit moves half the cube extent in world space along the grid axis
    g = {"size": [5, 3], "spacing": [2.0, 0.5], "center": [10.0, -3.0], "rot": [0.3], "perm": [0, 1], "flip": [1, 1], "ac": True}
    m = ref.GridModel.from_desc(g)
    wm = WorldMap(LinRef([elem_matrix("translation", [1.0, 0.0], 2)]), m)
    assert np.allclose(wm.world(m.c[None], 0)[0] - m.c, m.R[:, 0] * 2.0 * 4 / 2)
    m2 = ref.GridModel.from_desc(dict(g, ac=False))
    wm2 = WorldMap(LinRef([elem_matrix("translation", [1.0, 0.0], 2)]), m2)
    assert np.allclose(wm2.world(m.c[None], 0)[0] - m.c, m.R[:, 0] * 2.0 * 5 / 2)
    # dense reference: cube-affine field is reproduced exactly between samples; B-spline of linear coefficients is linear
    for ac in (True, False):
        x = cube_coords((4, 5), ac)
        A, t = np.array([[0.1, -0.05], [0.02, 0.07]]), np.array([0.03, -0.02])
        u = np.moveaxis(x @ A.T + t, -1, 0)[None]
        d = DenseRef(u, ac)
        p = np.array([[0.21, -0.33], [-0.7, 0.6]])
        assert np.allclose(d.disp(p, 0), p @ A.T + t)
        assert np.allclose(d.absdev(), np.abs(A), atol=1e-12)
    coef = affine_coefficients(np.array([[0.1, -0.05, 0.02], [0.02, 0.07, -0.01]]), (5, 7), (2, 3))
    u = ffd_field(coef[None], (5, 7), (2, 3))[0]
    x = cube_coords((5, 7), True)
    assert np.allclose(np.moveaxis(u, 0, -1), x @ np.array([[0.1, -0.05], [0.02, 0.07]]).T + [0.02, -0.01], atol=1e-13)
    # composite references: listed order = order of application; multi-level adds displacements; validity follows the points
    A = LinRef([elem_matrix("aniso", [2.0, 0.5], 2)])
    B = LinRef([elem_matrix("translation", [0.3, -0.1], 2)])
    p = np.array([[0.2, -0.4]])
    assert np.allclose(SeqRef([A, B]).cube(p, 0), [[0.7, -0.3]]) and np.allclose(SeqRef([B, A]).cube(p, 0), [[1.0, -0.25]])
    assert np.allclose(ref.happly(SeqRef([A, B]).matrix(0), p), SeqRef([A, B]).cube(p, 0))
    assert np.allclose(MultiRef([A, B]).cube(p, 0), p + (p * [2.0, 0.5] - p) + [0.3, -0.1])
    assert np.allclose(ref.happly(MultiRef([A, B]).matrix(0), p), MultiRef([A, B]).cube(p, 0))
    xs = cube_coords((4, 5), True)
    Dn = DenseRef(np.moveaxis(0.1 * xs[..., ::-1] ** 2, -1, 0)[None], True)  # u(x, y) = 0.1 (y^2, x^2) at the samples
    q = np.array([[0.8, 0.0], [0.5, 0.0]])
    far = LinRef([elem_matrix("translation", [0.3, 0.0], 2)])
    assert list(SeqRef([far, Dn]).valid(q, 0)) == [False, True] and list(SeqRef([Dn, far]).valid(q, 0)) == [True, True]
    assert list(MultiRef([far, Dn]).valid(q, 0)) == [True, True]
    assert np.allclose(SeqRef([far, Dn]).cube(q[1:], 0), q[1:] + [0.3, 0.0] + Dn.disp(q[1:] + [0.3, 0.0], 0))
    assert not np.allclose(SeqRef([far, Dn]).cube(q[1:], 0), q[1:] + [0.3, 0.0] + Dn.disp(q[1:], 0), atol=1e-3)
    assert dense_after_moving(SeqRef([far, Dn])) and not dense_after_moving(SeqRef([Dn, far])) and not dense_after_moving(MultiRef([far, Dn]))
    assert dense_after_moving(MultiRef([B, SeqRef([far, Dn])])) and SeqRef([A, MultiRef([B, Dn])]).leaves() == 3
    assert np.allclose(FlipRef(A).cube(p, 0), p * [0.5, 2.0]) and list(FlipRef(SeqRef([far, Dn])).valid(q[:, ::-1], 0)) == [False, True]
    # derived grids of the generators describe what they claim
    gd = dict(g, size=[6, 5], kind="rotation")
    mg = ref.GridModel.from_desc(gd)
    for ac in (True, False):
        base = dict(gd, ac=ac)
        mb = ref.GridModel.from_desc(base)
        r = resized_grid(base, [9, 4])
        mr = ref.GridModel.from_desc(r)
        a = cax(ac)
        assert np.allclose(mr.points(np.array([[-1.0, -1.0], [1.0, 1.0]]), a, "world"), mb.points(np.array([[-1.0, -1.0], [1.0, 1.0]]), a, "world"))
        c = cropped_grid(base, [1, 2], [2, 0])
        mc = ref.GridModel.from_desc(c)
        assert np.allclose(mc.points(np.zeros((1, 2)), "grid", "world"), mb.points(np.array([[1.0, 2.0]]), "grid", "world"))
        assert list(mc.n) == [3, 3]


# ---------------------------------------------------------------------------------------
# B-spline helpers (control point k of an axis sits at output sample (k - 1) * stride)


def ffd_field(coef: np.ndarray, shape, stride_xyz) -> np.ndarray:
    """Cubic B-spline with coefficients coef[N, C, ..., X'] evaluated at the samples of a grid of tensor `shape`."""
    out = np.asarray(coef, dtype=np.float64)
    D = len(shape)
    for k in range(D):
        axis = 2 + k
        s = int(stride_xyz[D - 1 - k])
        u = 1.0 + np.arange(shape[k], dtype=np.float64) / s
        need = int(np.floor(u.max())) + 2
        if need > out.shape[axis] - 1:
            pad = [(0, 0)] * out.ndim
            pad[axis] = (0, need - out.shape[axis] + 1)
            out = np.pad(out, pad)
        out = ref.bspline_eval_1d(out, u, 0, axis=axis)
    return out


def control_shape(shape, stride_xyz):
    D = len(shape)
    res = []
    for k in range(D):
        n, s = int(shape[k]), int(stride_xyz[D - 1 - k])
        res.append(n // s + 3 + (1 if n % s else 0))
    return tuple(res)


def affine_coefficients(H: np.ndarray, shape, stride_xyz) -> np.ndarray:
    """Coefficients c_k = M x(k) + t at the cube_corners coordinate x(k) of each control point: array (D, ..., X')."""
    D = len(shape)
    cs = control_shape(shape, stride_xyz)
    axes = []
    for k in range(D):
        n, s = int(shape[k]), int(stride_xyz[D - 1 - k])
        j = (np.arange(cs[k], dtype=np.float64) - 1.0) * s
        axes.append(-1.0 + 2.0 * j / (n - 1))
    mesh = np.meshgrid(*axes, indexing="ij")
    x = np.stack(mesh[::-1], axis=-1)
    return np.moveaxis(x @ H[:, :D].T + H[:, D], -1, 0)


# ---------------------------------------------------------------------------------------
# derived grid descriptors


def resized_grid(g: dict, size) -> dict:
    """Same cube domain (w.r.t. g's align_corners), other size."""
    n = np.asarray(g["size"], dtype=np.float64)
    s = np.asarray(g["spacing"], dtype=np.float64)
    k = np.asarray(size, dtype=np.float64)
    sp = s * (n - 1) / (k - 1) if g["ac"] else s * n / k
    return dict(g, size=[int(v) for v in size], spacing=[float(v) for v in sp], kind="resized")


def cropped_grid(g: dict, lo, hi) -> dict:
    """Sub-grid without the first lo[i] and last hi[i] samples (same sample positions)."""
    m = ref.GridModel.from_desc(g)
    lo = np.asarray(lo, dtype=np.float64)
    n = m.n - lo - np.asarray(hi, dtype=np.float64)
    c = m.points(lo + (n - 1) / 2, "grid", "world")
    return dict(g, size=[int(v) for v in n], center=[float(v) for v in c], kind="cropped")


@st.composite
def related_grids(draw, g: dict, kinds=("own", "resized", "flip_ac", "cropped", "other"), max_size=8):
    D = len(g["size"])
    kind = draw(st.sampled_from(list(kinds)))
    if kind == "own":
        return dict(g), kind
    if kind == "flip_ac":
        return dict(g, ac=not g["ac"], kind="flip_ac"), kind
    if kind == "resized":
        size = draw(st.lists(st.integers(2, max_size), min_size=D, max_size=D))
        return resized_grid(g, size), kind
    if kind == "cropped":
        lo, hi = [], []
        for n in g["size"]:
            a = draw(st.integers(0, max(0, n - 2)))
            b = draw(st.integers(0, max(0, n - 2 - a)))
            lo.append(a)
            hi.append(b)
        c = cropped_grid(g, lo, hi)
        if draw(st.booleans()):
            c["ac"] = not c["ac"]
        return c, kind
    # unrelated overlapping grid: own orientation, extent a fraction of g's, centre near g's centre
    d = draw(gen.directions(D))
    size = draw(st.lists(st.integers(2, max_size), min_size=D, max_size=D))
    ext = [s * max(n - 1, 1) for s, n in zip(g["spacing"], g["size"])]
    frac = draw(st.lists(gen.qfloat(0.2, 0.9, 0.05), min_size=D, max_size=D))
    off = draw(st.lists(gen.qfloat(-0.2, 0.2, 0.05), min_size=D, max_size=D))
    m = ref.GridModel.from_desc(g)
    center = m.c + m.R @ (np.asarray(off) * np.asarray(ext))
    spacing = [round(f * min(ext) / (n - 1), 6) for f, n in zip(frac, size)]
    o = {"size": size, "spacing": spacing, "center": [round(float(v), 4) for v in center], "rot": d["rot"], "perm": d["perm"],
         "flip": d["flip"], "kind": "other", "ac": draw(st.booleans())}
    return o, kind


def tgrids(D, lo=2, hi=12):
    return gen.grids(D, min_size=lo, max_size=hi, mag=200.0, spacing_lo=0.1, spacing_hi=10.0)


# ---------------------------------------------------------------------------------------
# transform specs: strategies, construction, reference


def _vals(lo, hi, n, step=0.01):
    return st.lists(gen.qfloat(lo, hi, step), min_size=n, max_size=n)


@st.composite
def elem_values(draw, kind: str, D: int):
    na = 1 if D == 2 else 3
    if kind == "translation":
        return draw(_vals(-0.5, 0.5, D))
    if kind == "euler":
        return draw(_vals(-3.1, 3.1, na))
    if kind == "quaternion":
        q = draw(_vals(-1.0, 1.0, 4))
        if sum(v * v for v in q) < 0.09:
            q[0] = 1.0
        return q
    if kind == "iso":
        return draw(_vals(0.5, 2.0, 1))
    if kind == "aniso":
        return draw(_vals(0.5, 2.0, D))
    if kind == "shear":
        return draw(_vals(-0.75, 0.75, na))
    if kind == "homogeneous":
        v = draw(_vals(-0.3, 0.3, D * (D + 1)))
        m = np.array(v).reshape(D, D + 1)
        m[:, :D] += np.eye(D)
        m[:, D] = draw(_vals(-0.5, 0.5, D))
        return [round(float(a), 4) for a in m.reshape(-1)]
    raise ValueError(kind)


@st.composite
def linear_specs(draw, D: int, N: int, classes=None):
    names = list(ELEMENTARY) + list(COMPOSITE)
    if D == 2:
        names = [n for n in names if "Quaternion" not in n]
    if classes is not None:
        names = [n for n in names if n in classes]
    name = draw(st.sampled_from(names))
    spec = {"cls": name, "pkind": draw(st.sampled_from(["param", "buffer"]))}
    if name in ELEMENTARY:
        kind = ELEMENTARY[name]
        spec["groups"] = [{"params": draw(elem_values(kind, D))} for _ in range(N)]
        if kind == "euler" and D == 3:
            order = draw(st.sampled_from(ORDERS))
            if order is not None:
                spec["order"] = order
        if draw(st.integers(0, 3)) == 0:
            spec["pkind"] = "tensor"  # raw parameter tensor given to the constructor
    else:
        spec["groups"] = [{mname: draw(elem_values(kind, D)) for mname, kind in COMPOSITE[name]} for _ in range(N)]
    return spec


def _t32(rows):
    return torch.tensor(np.asarray(rows, dtype=np.float64), dtype=torch.float32)


def _set_elem(t, kind: str, rows, D: int):
    x = _t32(rows)
    if kind == "translation":
        t.offset_(x)
    elif kind in ("euler", "shear"):
        t.angles_(x)
    elif kind == "quaternion":
        t.quaternion_(x)
    elif kind in ("iso", "aniso"):
        t.scales_(x)
    elif kind == "homogeneous":
        t.matrix_(x.reshape(-1, D, D + 1))
    else:
        raise ValueError(kind)


def build_linear(spec: dict, grid):
    import deepali.spatial as S

    D = grid.ndim
    name = spec["cls"]
    cls = getattr(S, name)
    N = len(spec["groups"])
    flag = spec["pkind"] == "param"
    if name in ELEMENTARY:
        kind = ELEMENTARY[name]
        kw = {"order": spec["order"]} if "order" in spec else {}
        rows = [g["params"] for g in spec["groups"]]
        if spec["pkind"] == "tensor":
            x = _t32(rows)
            if kind == "quaternion":
                x = x / x.norm(dim=1, keepdim=True)
            if kind == "homogeneous":
                x = x.reshape(N, D, D + 1)
            return cls(grid, params=x, **kw)
        t = cls(grid, groups=N, params=flag, **kw)
        _set_elem(t, kind, rows, D)
        return t
    members = COMPOSITE[name]
    t = cls(grid, groups=N, **{mname: flag for mname, _ in members})
    for mname, kind in members:
        _set_elem(getattr(t, mname), kind, [g[mname] for g in spec["groups"]], D)
    return t


def linear_ref(spec: dict, D: int) -> LinRef:
    name = spec["cls"]
    mats = []
    for g in spec["groups"]:
        if name in ELEMENTARY:
            mats.append(elem_matrix(ELEMENTARY[name], g["params"], D, spec.get("order")))
        else:
            M = np.eye(D, D + 1)
            for mname, kind in COMPOSITE[name]:
                M = ref.hmul(elem_matrix(kind, g[mname], D), M)
            mats.append(M)
    return LinRef(mats)


def linear_effect(spec: dict, D: int) -> float:
    r = linear_ref(spec, D)
    return max(float(np.abs(m - np.eye(D, D + 1)).max()) for m in r.mats)


# dense -----------------------------------------------------------------------------------


@st.composite
def dense_specs(draw, g: dict, N: int, classes=None):
    D = len(g["size"])
    names = [n for n in DENSE if g["ac"] or n in DENSE[:2]]
    if classes is not None:
        names = [n for n in names if n in classes]
    name = draw(st.sampled_from(names))
    spec = {"cls": name, "route": draw(st.sampled_from(["ctor", "ctor_param", "data_", "data_after_eval", "inplace"]))}
    if name == "DisplacementFieldTransform":
        spec["field"] = draw(st.sampled_from(["affine", "noise"]))
    elif name == "FreeFormDeformation":
        spec["field"] = draw(st.sampled_from(["affine", "noise"]))
    else:
        spec["field"] = "velocity"
    if name in DENSE[2:]:
        spec["stride"] = draw(st.lists(st.integers(1, 3), min_size=D, max_size=D))
        spec["transpose"] = draw(st.booleans())
    elif draw(st.integers(0, 2)) == 0:
        # vector field sampled on a coarser lattice of the same domain (documented constructor options 'stride', 'resize')
        spec["dstride"] = draw(st.sampled_from([2, 3, 1.5, 2.5, "axes"]))
        if spec["dstride"] == "axes":
            spec["dstride"] = draw(st.lists(st.sampled_from([1, 2, 3, 1.5]), min_size=1, max_size=D))
        spec["resize"] = draw(st.booleans())
        if name == DENSE[1] and not g["ac"]:
            # a velocity field resized from a lattice whose border samples are not those of the grid is clamped near the border:
            # no closed form for its exponential
            spec["resize"] = False
        if min(vf_shape(tuple(g["size"][::-1]), spec["dstride"])) < 2:
            del spec["dstride"], spec["resize"]
    if spec["field"] == "affine":
        spec["A"] = draw(_vals(-0.12, 0.12, D * D))
        spec["t"] = draw(_vals(-0.2, 0.2, D))
    elif spec["field"] == "noise":
        spec["key"] = draw(st.integers(0, 10 ** 6))
        spec["amp"] = draw(gen.qfloat(0.02, 0.25, 0.01))
    else:
        spec["M"] = draw(_vals(-0.5, 0.5, D * D))
        spec["t"] = draw(_vals(-0.3, 0.3, D))
        spec["m1"] = draw(_vals(0.0, 1.0, D, 0.05))
        spec["m2"] = draw(_vals(0.0, 0.3, D, 0.05))
        spec["steps"] = draw(st.integers(0, 6))
        spec["scale"] = draw(st.sampled_from([None, 1.0, 0.5, -1.0]))
    spec["N"] = N
    return spec


def dense_fields(spec: dict, g: dict):
    """-> (parameter array (N, D, ...), sampled displacement field u (N, D, ...shape) float64, extra cube-unit error, kwargs)."""
    D = len(g["size"])
    shape = tuple(g["size"][::-1])
    ac = g["ac"]
    N = spec["N"]
    name = spec["cls"]
    x = cube_coords(shape, ac)
    kw = {}
    extra = 0.0
    bspl = name in DENSE[2:]
    if bspl:
        stride = spec["stride"]
        kw["stride"] = list(stride)
        kw["transpose"] = spec["transpose"]
    # lattice of the parameters (pshape) and of the buffered vector fields (shape) of a dense vector field model: with
    # 'stride' the parameters live on ceil(n / stride) points spanning the same domain; the buffered fields are resized to the
    # grid (resize=True) or stay on the parameter lattice
    gshape = shape
    pshape = vf_shape(shape, spec.get("dstride"))
    if spec.get("dstride") is not None:
        kw["stride"] = spec["dstride"]
        kw["resize"] = bool(spec["resize"])
        if not spec["resize"]:
            shape = pshape
            x = cube_coords(shape, ac)
    xp = cube_coords(pshape, ac)
    params, fields = [], []
    if spec["field"] == "velocity":
        scale = spec["scale"]
        s = 1.0 if scale is None else float(scale)
        steps = spec["steps"]
        gens = []
        for b in range(N):
            # G: inward pointing generator (sample hull invariant); the flow integrates scale * v = |s| * G
            G = build_generator({"D": D, "shape": list(shape), "ac": ac, "M": spec["M"], "t": spec["t"], "m1": spec["m1"],
                                 "m2": spec["m2"]}) / (b + 1)
            gens.append(G)
            steps = min_steps(G, abs(s), steps)
        kw["steps"] = steps
        if scale is not None:
            kw["scale"] = scale
        for H in gens:
            Hs = H if s > 0 else -H  # parameters hold v with scale * v = |s| * G
            P = ref.sas_power(H, steps, abs(s))
            # (the velocity on the lattice of the exponential is the cube-affine field itself: corners aligned or not resized)
            fields.append(np.moveaxis(x @ (P[:D, :D] - np.eye(D)).T + P[:D, D], -1, 0))
            if bspl:
                params.append(affine_coefficients(Hs, shape, stride))
            else:
                params.append(np.moveaxis(xp @ Hs[:, :D].T + Hs[:, D], -1, 0))
        mag = max(1.0, max(float(np.abs(H).sum(1).max()) for H in gens) * abs(s))
        extra = 64 * EPS32 * (steps + 1) * mag
    elif spec["field"] == "zero":  # parameters after reset_parameters()
        pshape = control_shape(shape, spec["stride"]) if bspl else pshape
        params = [np.zeros((D,) + tuple(pshape))] * N
        fields = [np.zeros((D,) + tuple(shape))] * N
    elif spec["field"] == "affine":
        for b in range(N):
            H = np.concatenate([np.array(spec["A"]).reshape(D, D), np.array(spec["t"])[:, None]], axis=1) / (b + 1)
            params.append(affine_coefficients(H, shape, stride) if bspl else np.moveaxis(xp @ H[:, :D].T + H[:, D], -1, 0))
            # resized from a coarser lattice whose borders are not aligned with the corners, the field is clamped near the border
            fields.append(np.moveaxis(x @ H[:, :D].T + H[:, D], -1, 0) if bspl else vf_resample(params[-1][None], shape, ac)[0])
        extra = 16 * EPS32 if bspl else 0.0
    else:
        pshape = control_shape(shape, spec["stride"]) if bspl else pshape
        for b in range(N):
            p = hash_noise((D,) + tuple(pshape), spec["key"] + 17 * b, -spec["amp"], spec["amp"])
            params.append(p)
        if bspl:
            fields = list(ffd_field(np.stack(params), shape, spec["stride"]))
            extra = 16 * EPS32
        else:
            fields = list(vf_resample(np.stack(params), shape, ac))
    return np.stack(params), np.stack(fields), extra, kw


def vf_shape(shape, dstride):
    """Tensor shape of the parameter lattice of a dense vector field model: ceil(n / stride), stride given in (x, ...) order,
    missing trailing entries = 1 (DenseVectorFieldTransform docstring)."""
    if dstride is None:
        return tuple(shape)
    D = len(shape)
    sx = [float(dstride)] * D if isinstance(dstride, (int, float)) else [float(v) for v in dstride] + [1.0] * (D - len(dstride))
    return tuple(int(math.ceil(n / sv)) for n, sv in zip(shape, sx[::-1]))


def vf_resample(u: np.ndarray, shape, ac: bool) -> np.ndarray:
    """Samples u[N, D, ...] on a lattice spanning the domain -> multilinear interpolant (border clamp) at the points of the
    lattice of tensor shape `shape` spanning the same domain (what 'resize=True' documents for the buffered vector field)."""
    u = np.asarray(u, dtype=np.float64)
    if tuple(u.shape[2:]) == tuple(shape):
        return u
    src = DenseRef(u, ac)
    x = cube_coords(tuple(shape), ac)
    return np.stack([np.moveaxis(src.disp(x, b), -1, 0) for b in range(u.shape[0])])


def build_dense(spec: dict, grid, g: dict):
    import deepali.spatial as S

    params, fields, extra, kw = dense_fields(spec, g)
    cls = getattr(S, spec["cls"])
    p = torch.tensor(params, dtype=torch.float32)
    N = spec["N"]
    if spec["route"] == "ctor":
        t = cls(grid, groups=N, params=p, **kw)
    elif spec["route"] == "ctor_param":
        t = cls(grid, params=torch.nn.Parameter(p), **kw)
    elif spec["route"] == "inplace":
        # optimizer style: buffers as an earlier evaluation left them (identity parameters), then an in-place step of the
        # parameters; every later evaluation through __call__ (update() is a forward pre-hook, also of an enclosing
        # composite / transformer) has to use the new values
        t = cls(grid, groups=N, params=True, **kw)
        t.update()
        with torch.no_grad():
            t.params.copy_(p)
    elif spec["route"] == "data_after_eval":
        # the fresh (identity) transform is evaluated first, so that buffered vector fields exist; replacing the
        # parameters must invalidate them: every view - also disp()/forward() called directly - describes the new map
        t = cls(grid, groups=N, params=True, **kw)
        t.update()
        t.disp()
        t.data_(p)
    else:
        t = cls(grid, groups=N, params=True, **kw)
        t.data_(p)
    return t, _dense_ref(spec, g, p, fields, extra)


def _dense_ref(spec: dict, g: dict, p, fields, extra) -> DenseRef:
    """Reference of a dense model from the float32 parameter values actually handed over."""
    if spec["field"] == "noise":
        p64 = p.double().numpy()
        if spec["cls"] in DENSE[2:]:
            fields = ffd_field(p64, tuple(g["size"][::-1]), spec["stride"])
        else:
            fields = vf_resample(p64, tuple(np.shape(fields)[2:]), g["ac"])
    return DenseRef(fields, g["ac"], extra=extra + 4 * EPS32 * float(np.abs(fields).max()))


def dense_param_ref(spec: dict, g: dict):
    """-> (float32 parameter tensor, reference, constructor kwargs) of the dense parameter spec on grid descriptor `g`."""
    params, fields, extra, kw = dense_fields(spec, g)
    p = torch.tensor(params, dtype=torch.float32)
    return p, _dense_ref(spec, g, p, fields, extra), kw


def dense_effect(r: DenseRef) -> float:
    return float(np.abs(r.u).max())


# generic ------------------------------------------------------------------------------------


COMPOSITES = ("SequentialTransform", "MultiLevelTransform")


def build_any(spec: dict, grid, g: dict):
    """-> (deepali transform, reference in the cube of `g`) for a leaf, a (nested) composite or a generic configuration."""
    D = len(g["size"])
    if spec["cls"] in COMPOSITES:
        return build_tree(spec, grid, g)
    if spec["cls"] == "GenericSpatialTransform":
        t, r, _ = build_generic(spec, grid, g)
        return t, r
    if "gsize" in spec:
        # member of a composite defined on its own grid: same cube domain and convention, other size (multi-resolution levels)
        g = resized_grid(g, spec["gsize"])
        grid = make_grid(g)
    if spec["cls"] in DENSE:
        return build_dense(spec, grid, g)
    return build_linear(spec, grid), linear_ref(spec, D)


def tree_grid(spec: dict, g: dict) -> dict:
    """Descriptor of the grid of the transform built from `spec` on `g`: a composite constructed without a grid takes the
    grid of its first member (CompositeTransform.__init__), a leaf with 'gsize' lives on a resized same-domain grid."""
    if spec["cls"] in COMPOSITES:
        if spec.get("ctor", "args") == "grid_args" or not spec["members"]:
            return g
        return tree_grid(spec["members"][0], g)
    if "gsize" in spec:
        return resized_grid(g, spec["gsize"])
    return g


def build_tree(spec: dict, grid, g: dict):
    """Sequential / MultiLevel composite of leaves, generic transforms and composites (constructor forms of CompositeTransform)."""
    import collections

    import deepali.spatial as S

    built = [build_any(s, grid, g) for s in spec["members"]]
    ts = [b[0] for b in built]
    refs = [b[1] for b in built]
    cls = getattr(S, spec["cls"])
    ctor = spec.get("ctor", "args")
    if ctor == "args":
        comp = cls(*ts)
    elif ctor == "grid_args":
        comp = cls(grid, *ts)
    else:
        comp = cls(collections.OrderedDict((f"m{i}", t) for i, t in enumerate(ts)))
    return comp, (SeqRef(refs) if spec["cls"] == "SequentialTransform" else MultiRef(refs))


@st.composite
def any_specs(draw, g: dict, N: int, dense_p=0.5):
    D = len(g["size"])
    if min(g["size"]) >= 3 and draw(st.floats(0, 1)) < dense_p:
        return draw(dense_specs(g, N))
    return draw(linear_specs(D, N))


@st.composite
def member_specs(draw, g: dict, N: int, dense_p: float, depth: int, mixed_groups: bool):
    """A member of a composite: a leaf with N (or, for N > 1, sometimes 1) groups, a nested composite or a generic transform."""
    what = draw(st.integers(0, 9)) if depth > 0 else 9
    if what == 0:
        return draw(tree_specs(g, N, dense_p, depth - 1, 1, 2, mixed_groups))
    if what == 1 and N == 1:
        return draw(generic_specs(g, short=True))
    Nm = 1 if (mixed_groups and N > 1 and draw(st.integers(0, 3)) == 0) else N
    if draw(st.integers(0, 2)) == 0:
        # the member is defined on its own grid of the same domain (coarser / finer level)
        D = len(g["size"])
        gsize = draw(st.lists(st.integers(3, 9 if D == 2 else 6), min_size=D, max_size=D))
        spec = draw(any_specs(resized_grid(g, gsize), Nm, dense_p))
        spec["gsize"] = gsize
        return spec
    return draw(any_specs(g, Nm, dense_p))


@st.composite
def tree_specs(draw, g: dict, N: int, dense_p=0.6, depth=1, kmin=1, kmax=3, mixed_groups=True):
    k = draw(st.integers(kmin, kmax))
    return {"cls": draw(st.sampled_from(COMPOSITES)), "ctor": draw(st.sampled_from(["args", "grid_args", "dict"])),
            "members": [draw(member_specs(g, N, dense_p, depth, mixed_groups)) for _ in range(k)]}


def describe(spec: dict) -> str:
    """Structure of a spec tree for messages, e.g. Sequential[Translation, MultiLevel[DisplacementFieldTransform, Shearing]]."""
    if spec["cls"] in COMPOSITES:
        return spec["cls"].replace("Transform", "") + "[" + ", ".join(describe(s) for s in spec["members"]) + "]"
    if spec["cls"] == "GenericSpatialTransform":
        return f"Generic('{spec['transform']}', '{spec['affine_model']}')"
    return spec["cls"] + (f"(groups={spec['N']})" if spec.get("N", 1) > 1 else "") + \
        (f"(groups={len(spec['groups'])})" if len(spec.get("groups", [1])) > 1 else "")


def spec_classes(spec: dict):
    """Class names of all leaves of a spec tree (labels)."""
    if spec["cls"] in COMPOSITES:
        return sorted({c for s in spec["members"] for c in spec_classes(s)})
    if spec["cls"] == "GenericSpatialTransform":
        return ["Generic:" + spec["transform"]]
    return [spec["cls"]]


def dense_after_moving(r) -> bool:
    """Does the reference tree contain a sequence in which a non-rigid member follows members that moved the point?
    (class of inputs for which grid points handed to a later member are no longer undeformed grid points; label only)"""
    r = getattr(r, "inner", r)
    members = getattr(r, "members", None)
    if members is None:
        return False
    if any(dense_after_moving(m) for m in members):
        return True
    if isinstance(r, SeqRef):
        moved = False
        for m in members:
            if moved and not m.linear:
                return True
            moved = moved or m.effect() >= 0.02
    return False


# ---------------------------------------------------------------------------------------
# points


def rel_points(D, min_n=2, max_n=6, lo=0.0, hi=1.0):
    return st.lists(st.lists(gen.qfloat(lo, hi, 0.001), min_size=D, max_size=D), min_size=min_n, max_size=max_n)


def cube_points(m: ref.GridModel, rel) -> np.ndarray:
    """Fractions of the sample hull (0 = first sample, 1 = last sample) -> cube coordinates of the grid."""
    idx = np.asarray(rel, dtype=np.float64) * (m.n - 1)
    return m.points(idx, "grid", cax(m.ac))


def arrange(p: np.ndarray, Nb: int, form: str) -> np.ndarray:
    """k points -> (Nb, k, D) point sets or (Nb, ..., 2, k/2, D) grid shaped tensors (different points per batch item)."""
    k, D = p.shape
    items = [np.roll(p, b, axis=0) * (1.0 - 0.1 * b) for b in range(Nb)]
    a = np.stack(items)
    if form == "grid" and k % 2 == 0:
        a = a.reshape((Nb,) + (1,) * (D - 2) + (2, k // 2, D))
    return a


def inside_hull(m: ref.GridModel, pw: np.ndarray, margin=0.0) -> np.ndarray:
    idx = m.points(pw, "world", "grid")
    return np.all((idx >= margin) & (idx <= m.n - 1 - margin), axis=-1)


# ---------------------------------------------------------------------------------------
# facet 1: identity at construction


@st.composite
def identity_cases(draw):
    D = draw(gen.dims())
    names = list(ELEMENTARY) + list(COMPOSITE) + DENSE + ["SequentialTransform", "MultiLevelTransform", "Generic"]
    if D == 2:
        names = [n for n in names if "Quaternion" not in n]
    name = draw(st.sampled_from(names))
    dense = name in DENSE
    g = draw(tgrids(D, 3 if dense else 2, (9 if D == 2 else 6) if dense else 12))
    if name in DENSE[2:]:
        g["ac"] = True
    case = {"D": D, "grid": g, "cls": name, "N": draw(st.sampled_from([1, 1, 2, 3])),
            "params": draw(st.sampled_from([True, False])), "rel": draw(rel_points(D, 2, 4, -0.2, 1.2 if not dense else 1.0))}
    if dense:
        case["rel"] = [[min(max(v, 0.0), 1.0) for v in p] for p in case["rel"]]
    if name == "EulerRotation" and D == 3:
        case["order"] = draw(st.sampled_from([o for o in ORDERS if o]))
    if name == "Generic":
        case["model"] = draw(st.sampled_from(["TRS", "TQS", "A", "KT", "T o R o S", "RKS", "TQ"])) if D == 3 else \
            draw(st.sampled_from(["TRS", "A", "KT", "T o R o S", "RKS"]))
        case["transform"] = draw(st.sampled_from(["Affine", "Affine o DDF", "SVF o Affine", "DDF"]))
        case["N"] = 1
    return case


def run_identity(case):
    import deepali.spatial as S
    from deepali.spatial.generic import TransformConfig

    D, g, name, N = case["D"], case["grid"], case["cls"], case["N"]
    grid = make_grid(g)
    m = ref.GridModel.from_desc(g)
    flag = case["params"]
    if name in ELEMENTARY or name in DENSE:
        kw = {"order": case["order"]} if "order" in case else {}
        t = getattr(S, name)(grid, groups=N, params=flag, **kw)
    elif name in COMPOSITE:
        t = getattr(S, name)(grid, groups=N, **{mn: flag for mn, _ in COMPOSITE[name]})
    elif name == "Generic":
        if min(g["size"]) < 3 and case["transform"] != "Affine":
            raise Skip("dense component needs >= 3 samples")
        t = S.GenericSpatialTransform(grid, params=flag, config=TransformConfig(transform=case["transform"], affine_model=case["model"]))
    else:
        members = [S.Translation(grid, groups=N, params=flag), S.AnisotropicScaling(grid, groups=N, params=flag)]
        if min(g["size"]) >= 3:
            members.append(S.DisplacementFieldTransform(grid, groups=N, params=flag))
        t = getattr(S, name)(*members)
    tag = name if name != "Generic" else "GenericSpatialTransform"
    xc = cube_points(m, case["rel"])
    x = torch.tensor(xc[None], dtype=torch.float32)
    y = t(x)
    xe = np.broadcast_to(x.double().numpy(), (y.shape[0],) + xc.shape)
    tol = 8 * EPS32 * (1.0 + float(np.abs(xc).max()))
    r = check_close(y, xe, tol, f"fresh_forward:{tag}", f"{tag}(grid, groups={N}, params={flag})(x) != x")
    t.update()
    u = t.disp()
    if tuple(u.shape[1:]) != (D,) + tuple(g["size"][::-1]):
        raise Violation(f"fresh_disp_shape:{tag}", f"disp() has shape {tuple(u.shape)} for grid size {g['size']}")
    check_close(u, np.zeros(tuple(u.shape)), 8 * EPS32 * 2.0, f"fresh_disp:{tag}", f"{tag}.disp() != 0")
    if t.linear:
        I = np.eye(D, D + 1)
        T = t.tensor()
        if T.ndim != 3 or T.shape[1] != D or T.shape[2] not in (1, D, D + 1):
            raise Violation(f"fresh_tensor_shape:{tag}", f"tensor() has shape {tuple(T.shape)}")
        from deepali.core.linalg import as_homogeneous_matrix

        Mx = t.matrix() if isinstance(t, S.LinearTransform) else as_homogeneous_matrix(T)
        if tuple(Mx.shape) != (T.shape[0], D, D + 1):
            raise Violation(f"fresh_matrix_shape:{tag}", f"matrix() has shape {tuple(Mx.shape)}, tensor() {tuple(T.shape)}")
        check_close(Mx, np.broadcast_to(I, tuple(Mx.shape)), 8 * EPS32, f"fresh_matrix:{tag}", f"{tag}.matrix() != [I|0]")
    xw = m.points(xc, cax(m.ac), "world")
    yw = t.points(torch.tensor(xw[None], dtype=torch.float32), axes="world")
    wm = WorldMap(LinRef([np.eye(D, D + 1)]), m)
    check_close(yw, np.broadcast_to(xw, tuple(yw.shape)), K * EPS32 * wm.cond(xw), f"fresh_world_points:{tag}",
                f"{tag}.points(x, axes=WORLD) != x")
    return {"ratio": r, "nontrivial": gen.grid_is_oblique(g) or gen.grid_is_anisotropic(g),
            "labels": [tag, f"D={D}", f"ac={g['ac']}", f"N={N}", f"params={flag}"]}


# ---------------------------------------------------------------------------------------
# facet 2: views of one transform


@st.composite
def view_cases(draw, dense: bool):
    D = draw(gen.dims())
    g = draw(tgrids(D, 3 if dense else 2, (9 if D == 2 else 6) if dense else 12))
    N = draw(st.sampled_from([1, 1, 2]))
    if dense:
        spec = draw(dense_specs(g, N))
    else:
        spec = draw(linear_specs(D, N))
    og, okind = draw(related_grids(g))
    pg = draw(st.one_of(st.none(), related_grids(g, kinds=("own", "other", "cropped", "flip_ac")).map(lambda a: a[0])))
    qg = draw(st.one_of(st.none(), related_grids(g, kinds=("own", "other", "resized")).map(lambda a: a[0])))
    case = {
        "D": D, "grid": g, "t": spec, "rel": draw(rel_points(D, 2, 6)), "Nb": draw(st.sampled_from([1, N])),
        "form": draw(st.sampled_from(["set", "grid"])), "dtype": draw(st.sampled_from(["float32", "float32", "float64"])),
        "other": og, "other_kind": okind,
        "pgrid": pg, "paxes": draw(st.sampled_from(["world", "cube", "cube_corners", "grid", None])),
        "qgrid": qg, "qaxes": draw(st.sampled_from(["world", "cube", "cube_corners", "grid", None])),
        "via": draw(st.sampled_from(["points", "transformer"])),
        "gsize": draw(st.lists(st.integers(2, 9 if D == 2 else 6), min_size=D, max_size=D)),
        # Module.eval(): the training flag is not part of the map (inference with a trained / loaded transformation)
        "eval_mode": draw(st.booleans()),
    }
    return case


def _known_excludes_other_grid(case, dense):
    """Id of a *known* finding (known_findings.json) whose sub-domain contains disp/flow on the case's other grid, else None.
    Only that view is left out; every other view of the case is still checked."""
    if KNOWN.active("F33") and dense and case["other"]["ac"] != case["grid"]["ac"]:
        return "F33"
    if KNOWN.active("F34") and not dense and case["t"]["cls"] in ELEMENTARY and case["other_kind"] != "own":
        return "F34"
    if KNOWN.active("F21") and dense and case["t"]["N"] > 1 and case["other_kind"] != "own":
        return "F21"
    return None


def check_disp_on(t, wm: WorldMap, og: dict, okind: str, dense: bool, tag: str):
    """t.disp(g) and t.flow(g) at g's sample points vs the reference world displacement expressed in g's cube."""
    N = wm.N
    D = wm.m.D
    ogrid = make_grid(og)
    mo = ref.GridModel.from_desc(og)
    ao = cax(mo.ac)
    xw = mo.world_points()
    # dense models: inside the hull of the samples of the vector field (a coarser lattice when 'stride' is used with resize=False)
    mask = wm.r.valid(wm.to_cube(xw), 0) if dense else np.ones(xw.shape[:-1], dtype=bool)
    expect_w = np.stack([wm.world(xw, b) - xw for b in range(N)])  # (N, ..., D)
    Lo = mo.matrix("world", ao)[:, :D]
    expect = np.moveaxis(expect_w @ Lo.T, -1, 1)  # (N, D, ...)
    ampo = float(np.abs(Lo).sum(1).max())
    bound = K * EPS32 * (ampo * wm.cond(xw, xw + expect_w) + 1.0 + float(np.abs(expect).max()))
    if dense:
        # resampling a field onto another grid pads with zeros: a sample that rounding puts just outside the hull
        # picks up a weight (coordinate error in samples) of the neighbouring zero
        back = float((wm.absR @ wm.h).max())
        W = max(wm.ext, float(np.abs(xw).max()))
        bound += K * EPS32 * ampo * back * (W / float(wm.h.min())) * (float(wm.m.n.max()) / 2) * wm.r.shift()
    d = t.disp(ogrid)
    want = (N, D) + tuple(og["size"][::-1])
    if tuple(d.shape[1:]) == want[1:] and d.shape[0] != N:
        raise Violation(f"disp_batch_size:{tag}", f"disp(grid {okind}) has batch size {d.shape[0]} for {N} transformation groups")
    if tuple(d.shape) != want:
        raise Violation(f"disp_shape:{tag}", f"disp(grid {okind}) has shape {tuple(d.shape)}, expected {want}")
    sel = np.broadcast_to(mask[None, None], expect.shape)
    r = check_close(np.where(sel, d.detach().double().numpy(), 0.0), np.where(sel, expect, 0.0), bound, f"disp_on_{okind}_grid:{tag}",
                    f"disp({okind} grid, ac={og['ac']}) vs reference world displacement in that grid's cube units")
    fl = t.flow(ogrid)
    if fl.grid() != ogrid or fl.grid().align_corners() != ogrid.align_corners():
        raise Violation(f"flow_grid:{tag}", f"flow({okind} grid).grid() is not the requested grid")
    fa = fl.axes().value
    Lf = mo.matrix(fa, "world")[:, :D]
    fw = np.moveaxis(fl.tensor().detach().double().numpy(), 1, -1) @ Lf.T  # numbers read with the labelled axes
    bw = K * EPS32 * (wm.cond(xw, xw + expect_w) + float(np.abs(expect_w).max()))
    selw = np.broadcast_to(mask[None, ..., None], expect_w.shape)
    check_close(np.where(selw, fw, 0.0), np.where(selw, expect_w, 0.0), bw, f"flow_on_{okind}_grid:{tag}",
                f"flow({okind} grid) read with its own axes label '{fa}' vs reference world displacement")
    return r, int(mask.sum())


def run_views(case, dense: bool):
    import deepali.spatial as S

    g, spec = case["grid"], case["t"]
    grid = make_grid(g)
    t, r = build_any(spec, grid, g)
    if case.get("eval_mode"):
        t.eval()
    return check_views(case, dense, t, r, g, spec, extra_labels=[f"mode={'eval' if case.get('eval_mode') else 'train'}"])


def check_views(case, dense: bool, t, r, g: dict, spec: dict, extra_labels=()):
    """All views of the transform `t` (defined on grid descriptor `g`, reference `r` in the cube of `g`) vs the reference world map.
    `spec`: class name, labels and - for route 'inplace' - the recipe to build a twin nobody has evaluated yet."""
    import deepali.spatial as S

    excluded = _known_excludes_other_grid(case, dense)
    D = case["D"]
    grid = make_grid(g)
    m = ref.GridModel.from_desc(g)
    wm = WorldMap(r, m)
    N = r.N
    tag = spec["cls"]
    ax = cax(m.ac)
    dt = tdtype(case["dtype"])
    worst = 0.0
    if t.axes().value != ax or t.align_corners() != m.ac:
        raise Violation("axes_accessor", f"{tag}.axes() = {t.axes().value} for grid.align_corners() = {m.ac}")
    if dense and spec.get("route") == "data_after_eval":
        # data_() replaced the parameters after buffers existed: the dense field obtained right away - without a call
        # that runs the update() pre-hook - must already describe the new parameters
        T_now = t.tensor()
        want_now = np.stack([np.moveaxis(r.disp(cube_coords(tuple(r.u.shape[2:]), m.ac), b), -1, 0) for b in range(N)])
        if tuple(T_now.shape) == want_now.shape:
            worst = max(worst, check_close(T_now, want_now, K * EPS32 * (1.0 + r.shift()) + r.extra, f"tensor_after_data_:{tag}",
                                           f"{tag}.tensor() right after data_() on a transform that had been evaluated before"))
        else:
            raise Violation(f"tensor_shape:{tag}", f"tensor() has shape {tuple(T_now.shape)}, expected {want_now.shape}")
    # forward
    xc = arrange(cube_points(m, case["rel"]), case["Nb"], case["form"])
    x = torch.tensor(xc, dtype=dt)
    x0 = x.clone()
    y = t(x)
    Ny = max(N, case["Nb"])
    expect = np.stack([r.cube(xc[b % case["Nb"]], b) for b in range(Ny)])
    if tuple(y.shape) != expect.shape:
        raise Violation(f"forward_shape:{tag}", f"{tag}(x{tuple(x.shape)}) has shape {tuple(y.shape)}, expected {expect.shape}")
    if not torch.equal(x, x0):
        raise Violation(f"forward_modifies_input:{tag}", "forward modified its input points")
    worst = max(worst, check_close(y, expect, wm.cube_bound(xc), f"forward:{tag}", f"{tag}(x) vs reference map, x{tuple(x.shape)} {case['dtype']}"))
    # forward(x, grid=True): x = undeformed sample points of a grid with the domain of the transform (any size)
    for size in (g["size"], case.get("gsize") or g["size"]):
        shape = tuple(size[::-1])
        xg = cube_coords(shape, m.ac)
        yg = t(torch.tensor(xg[None], dtype=dt), grid=True)
        eg = np.stack([r.cube(xg, b) for b in range(N)])
        if tuple(yg.shape) != eg.shape:
            raise Violation(f"forward_grid_shape:{tag}", f"{tag}(x{(1,) + xg.shape}, grid=True) has shape {tuple(yg.shape)}, expected {eg.shape}")
        hull = r.valid(xg, 0)
        selg = np.broadcast_to(hull[None, ..., None], eg.shape)
        worst = max(worst, check_close(np.where(selg, yg.detach().double().numpy(), 0.0), np.where(selg, eg, 0.0), wm.cube_bound(xg),
                                       f"forward_grid:{tag}", f"{tag}(x, grid=True) at the sample points of a same-domain grid of size {list(size)}"))
    # tensor / matrix
    T = t.tensor()
    if t.linear:
        want = np.stack([r.matrix(b) for b in range(N)])
        mb = K * EPS32 * (float(np.abs(want).max()) + 1.0) * D * (len(COMPOSITE.get(tag, ())) + 1)
        if isinstance(t, S.LinearTransform):
            Mx = t.matrix()
            if tuple(Mx.shape) != want.shape:
                raise Violation(f"matrix_shape:{tag}", f"matrix() shape {tuple(Mx.shape)}, expected {want.shape}")
            worst = max(worst, check_close(Mx, want, mb, f"matrix:{tag}", f"{tag}.matrix() vs reference matrix in cube coordinates"))
        if T.ndim != 3 or T.shape[1] != D or T.shape[2] not in (1, D, D + 1):
            raise Violation(f"tensor_shape:{tag}", f"tensor() has shape {tuple(T.shape)}")
        Tn = T.detach().double().numpy()
        full = np.broadcast_to(np.eye(D, D + 1), (T.shape[0], D, D + 1)).copy()
        if T.shape[2] == 1:
            full[:, :, D] = Tn[:, :, 0]
        else:
            full[:, :, : T.shape[2]] = Tn
        check_close(full, want, mb, f"tensor:{tag}", f"{tag}.tensor() applied with the reference homogeneous model")
    else:
        # (the buffered field of a dense vector field model with resize=False lives on the lattice of its parameters)
        want = np.stack([np.moveaxis(r.disp(cube_coords(tuple(r.u.shape[2:]), m.ac), b), -1, 0) for b in range(N)])
        if tuple(T.shape) != want.shape:
            raise Violation(f"tensor_shape:{tag}", f"tensor() has shape {tuple(T.shape)}, expected {want.shape}")
        check_close(T, want, K * EPS32 * (1.0 + r.shift()) + r.extra, f"tensor:{tag}", f"{tag}.tensor() vs reference sampled displacement field")
    # disp / flow
    t.update()
    d0 = t.disp()
    xs = cube_coords(tuple(g["size"][::-1]), m.ac)
    want0 = np.stack([np.moveaxis(r.cube(xs, b) - xs, -1, 0) for b in range(N)])
    if tuple(d0.shape) != want0.shape:
        raise Violation(f"disp_shape:{tag}", f"disp() has shape {tuple(d0.shape)}, expected {want0.shape}")
    worst = max(worst, check_close(d0, want0, wm.cube_bound(xs), f"disp_own_grid:{tag}", f"{tag}.disp() at its own sample points"))
    ninside = 0
    if excluded is None:
        rr, ninside = check_disp_on(t, wm, case["other"], case["other_kind"], dense, tag)
        worst = max(worst, rr)
    # points(..., grid, axes, to_grid, to_axes) / PointSetTransformer
    pg, qg = case["pgrid"], case["qgrid"]
    mp = m if pg is None else ref.GridModel.from_desc(pg)
    mq = mp if qg is None else ref.GridModel.from_desc(qg)
    pa = case["paxes"] or ax          # axes default: those of the transform
    qa = case["qaxes"] or pa          # to_axes default: axes
    xw_arr = m.points(xc, ax, "world")
    xin = torch.tensor(mp.points(xw_arr, "world", pa), dtype=dt)
    kw = {}
    if pg is not None:
        kw["grid"] = make_grid(pg)
    if qg is not None:
        kw["to_grid"] = make_grid(qg)
    if case["paxes"] is not None:
        kw["axes"] = pa if case["via"] == "points" else _axes(pa)
    if case["qaxes"] is not None:
        kw["to_axes"] = _axes(qa)
    if case["via"] == "points":
        out = t.points(xin, **kw)
    else:
        # a transformer evaluates the transform as a functor (update() pre-hook): with parameters changed in place it has to
        # be correct also when it is the first evaluation after the change -> use a transform nobody has evaluated yet
        tp = build_any(spec, grid, g)[0] if spec.get("route") == "inplace" else t
        out = S.PointSetTransformer(tp, **kw)(xin)
    xw_in = mp.points(xin.double().numpy(), pa, "world")
    yw = np.stack([wm.world(xw_in[b % case["Nb"]], b) for b in range(Ny)])
    expect_q = mq.points(yw, "world", qa)
    if tuple(out.shape) != expect_q.shape:
        raise Violation(f"points_shape:{tag}", f"{case['via']} output shape {tuple(out.shape)}, expected {expect_q.shape}")
    Lq = mq.matrix("world", qa)[:, :D]
    pb = K * EPS32 * (float(np.abs(Lq).sum(1).max()) * (wm.cond(xw_in, yw) + mp.cond(pa, "world", xin.double().numpy())) + 1.0
                      + float(np.abs(expect_q).max()))
    ins = r.valid(wm.to_cube(xw_in) * (1.0 - 1e-6), 0) if dense else np.ones(xw_in.shape[:-1], dtype=bool)
    ins = np.broadcast_to(ins[[b % case["Nb"] for b in range(Ny)]][..., None], expect_q.shape)
    kind = "points_api" if case["via"] == "points" else "pointset_transformer"
    pname = "own" if pg is None else pg["kind"]
    qname = "same" if qg is None else qg["kind"]
    worst = max(worst, check_close(np.where(ins, out.detach().double().numpy(), 0.0), np.where(ins, expect_q, 0.0), pb, f"{kind}:{tag}",
                                   f"{case['via']}(x; {pa}@{pname} -> {qa}@{qname}) vs reference world map"))
    effect = r.effect()
    nt = effect >= 0.05 and (gen.grid_is_oblique(g) or gen.grid_is_anisotropic(g)) and ninside >= 2
    return {"ratio": worst, "nontrivial": nt,
            "labels": [tag, f"D={D}", f"ac={g['ac']}", f"N={N}", f"other={case['other_kind']}", f"other_ac={case['other']['ac']}",
                       case["dtype"], f"form={case['form']}", f"via={case['via']}", f"{pa}->{qa}", g["kind"]]
                      + ([f"field={spec['field']}", f"route={spec['route']}", f"vf_stride={'dstride' in spec}", f"vf_resize={spec.get('resize')}"]
                         if dense else [f"pkind={spec['pkind']}"])
                      + ([f"excluded_known={excluded}"] if excluded else []) + list(extra_labels)}


# ---------------------------------------------------------------------------------------
# facet 3: composition


@st.composite
def composite_cases(draw):
    D = draw(gen.dims())
    g = draw(tgrids(D, 3, 9 if D == 2 else 6))
    N = draw(st.sampled_from([1, 1, 2]))
    flavour = draw(st.sampled_from(["linear", "mixed", "mixed"]))
    tree = draw(tree_specs(g, N, dense_p=0.0 if flavour == "linear" else 0.6, depth=1))
    og, okind = draw(related_grids(g, kinds=("own", "resized", "other", "cropped", "flip_ac")))
    pg = draw(st.one_of(st.none(), related_grids(g, kinds=("own", "other", "cropped", "flip_ac")).map(lambda a: a[0])))
    qg = draw(st.one_of(st.none(), related_grids(g, kinds=("own", "other", "resized")).map(lambda a: a[0])))
    return {"D": D, "grid": g, "kind": tree["cls"], "members": tree["members"], "ctor": tree["ctor"],
            "rel": draw(rel_points(D, 2, 6)), "Nb": draw(st.sampled_from([1, N])), "form": draw(st.sampled_from(["set", "grid"])),
            "other": og, "other_kind": okind,
            "gsize": draw(st.lists(st.integers(2, 9 if D == 2 else 6), min_size=D, max_size=D)),
            "pgrid": pg, "paxes": draw(st.sampled_from(["world", "cube", "cube_corners", "grid", None])),
            "qgrid": qg, "qaxes": draw(st.sampled_from(["world", "cube", "cube_corners", "grid", None])),
            "via": draw(st.sampled_from(["points", "transformer"]))}


def _member_params(ts):
    """Parameter tensors (attribute `params`) of all parametric (sub-)transforms, in module order."""
    return [mod.params.detach() for t in ts for mod in t.modules() if isinstance(getattr(mod, "params", None), torch.Tensor)]


def check_forward_grid(t, r, wm: WorldMap, sizes, kind: str, what: str, dt=torch.float32):
    """t(x, grid=True), x = the undeformed sample points of grids that span the domain of the transform grid (any size), vs
    the reference map at those points.  grid=True only licenses a dense model to resize its field instead of sampling it:
    both are the same multilinear interpolant of the field samples, so the reference is the one used for t(x)."""
    m = wm.m
    N = r.N
    worst, ncomp = 0.0, 0
    for size in sizes:
        xg = cube_coords(tuple(size[::-1]), m.ac)
        yg = t(torch.tensor(xg[None], dtype=dt), grid=True)
        eg = np.stack([r.cube(xg, b) for b in range(N)])
        if tuple(yg.shape) != eg.shape:
            raise Violation(kind.replace("forward_grid", "forward_grid_shape"),
                            f"t(x{(1,) + xg.shape}, grid=True) has shape {tuple(yg.shape)}, expected {eg.shape}")
        ok = np.stack([r.valid(xg, b) for b in range(N)])
        sel = np.broadcast_to(ok[..., None], eg.shape)
        worst = max(worst, check_close(np.where(sel, yg.detach().double().numpy(), 0.0), np.where(sel, eg, 0.0),
                                       wm.cube_bound(xg) * r.leaves(), kind,
                                       f"{what}(x, grid=True) at the sample points of a same-domain grid of size {list(size)}"))
        ncomp += int(ok.sum())
    return worst, ncomp


def check_points_api(t, r, wm: WorldMap, case: dict, xc: np.ndarray, dt, tag: str, dense: bool, own=None):
    """t.points(x, grid, axes, to_grid, to_axes) / PointSetTransformer(t, ...)(x) vs the reference world map.
    `own` = descriptor of t.grid() (default of the `grid` argument) if it is not the grid of `wm`."""
    import deepali.spatial as S

    m = wm.m
    D = m.D
    ax = cax(m.ac)
    Nb = xc.shape[0]
    Ny = max(r.N, Nb)
    pg, qg = case.get("pgrid"), case.get("qgrid")
    mp = (m if own is None else ref.GridModel.from_desc(own)) if pg is None else ref.GridModel.from_desc(pg)
    mq = mp if qg is None else ref.GridModel.from_desc(qg)
    pa = case.get("paxes") or ax      # axes default: those of the transform
    qa = case.get("qaxes") or pa      # to_axes default: axes
    via = case.get("via", "points")
    xw_arr = m.points(xc, ax, "world")
    xin = torch.tensor(mp.points(xw_arr, "world", pa), dtype=dt)
    kw = {}
    if pg is not None:
        kw["grid"] = make_grid(pg)
    if qg is not None:
        kw["to_grid"] = make_grid(qg)
    if case.get("paxes") is not None:
        kw["axes"] = pa if via == "points" else _axes(pa)
    if case.get("qaxes") is not None:
        kw["to_axes"] = _axes(qa)
    if via == "points":
        out = t.points(xin, **kw)
    else:
        out = S.PointSetTransformer(t, **kw)(xin)
    xw_in = mp.points(xin.double().numpy(), pa, "world")
    yw = np.stack([wm.world(xw_in[b % Nb], b) for b in range(Ny)])
    expect_q = mq.points(yw, "world", qa)
    if tuple(out.shape) != expect_q.shape:
        raise Violation(f"points_shape:{tag}", f"{via} output shape {tuple(out.shape)}, expected {expect_q.shape}")
    Lq = mq.matrix("world", qa)[:, :D]
    pb = K * EPS32 * (float(np.abs(Lq).sum(1).max()) * (wm.cond(xw_in, yw) + mp.cond(pa, "world", xin.double().numpy())) + 1.0
                      + float(np.abs(expect_q).max())) * r.leaves()
    if dense:
        # float32 input re-expressed in the cube may fall just outside the sample hull: tolerance of 1e-6 cube units
        xcube = wm.to_cube(xw_in)
        ins = np.stack([r.valid(xcube[b % Nb] * (1.0 - 1e-6), b) for b in range(Ny)])
    else:
        ins = np.ones(expect_q.shape[:-1], dtype=bool)
    ins = np.broadcast_to(ins[..., None], expect_q.shape)
    kind = "points_api" if via == "points" else "pointset_transformer"
    pname = "own" if pg is None else pg["kind"]
    qname = "same" if qg is None else qg["kind"]
    ratio = check_close(np.where(ins, out.detach().double().numpy(), 0.0), np.where(ins, expect_q, 0.0), pb, f"{kind}:{tag}",
                        f"{via}(x; {pa}@{pname} -> {qa}@{qname}) vs reference world map")
    return ratio, f"{pa}->{qa}"


def run_composite(case):
    D, g = case["D"], case["grid"]
    grid = make_grid(g)
    m = ref.GridModel.from_desc(g)
    spec = {"cls": case["kind"], "members": case["members"], "ctor": case["ctor"]}
    comp, r = build_tree(spec, grid, g)
    ts = list(comp.transforms())
    refs = r.members
    nl = r.leaves()
    wm = WorldMap(r, m)
    N = r.N
    tag = case["kind"] + (":linear" if r.linear else ":nonrigid")
    names = spec_classes(spec)
    what = describe(spec)
    if comp.linear != r.linear:
        raise Violation("composite_linear_flag", f"{case['kind']}.linear = {comp.linear} for members {names}")
    before = [p.clone() for p in _member_params(ts)]
    xc = arrange(cube_points(m, case["rel"]), case["Nb"], case["form"])
    x = torch.tensor(xc, dtype=torch.float32)
    y = comp(x)
    Ny = max(N, case["Nb"])
    expect = np.stack([r.cube(xc[b % case["Nb"]], b) for b in range(Ny)])
    if tuple(y.shape) != expect.shape:
        raise Violation(f"forward_shape:{tag}", f"composite(x{tuple(x.shape)}) has shape {tuple(y.shape)}, expected {expect.shape}")
    # intermediate points of a sequence may leave the sample hull: compare where every dense member is evaluated inside it
    ok = np.stack([r.valid(xc[b % case["Nb"]], b) for b in range(Ny)])
    sel = np.broadcast_to(ok[..., None], expect.shape)
    order = "B(A(x))" if case["kind"] == "SequentialTransform" else "x + sum (T_i(x) - x)"
    worst = check_close(np.where(sel, y.detach().double().numpy(), 0.0), np.where(sel, expect, 0.0), wm.cube_bound(xc) * nl,
                        f"composite_forward:{tag}", f"{what}(x) vs {order}")
    # forward(x, grid=True): the flag says that x are undeformed grid points, it does not change the map
    rg, ngrid = check_forward_grid(comp, r, wm, (g["size"], case.get("gsize") or g["size"]), f"composite_forward_grid:{tag}", what)
    worst = max(worst, rg)
    T = comp.tensor()
    cg = tree_grid(spec, g)  # grid of the composite: the given one or that of its first member
    xs = cube_coords(tuple(cg["size"][::-1]), m.ac)
    oks = np.stack([r.valid(xs, b) for b in range(N)])
    want_d = np.stack([np.moveaxis(r.cube(xs, b) - xs, -1, 0) for b in range(N)])
    seld = np.broadcast_to(oks[:, None], want_d.shape)
    if r.linear:
        want = np.stack([r.matrix(b) for b in range(N)])
        if T.ndim != 3 or T.shape[1] != D or T.shape[2] not in (1, D, D + 1):
            raise Violation(f"tensor_shape:{tag}", f"tensor() has shape {tuple(T.shape)}")
        Tn = T.detach().double().numpy()
        full = np.broadcast_to(np.eye(D, D + 1), (T.shape[0], D, D + 1)).copy()
        if T.shape[2] == 1:
            full[:, :, D] = Tn[:, :, 0]
        else:
            full[:, :, : T.shape[2]] = Tn
        mb = K * EPS32 * (float(np.abs(want).max()) + 1.0) * D * nl * max(1.0, float(r.absjac().max()))
        worst = max(worst, check_close(full, np.broadcast_to(want, full.shape) if full.shape[0] == want.shape[0] else want, mb,
                                       f"composite_tensor:{tag}", f"tensor() of {what} vs reference matrix"))
    else:
        if tuple(T.shape) != want_d.shape:
            raise Violation(f"tensor_shape:{tag}", f"tensor() has shape {tuple(T.shape)}, expected {want_d.shape}")
        worst = max(worst, check_close(np.where(seld, T.detach().double().numpy(), 0.0), np.where(seld, want_d, 0.0), wm.cube_bound(xs) * nl,
                                       f"composite_tensor:{tag}", "tensor() of a non-rigid composite vs reference displacement at the sample points"))
    comp.update()
    d0 = comp.disp()
    if tuple(d0.shape) != want_d.shape:
        raise Violation(f"disp_shape:{tag}", f"disp() has shape {tuple(d0.shape)}, expected {want_d.shape}")
    worst = max(worst, check_close(np.where(seld, d0.detach().double().numpy(), 0.0), np.where(seld, want_d, 0.0), wm.cube_bound(xs) * nl,
                                   f"composite_disp:{tag}", f"disp() of {what} vs forward reference at the sample points"))
    # disp / flow on another grid (composites re-express the points and evaluate the members there)
    nother = 0
    if not (KNOWN.active("F21") and N > 1 and not r.linear):
        og = case["other"]
        okind = case["other_kind"]
        ogrid = make_grid(og)
        mo = ref.GridModel.from_desc(og)
        xw = mo.world_points()
        ao = cax(mo.ac)
        mask = np.stack([r.valid(wm.to_cube(xw), b) for b in range(N)])
        exp_w = np.stack([wm.world(xw, b) - xw for b in range(N)])
        Lo = mo.matrix("world", ao)[:, :D]
        exp_o = np.moveaxis(exp_w @ Lo.T, -1, 1)
        d = comp.disp(ogrid)
        if tuple(d.shape) != exp_o.shape:
            raise Violation(f"disp_shape:{tag}", f"disp(other grid) has shape {tuple(d.shape)}, expected {exp_o.shape}")
        bo = K * EPS32 * (float(np.abs(Lo).sum(1).max()) * wm.cond(xw, xw + exp_w) * nl + 1.0 + float(np.abs(exp_o).max()))
        selo = np.broadcast_to(mask[:, None], exp_o.shape)
        worst = max(worst, check_close(np.where(selo, d.detach().double().numpy(), 0.0), np.where(selo, exp_o, 0.0), bo,
                                       f"composite_disp_on_{okind}_grid:{tag}", f"disp({okind} grid, ac={og['ac']}) of {what} vs reference"))
        fl = comp.flow(ogrid)
        if fl.grid() != ogrid or fl.grid().align_corners() != ogrid.align_corners():
            raise Violation(f"flow_grid:{tag}", f"flow({okind} grid).grid() is not the requested grid")
        fa = fl.axes().value
        Lf = mo.matrix(fa, "world")[:, :D]
        fw = np.moveaxis(fl.tensor().detach().double().numpy(), 1, -1) @ Lf.T  # numbers read with the labelled axes
        bw = K * EPS32 * (wm.cond(xw, xw + exp_w) + float(np.abs(exp_w).max())) * nl
        selw = np.broadcast_to(mask[..., None], exp_w.shape)
        worst = max(worst, check_close(np.where(selw, fw, 0.0), np.where(selw, exp_w, 0.0), bw, f"composite_flow_on_{okind}_grid:{tag}",
                                       f"flow({okind} grid) of {what} read with its own axes label '{fa}' vs reference world displacement"))
        nother = int(mask.sum())
    after = _member_params(ts)
    if len(before) != len(after) or any(not torch.equal(a, b) for a, b in zip(before, after)):
        raise Violation(f"composite_mutates_member:{case['kind']}", "evaluating the composite changed a member's parameters/buffers")
    # points() / PointSetTransformer with generated (grid, axes) -> (to_grid, to_axes)
    conv = "none"
    if "via" in case:
        rp, conv = check_points_api(comp, r, wm, case, xc, torch.float32, tag, not r.linear, own=cg)
        worst = max(worst, rp)
    eff = r.effect()
    nt = nl >= 2 and eff >= 0.05 and int(ok.sum()) >= 2
    return {"ratio": worst, "nontrivial": nt,
            "labels": [tag, f"k={len(refs)}", f"leaves={nl}", f"D={D}", f"ac={g['ac']}", f"N={N}", f"ctor={case['ctor']}",
                       f"other={case['other_kind']}", f"dense_after_moving={dense_after_moving(r)}", f"grid_pts>0={ngrid > 0}",
                       f"other_pts>0={nother > 0}", f"via={case.get('via')}", conv,
                       f"nested={any(s['cls'] in COMPOSITES for s in case['members'])}",
                       f"mixedN={len({q.N for q in refs}) > 1}", f"own_size={cg['size'] == g['size']}",
                       f"levels={'gsize' in str(case['members'])}"] + names}


# ---------------------------------------------------------------------------------------
# facet 3b: GenericSpatialTransform == explicit composite

AFFINE_KEYS = {"A": ("affine", "homogeneous"), "K": ("shearing", "shear"), "T": ("translation", "translation"),
               "R": ("rotation", "euler"), "S": ("scaling", "aniso"), "Q": ("quaternion", "quaternion")}


NONRIGID_KEYS = {"DDF": DENSE[0], "SVF": DENSE[1], "FFD": DENSE[2], "SVFFD": DENSE[3]}


@st.composite
def generic_specs(draw, g: dict, force_ac=False, short=False):
    """Configuration + parameter values of a GenericSpatialTransform on grid descriptor `g` (B-spline components need
    align_corners=True: with force_ac the descriptor is changed, otherwise they are only drawn for such grids)."""
    D = len(g["size"])
    letters = draw(st.permutations(["T", "R", "S", "K", "A"] + (["Q"] if D == 3 else [])))
    k = draw(st.integers(1, 2 if short else 4))
    letters = list(letters[:k])
    sep = draw(st.sampled_from(["", " o "]))
    choices = [None, "DDF", "SVF"] + (["FFD", "SVFFD"] if (g["ac"] or force_ac) else [])
    nonrigid = draw(st.sampled_from(choices))
    affine = draw(st.booleans()) or nonrigid is None
    if nonrigid in ("FFD", "SVFFD"):
        g["ac"] = True
    first = draw(st.booleans())
    comps = (["Affine"] if affine else []) + ([nonrigid] if nonrigid else [])
    if not first:
        comps = comps[::-1]
    spec = {"cls": "GenericSpatialTransform", "affine_model": sep.join(letters), "transform": " o ".join(comps),
            "rotation_model": draw(st.sampled_from(["ZXZ", "XZX", "XYZ", "ZYX", "YXZ"])),
            "route": draw(st.sampled_from(["setters", "dict"])),
            "values": {L: draw(elem_values(AFFINE_KEYS[L][1], D)) for L in letters} if affine else {}}
    if nonrigid:
        nr = draw(dense_specs(g, 1, classes=[NONRIGID_KEYS[nonrigid]]))
        nr["route"] = "data_"
        nr.pop("dstride", None)  # not configurable through TransformConfig
        nr.pop("resize", None)
        if "stride" in nr:
            sd = draw(st.integers(1, 3))
            nr["stride"] = [sd] * D
            nr["transpose"] = False
        if nr["field"] == "velocity":
            nr["scale"] = None
        spec["nonrigid"] = nr
    return spec


@st.composite
def generic_cases(draw):
    D = draw(gen.dims())
    g = draw(tgrids(D, 3, 9 if D == 2 else 6))
    spec = draw(generic_specs(g, force_ac=True))
    case = {"D": D, "grid": g, "rel": draw(rel_points(D, 2, 6)),
            "gsize": draw(st.lists(st.integers(2, 9 if D == 2 else 6), min_size=D, max_size=D))}
    case.update({k: v for k, v in spec.items() if k != "cls"})
    return case


def build_generic(case: dict, grid, g: dict):
    """-> (GenericSpatialTransform, SeqRef of its members in order of application, list of member references)."""
    import deepali.spatial as S
    from deepali.spatial.generic import TransformConfig

    D = len(g["size"])
    if KNOWN.active("F23") and case["route"] == "dict":
        raise Skip("excluded_known F23")
    cfgkw = dict(transform=case["transform"], affine_model=case["affine_model"], rotation_model=case["rotation_model"])
    nr = case.get("nonrigid")
    dense_ref, praw = None, None
    if nr is not None:
        params, fields, extra, kw = dense_fields(nr, g)
        praw = torch.tensor(params, dtype=torch.float32)
        if "stride" in kw:
            cfgkw["control_point_spacing"] = int(kw["stride"][0])
        if "steps" in kw:
            cfgkw["scaling_and_squaring_steps"] = int(kw["steps"])
        if nr["field"] == "noise":
            p64 = praw.double().numpy()
            fields = ffd_field(p64, tuple(g["size"][::-1]), nr["stride"]) if nr["cls"] in DENSE[2:] else p64
        dense_ref = DenseRef(fields, g["ac"], extra=extra + 4 * EPS32 * float(np.abs(fields).max()))
    config = TransformConfig(**cfgkw)
    letters = [c for c in case["affine_model"].replace(" o ", "")] if "Affine" in case["transform"].split(" o ") else []
    affine_refs = []  # in order of application: right-most letter first
    for L in reversed(letters):
        name, kind = AFFINE_KEYS[L]
        order = case["rotation_model"] if kind == "euler" else None
        affine_refs.append((name, kind, LinRef([elem_matrix(kind, case["values"][L], D, order)])))
    if case["route"] == "dict":
        pd = {}
        for name, kind, _ in affine_refs:
            L = [k for k, v in AFFINE_KEYS.items() if v[0] == name][0]
            x = _t32([case["values"][L]])
            if kind == "homogeneous":
                x = x.reshape(1, D, D + 1)
            pd[name] = x
        if nr is not None:
            pd["nonrigid"] = praw
        t = S.GenericSpatialTransform(grid, params=pd, config=config)
    else:
        t = S.GenericSpatialTransform(grid, params=True, config=config)
        for name, kind, _ in affine_refs:
            L = [k for k, v in AFFINE_KEYS.items() if v[0] == name][0]
            _set_elem(t[name], kind, [case["values"][L]], D)
        if nr is not None:
            t["nonrigid"].data_(praw)
    if nr is not None and nr["field"] == "velocity":
        sub = t["nonrigid"]
        if sub.exp.steps != cfgkw.get("scaling_and_squaring_steps", sub.exp.steps) and nr["cls"] == DENSE[1]:
            raise Violation("generic_svf_steps", f"SVF component has {sub.exp.steps} steps, config says {cfgkw['scaling_and_squaring_steps']}")
        if sub.exp.steps != kw["steps"]:
            # SVFFD: steps are not configurable through TransformConfig; recompute the closed form with the actual number
            nr2 = dict(nr, steps=int(sub.exp.steps))
            _, fields, extra, kw2 = dense_fields(nr2, g)
            if kw2["steps"] != sub.exp.steps:
                raise Skip("default steps below the minimum for an invariant closed form")
            dense_ref = DenseRef(fields, g["ac"], extra=extra + 4 * EPS32 * float(np.abs(fields).max()))
    comps = case["transform"].split(" o ")
    refs = []
    for c in reversed(comps):  # right-most component is applied first
        if c == "Affine":
            refs.extend(a[2] for a in affine_refs)
        else:
            refs.append(dense_ref)
    names = [n for n, _ in t.named_transforms()]
    want_names = []
    for c in reversed(comps):
        want_names.extend([a[0] for a in affine_refs] if c == "Affine" else ["nonrigid"])
    if names != want_names:
        raise Violation("generic_member_order", f"members {names} for transform='{case['transform']}' affine_model='{case['affine_model']}', expected {want_names}")
    return t, SeqRef(refs), refs


def run_generic(case):
    D, g = case["D"], case["grid"]
    grid = make_grid(g)
    m = ref.GridModel.from_desc(g)
    t, r, refs = build_generic(case, grid, g)
    wm = WorldMap(r, m)
    xc = cube_points(m, case["rel"])[None]
    y = t(torch.tensor(xc, dtype=torch.float32))
    expect = r.cube(xc, 0)
    ok = np.ones(expect.shape[:-1], dtype=bool)
    p = xc
    for mr in refs:
        if not mr.linear:
            ok &= np.all(np.abs(p) <= (1.0 if m.ac else 1.0 - 1.0 / m.n), axis=-1)
        p = mr.cube(p, 0)
    sel = np.broadcast_to(ok[..., None], expect.shape)
    worst = check_close(np.where(sel, y.detach().double().numpy(), 0.0), np.where(sel, expect, 0.0), wm.cube_bound(xc) * len(refs),
                        "generic_forward", f"GenericSpatialTransform(transform='{case['transform']}', affine_model='{case['affine_model']}', "
                                           f"rotation_model='{case['rotation_model']}', route={case['route']}) vs explicit composite")
    xw = m.points(xc, cax(m.ac), "world")
    yw = t.points(torch.tensor(xw, dtype=torch.float32), axes="world")
    ew = wm.world(xw, 0)
    selw = np.broadcast_to(ok[..., None], ew.shape)
    check_close(np.where(selw, yw.detach().double().numpy(), 0.0), np.where(selw, ew, 0.0), K * EPS32 * wm.cond(xw, ew) * len(refs),
                "generic_world_points", "GenericSpatialTransform.points(axes=WORLD) vs reference world map")
    # grid=True (what ImageTransformer passes for targets spanning the transform domain) and the dense view of the configuration
    what = f"GenericSpatialTransform(transform='{case['transform']}', affine_model='{case['affine_model']}')"
    rg, ngrid = check_forward_grid(t, r, wm, (g["size"], case.get("gsize") or g["size"]), "generic_forward_grid", what)
    worst = max(worst, rg)
    t.update()
    d0 = t.disp()
    xs = cube_coords(tuple(g["size"][::-1]), m.ac)
    want_d = np.moveaxis(r.cube(xs, 0) - xs, -1, 0)[None]
    if tuple(d0.shape) != want_d.shape:
        raise Violation("generic_disp_shape", f"disp() has shape {tuple(d0.shape)}, expected {want_d.shape}")
    seld = np.broadcast_to(r.valid(xs, 0)[None, None], want_d.shape)
    worst = max(worst, check_close(np.where(seld, d0.detach().double().numpy(), 0.0), np.where(seld, want_d, 0.0),
                                   wm.cube_bound(xs) * len(refs), "generic_disp", f"{what}.disp() vs reference at the sample points"))
    return {"ratio": worst, "nontrivial": len(refs) >= 2 and int(ok.sum()) >= 1,
            "labels": [f"transform={case['transform']}", f"route={case['route']}", f"D={D}", f"k={len(refs)}", f"ac={g['ac']}",
                       f"dense_after_moving={dense_after_moving(r)}", f"grid_pts>0={ngrid > 0}"]}


# ---------------------------------------------------------------------------------------
# facet 4: warping


@st.composite
def warp_cases(draw):
    D = draw(gen.dims())
    g = draw(tgrids(D, 3, 9 if D == 2 else 6))
    N = draw(st.sampled_from([1, 1, 2]))
    shape = draw(st.sampled_from(["tree", "tree", "tree", "tree", "generic", "generic", "dense", "dense", "linear"]))
    if shape == "dense":
        spec = draw(dense_specs(g, N))
    elif shape == "linear":
        spec = draw(linear_specs(D, N))
    elif shape == "tree":
        spec = draw(tree_specs(g, N, dense_p=draw(st.sampled_from([0.7, 0.5, 0.7, 0.0])), depth=1, kmin=2, kmax=3))
    else:
        N = 1
        spec = draw(generic_specs(g))
    kinds = ("own", "resized", "resized", "cropped", "other", "other", "flip_ac")
    tg, tkind = draw(related_grids(g, kinds=kinds, max_size=9 if D == 2 else 6))
    # source grid: unrelated orientation, covering the transform domain with a margin
    d = draw(gen.directions(D))
    ssize = draw(st.lists(st.integers(4, 14 if D == 2 else 8), min_size=D, max_size=D))
    cover = draw(gen.qfloat(1.2, 2.5, 0.1))
    ext = [s * n for s, n in zip(g["spacing"], g["size"])]
    diam = math.sqrt(sum(e * e for e in ext))
    off = draw(st.lists(gen.qfloat(-0.1, 0.1, 0.05), min_size=D, max_size=D))
    src = {"size": ssize, "spacing": [round(cover * diam / (n - 1), 6) for n in ssize],
           "center": [round(c + o * diam, 4) for c, o in zip(g["center"], off)], "rot": d["rot"], "perm": d["perm"], "flip": d["flip"],
           "kind": d["kind"], "ac": draw(st.booleans())}
    return {"D": D, "grid": g, "t": spec, "shape": shape, "target": tg, "target_kind": tkind, "source": src,
            "same_source": draw(st.integers(0, 5)) == 0,
            "ramp": draw(_vals(-5.0, 5.0, D, 0.1)), "offset": draw(gen.qfloat(-50.0, 50.0, 1.0)),
            # flip_coords is only applied to linear transforms, align_centers only to targets centred on the transform grid
            "flip_coords": draw(st.integers(0, 3)) == 0, "align_centers": draw(st.integers(0, 5)) == 0,
            "NI": draw(st.sampled_from([1, N])),
            "target_arg": draw(st.sampled_from(["explicit", "explicit", "explicit", "default"]))}


def run_warp(case):
    import deepali.spatial as S

    D, g, spec = case["D"], case["grid"], case["t"]
    tkind = case["target_kind"]
    tg = case["target"]
    if case["target_arg"] == "default":
        tg, tkind = tree_grid(spec, g), "own"
    grid = make_grid(g)
    m = ref.GridModel.from_desc(g)
    t, r = build_any(spec, grid, g)
    dense = not r.linear
    flip = bool(case["flip_coords"]) and r.linear
    # both readings of "align the target and source centers" (output grid / grid of the transform) coincide for these targets
    centers = bool(case.get("align_centers")) and tkind in ("own", "resized", "flip_ac")
    if KNOWN.active("F22") and dense and tkind in ("cropped", "other"):
        raise Skip("excluded_known F22")
    if KNOWN.active("N06-4") and flip and tkind in ("cropped", "other"):
        raise Skip("excluded_known N06-4")
    if flip:
        r = FlipRef(r)
    wm = WorldMap(r, m)
    N = r.N
    nl = r.leaves()
    sg = tg if case["same_source"] else case["source"]
    target, source = make_grid(tg), make_grid(sg)
    mt, ms = ref.GridModel.from_desc(tg), ref.GridModel.from_desc(sg)
    # where the samples of the image are taken to be: with align_centers the source centre is put on the centre of the transform grid
    ms_at = ref.GridModel.from_desc(dict(sg, center=[float(v) for v in m.c])) if centers else ms
    # image: ramp in the index space of the source grid
    gvec = np.asarray(case["ramp"], dtype=np.float64)
    idx = ms.index_points()
    NI = case["NI"]
    img = np.stack([(idx @ gvec + case["offset"]) * (1.0 + 0.5 * b) for b in range(NI)])[:, None]
    data = torch.tensor(img, dtype=torch.float32)
    kw = {}
    if case["target_arg"] == "explicit":
        kw["target"] = target
    if not (case["same_source"] and case["target_arg"] == "default"):
        kw["source"] = source
    if flip:
        kw["flip_coords"] = True
    if centers:
        kw["align_centers"] = True
    tr = S.ImageTransformer(t, **kw)
    out = tr(data)
    No = max(N, NI)
    want_shape = (No, 1) + tuple(tg["size"][::-1])
    if tuple(out.shape) != want_shape:
        raise Violation("warp_shape", f"ImageTransformer output shape {tuple(out.shape)}, expected {want_shape}")
    xw = mt.world_points()
    xcube = wm.to_cube(xw)
    tag = ("nonrigid" if dense else "linear") + ("_flip" if flip else "") + ("_centers" if centers else "")
    names = spec_classes(spec)
    worst, ncomp = 0.0, 0
    gmax = float(np.abs(gvec).max())
    for b in range(No):
        yw = wm.world(xw, b)
        si = ms_at.points(yw, "world", "grid")
        mask = np.all((si >= 0.02) & (si <= ms.n - 1.02), axis=-1)
        # dense (sub-)members only inside the hull of their samples, for every stage of a sequence
        mask &= r.valid(xcube, b)
        if not mask.any():
            continue
        scale = 1.0 + 0.5 * (b % NI)
        expect = (si @ gvec + case["offset"]) * scale
        Ls = ms.matrix("world", "grid")[:, :D]
        icond = float(np.abs(Ls).sum(1).max()) * wm.cond(xw, yw) * nl + ms_at.cond("world", "grid", yw)
        bound = K * EPS32 * (gmax * scale * D * icond + float(np.abs(img).max()))
        o = out[b, 0].detach().double().numpy()
        worst = max(worst, check_close(np.where(mask, o, 0.0), np.where(mask, expect, 0.0), bound, f"warp_{tkind}_target:{tag}",
                                       f"ImageTransformer({describe(spec)}, target={tkind} ac={tg['ac']}, source {'= target' if case['same_source'] else 'other'}"
                                       f" ac={sg['ac']}, flip_coords={flip}, align_centers={centers}) vs I(T(x)), item {b}"))
        ncomp += int(mask.sum())
    if ncomp == 0:
        raise Skip("no target sample maps into the source field of view")
    eff = r.effect()
    nt = eff >= 0.05 and gmax >= 0.5 and ncomp >= 4 and tkind != "own"
    top = spec["cls"] if spec["cls"] in COMPOSITES or spec["cls"] == "GenericSpatialTransform" else "leaf"
    return {"ratio": worst, "nontrivial": nt,
            "labels": [f"top={top}", "nonrigid" if dense else "linear", f"leaves={nl}", f"target={tkind}", f"D={D}", f"ac={g['ac']}",
                       f"target_ac={tg['ac']}", f"source_ac={sg['ac']}", f"N={N}", f"flip={flip}", f"centers={centers}",
                       f"same_source={case['same_source']}", f"dense_after_moving={dense_after_moving(r)}",
                       f"levels={'gsize' in str(spec)}"] + names}


# ---------------------------------------------------------------------------------------
# facet 5: the object under test is the result of a history of public calls
#
# C06 speaks about one transform object, whatever sequence of public operations produced it.  A history is a list of
# operations interpreted here against (a) the deepali object and (b) a symbolic state (HSym) from which the reference is
# built: the grid last set, the parameter *values* last set (never read back from deepali), the invert flag, how the
# parameters are held, and whether the documented contract requires an update()/functor call before views that do not run
# the update() pre-hook may be read ("stale": parameters edited in place, inverse(update_buffers=False), link).

K5_ACTIVE = Known("C09").active("K5")
INVERTIBLE = list(ELEMENTARY) + [DENSE[1], DENSE[3]]
SETTABLE = ("param", "buffer", "attr")
HOOK_VIEWS = ("call", "transformer")
FREE_VIEWS = ("tensor", "disp", "disp_other", "points", "forward", "sequential", "multilevel")


class HSym:
    """Symbolic state of the transform under test; `step` is used by the generator (availability of operations) and by
    the interpreter (what the reference has to describe), so both follow the same rules."""

    def __init__(self, cls: str, g: dict, N: int, pk: str):
        self.cls, self.dense = cls, cls in DENSE
        self.g, self.N, self.pk = g, N, pk
        self.inv = False
        self.known = True           # parameter values known to the model
        self.pnone = False          # params is None (after unlink): nothing may be evaluated
        # a linear model with callable parameters holds uninitialised 'p' until update() has run
        self.stale = pk == "callable" and not self.dense
        self.key = 0
        self.dtype = "float32"      # dtype of the module (Module.to converts parameters and buffers, e.g. B-spline kernels)

    def available(self):
        if self.pnone:
            return ["data_", "data"]
        ops = ["eval", "copy", "deepcopy", "mode", "clear", "condition_", "condition"]
        if self.pk == "callable":
            ops += ["condition_", "condition", "condition_"]
        if self.pk in ("param", "buffer", "linked"):
            # Module.to() does not convert a plain tensor attribute or the output of a callable; mixing dtypes is a usage error
            ops += ["to"]
        if self.pk in SETTABLE:
            ops += ["data_", "data_", "data", "data", "data", "reset", "reset", "inplace", "unlink"]
            if self.pk != "attr" and not self.inv:
                ops += ["load", "load", "roundtrip", "roundtrip"]
            ops += ["grid_", "grid", "grid"] + (["grid", "grid"] if self.dense else [])
        else:
            ops += ["data", "data"]
            if not self.dense:
                ops += ["grid_", "grid"]
            if self.pk == "linked":
                ops += ["unlink"]
        ops += ["link", "link"]
        if self.cls in INVERTIBLE:
            ops += ["inverse"] * (5 if self.dense else 3)
        return ops

    def step(self, op: dict):
        """State of the followed object after `op` (the parameter values themselves are tracked by the interpreter)."""
        o = op["op"]
        follow_copy = op.get("follow", "copy") == "copy"
        if o == "eval":
            if op["how"] in ("call", "update"):
                self.stale = False
        elif o == "data_":
            self.pk = "attr" if self.pk == "none" else self.pk
            self.N, self.known, self.pnone, self.stale = op["p"]["N"], True, False, False
        elif o == "data":
            if follow_copy:
                self.pk = self.pk if self.pk in ("param", "buffer") else "attr"
                self.N, self.known, self.pnone, self.stale = op["p"]["N"], True, False, False
        elif o in ("grid_", "grid"):
            if o == "grid_" or follow_copy:
                self.g = op["g"]
                if self.dense:
                    self.known, self.stale = False, False  # parameters are resampled: not modelled, set again before the end
        elif o in ("condition_", "condition"):
            if (o == "condition_" or follow_copy) and self.pk == "callable":
                self.key = op["key"]
                if not self.dense and K5_ACTIVE:
                    self.stale = True
        elif o in ("link", "unlink", "inverse") and not follow_copy:
            pass
        elif o == "link":
            self.pk, self.N, self.known, self.stale = "linked", op["p"]["N"], True, True
        elif o == "unlink":
            self.pk, self.known, self.pnone = "none", False, True
        elif o == "inverse":
            self.inv = not self.inv
            if op["link"]:
                self.pk = "linked"
            if self.dense and not op["ub"]:
                self.stale = True
        elif o == "reset":
            self.known, self.stale = True, False
        elif o in ("inplace", "load"):
            self.known, self.stale = True, True
        elif o == "roundtrip":
            self.stale, self.dtype = False, "float32"
        elif o == "to":
            self.dtype = op["dtype"]
        # copy / deepcopy / mode / to / clear: no change


def _identity_rows(kind: str, D: int, N: int):
    na = 1 if D == 2 else 3
    row = {"translation": [0.0] * D, "euler": [0.0] * na, "shear": [0.0] * na, "quaternion": [1.0, 0.0, 0.0, 0.0], "iso": [1.0],
           "aniso": [1.0] * D, "homogeneous": [float(v) for v in np.eye(D, D + 1).reshape(-1)]}[kind]
    return [list(row) for _ in range(N)]


@st.composite
def _pspec(draw, sym: HSym, base: dict, N=None):
    """Parameter values for the class of `sym` on its current grid (constructor options are those of the object)."""
    D = len(sym.g["size"])
    N = sym.N if N is None else N
    if not sym.dense:
        kind = ELEMENTARY[sym.cls]
        return {"N": N, "rows": [draw(elem_values(kind, D)) for _ in range(N)]}
    sp = draw(dense_specs(sym.g, N, classes=[sym.cls]))
    for k in ("route", "dstride", "resize"):
        sp.pop(k, None)
    for k in ("stride", "transpose", "scale", "dstride", "resize"):
        if k in base:
            sp[k] = base[k]
    return sp


def _sub_grid(g: dict, dims) -> dict:
    """Same domain, 2n - 1 samples along the chosen dimensions (subdivision of a B-spline control point grid)."""
    size = [2 * n - 1 if d else n for n, d in zip(g["size"], dims)]
    return dict(resized_grid(dict(g, ac=True), size), kind=g.get("kind", "resized"))


@st.composite
def history_cases(draw):
    # Structural choices (class, operations, which object is followed, ...) are made by hashing *all* integers drawn so far:
    # Hypothesis builds most examples of a run by mutating earlier ones (about 40 distinct values of a drawn integer in 200
    # examples), which leaves whole classes / operations unvisited in runs of a few hundred examples.  With the running hash
    # every mutated draw changes all later choices, so structures are visited evenly; a case stays a function of the drawn data.
    import hashlib

    state = [b"C06-history" + b"".join(v.to_bytes(4, "little") for v in draw(st.lists(st.integers(0, 2 ** 32 - 1), min_size=8, max_size=8)))]

    def pick(seq):
        seq = list(seq)
        state[0] = hashlib.blake2b(state[0] + draw(st.integers(0, 2 ** 32 - 1)).to_bytes(4, "little"), digest_size=8).digest()
        return seq[int.from_bytes(state[0], "little") % len(seq)]

    D = pick([2, 3])
    dense = pick([False, True, True])
    hi = (9 if D == 2 else 6) if dense else 12
    g = draw(tgrids(D, 3 if dense else 2, hi))
    N = pick([1, 1, 2])
    init = pick(["param", "param", "buffer", "callable"])
    if dense:
        dcls = pick(DENSE)
        if dcls in DENSE[2:]:
            g["ac"] = True
        t0 = draw(dense_specs(g, N, classes=[dcls]))
        t0.pop("route")
        if t0["cls"] in DENSE[2:]:
            t0["stride"] = [min(s, 2) for s in t0["stride"]]
        cls = t0["cls"]
    else:
        names = [n for n in ELEMENTARY if D == 3 or "Quaternion" not in n] + ["HomogeneousTransform"]  # has the matrix(arg) with-er
        cls = pick(names)
        t0 = {"cls": cls}
        if cls == "EulerRotation" and D == 3:
            order = pick(ORDERS)
            if order is not None:
                t0["order"] = order
    sym = HSym(cls, g, N, init)
    specs = []  # every dense parameter spec of the history (number of squaring steps is made common below)

    def pspec(N=None, grid=None):
        keep = sym.g
        if grid is not None:
            sym.g = grid
        sp = draw(_pspec(sym, t0, N))
        sym.g = keep
        if dense:
            specs.append((sp, grid or sym.g))
        return sp

    if dense:
        specs.append((t0, g))
        table = [t0] + [pspec() for _ in range(1 if init == "callable" else 0)]
    else:
        table = [pspec() for _ in range(2 if init == "callable" else 1)]
    ops = []

    def new_grid():
        if not dense:
            return draw(tgrids(D, 2, 12))
        if cls in DENSE[2:]:
            dims = draw(st.lists(st.booleans(), min_size=D, max_size=D))
            if max(2 * n - 1 if d else n for n, d in zip(sym.g["size"], dims)) > (11 if D == 2 else 7):
                dims = [False] * D
            return _sub_grid(sym.g, dims)
        # the other sampling convention for the same samples, or any other grid
        g2 = dict(sym.g, ac=not sym.g["ac"]) if pick([True, True, False]) else draw(tgrids(D, 4 if "dstride" in t0 else 3, hi))
        if cls == DENSE[1] and t0.get("resize"):
            g2["ac"] = True  # see dense_specs: no closed form for a resized velocity field whose lattice is not corner aligned
        if min(vf_shape(tuple(g2["size"][::-1]), t0.get("dstride"))) < 2:
            g2 = dict(g2, size=[max(n, 4) for n in g2["size"]])
        return g2

    def pokes(own_params: bool, on_grid=None, settable=None):
        """What is done to the object that is *not* followed after a fork (it must not influence the followed one)."""
        settable = sym.pk in SETTABLE if settable is None else settable
        names = ["update", "call", "clear"] + (["data_", "data_"] if own_params and settable else [])
        ps = [pick(names) for _ in range(pick([0, 1, 1, 2]))]
        out = {"poke": ps}
        if "data_" in ps:
            out["p2"] = pspec(grid=on_grid)
        return out

    def add(op):
        ops.append(op)
        sym.step(op)

    def draw_op(name, closing=False):
        op = {"op": name}
        if name == "eval":
            op["how"] = pick(HOOK_VIEWS[:1] + ("update",) if sym.stale else
                                             ("call", "update", "disp", "tensor", "disp_other", "points", "flow"))
        elif name in ("data_", "inplace", "load"):
            op["p"] = pspec(N=pick([sym.N, sym.N, 1, 2]) if name == "data_" else None)
            if name == "data_" and not dense:
                op["via"] = pick(["data_", "setter"] + (["matrix"] if cls == "HomogeneousTransform" else []))
            if name == "load":
                op["dk"] = pick(["param", "buffer"])  # how the object whose state is loaded holds its parameters
        elif name == "data":
            op["p"] = pspec(N=pick([sym.N, sym.N, 1, 2]))
            op["follow"] = "copy" if (sym.pnone or not sym.known) else pick(["copy", "orig"])
            if cls == "HomogeneousTransform" and sym.pk in SETTABLE and pick([False, True]):
                op["via"] = "matrix"
            op.update(pokes(True) if not sym.pnone else {"poke": []})
        elif name in ("copy", "deepcopy"):
            op["follow"] = pick(["copy", "orig"])
            op.update(pokes(name == "deepcopy"))
        elif name in ("grid_", "grid"):
            op["g"] = new_grid()
            if name == "grid":
                op["follow"] = pick(["copy", "orig"])
                # the copy lives on the new grid, the original on the old one
                op.update(pokes(True, on_grid=op["g"] if op["follow"] == "orig" else None))
        elif name in ("condition_", "condition"):
            op["key"] = pick([1 - sym.key, 1 - sym.key, sym.key]) if init == "callable" else draw(st.integers(0, 3))
            op["kw"] = pick([False, True])
            if name == "condition":
                op["follow"] = pick(["copy", "orig"])
                op.update(pokes(False))
        elif name == "link":
            op["p"] = pspec()
            op["opk"] = pick(["param", "buffer"])
            op["follow"] = pick(["copy", "copy", "orig"])
            op.update(pokes(False))
        elif name == "unlink":
            op["inplace"] = pick([False, False, True])
            if not op["inplace"]:
                op["follow"] = pick(["copy", "orig"])
                # the copy without parameters can be given its own
                op.update(pokes(True, settable=True) if op["follow"] == "orig" else pokes(False))
        elif name == "inverse":
            op["link"] = pick([False, True]) and sym.pk in SETTABLE
            op["ub"] = pick([True, True, False])
            op["follow"] = "copy" if closing else pick(["copy", "copy", "copy", "orig"])
            op.update(pokes(False))
        elif name == "mode":
            op["train"] = pick([False, True])
        elif name == "to":
            op["dtype"] = pick(["float64", "float32"])
        return op

    n = pick(range(1, 8))
    for i in range(n):
        if i == n - 1 and not sym.pnone and pick([False, True]):
            # buffers exist when the last operation is applied
            add(draw_op("eval"))
        pool = sym.available()
        if i == n - 1 and draw(st.integers(0, 2)) > 0:
            # the operations whose contract is that the object describes the new state right away
            last = [o for o in pool if o in ("data_", "data", "reset", "inverse") or (o.startswith("condition") and sym.pk == "callable")]
            pool = last or pool
        name = pick(pool)
        add(draw_op(name))
        if name == "inverse" and sym.inv and pick([False, True]):
            add(draw_op("inverse", closing=True))  # ... and straight back
    # complete the history: parameters must be known to the model and the object must not be the inverse
    if sym.pnone or not sym.known:
        add(draw_op(pick(["data_", "data"] if (sym.pnone or sym.pk in SETTABLE) else ["data"])))
    if sym.inv:
        add(draw_op("inverse", closing=True))
        if pick([False, True]):
            add(draw_op("eval"))
    if dense and t0["field"] == "velocity":
        steps = 0
        for sp, gg in specs:
            if sp["field"] == "velocity":
                steps = max(steps, dense_fields(sp, gg)[3]["steps"])
        for sp, _ in specs:
            if sp["field"] == "velocity":
                sp["steps"] = steps
    gf = sym.g
    og, okind = draw(related_grids(gf))
    pg = draw(st.one_of(st.none(), related_grids(gf, kinds=("own", "other", "cropped", "flip_ac")).map(lambda a: a[0])))
    qg = draw(st.one_of(st.none(), related_grids(gf, kinds=("own", "other", "resized")).map(lambda a: a[0])))
    return {"D": D, "grid": g, "dense": dense, "t": dict(t0, N=N) if dense else dict(t0, N=N), "init": init, "table": table, "ops": ops,
            "first": pick(HOOK_VIEWS if sym.stale else FREE_VIEWS + FREE_VIEWS + HOOK_VIEWS),
            "rel": draw(rel_points(D, 2, 6)), "Nb": pick([1, sym.N]),
            "form": pick(["set", "grid"]), "dtype": pick(["float32", "float32", "float64"]),
            "other": og, "other_kind": okind,
            "pgrid": pg, "paxes": pick(["world", "cube", "cube_corners", "grid", None]),
            "qgrid": qg, "qaxes": pick(["world", "cube", "cube_corners", "grid", None]),
            "via": pick(["points", "transformer"]),
            "gsize": draw(st.lists(st.integers(2, 9 if D == 2 else 6), min_size=D, max_size=D))}


def _module_cycle(root) -> bool:
    """Is some module reachable from `root` its own descendant? (depth-first search with the current path)"""
    path, done = set(), set()

    def visit(m) -> bool:
        if id(m) in path:
            return True
        if id(m) in done:
            return False
        path.add(id(m))
        found = any(visit(c) for c in m._modules.values() if c is not None)
        path.discard(id(m))
        done.add(id(m))
        return found

    return visit(root)


class History:
    """Interpreter of a generated history: performs the public calls on the deepali object and tracks the model."""

    def __init__(self, case: dict):
        import deepali.spatial as S

        self.case = case
        self.t0 = case["t"]
        self.cls = self.t0["cls"]
        self.C = getattr(S, self.cls)
        self.dense = self.cls in DENSE
        self.D = case["D"]
        self.sym = HSym(self.cls, case["grid"], self.t0["N"], case["init"])
        self.table = case["table"]
        self.ps = self.table[0]         # parameter values the object currently holds (model)
        self.kw = {}
        if self.dense:
            self.kw = dict(dense_fields(self.t0, case["grid"])[3])
        elif "order" in self.t0:
            self.kw = {"order": self.t0["order"]}
        self.x0 = torch.zeros((1, 1, self.D))
        self.done = []

    # -- parameter tensors ------------------------------------------------------------------
    def raw(self, ps: dict, g: dict, hp: bool):
        """Parameter tensor holding the values `ps` for an object on `g` whose has_parameters() is `hp` (linear models store
        activations of optimisable angles / scales: the public setter of a twin object does that conversion)."""
        dt = tdtype(self.sym.dtype)
        if self.dense:
            return dense_param_ref(dict(ps, cls=self.cls), g)[0].to(dt)
        twin = self.C(make_grid(g), groups=ps["N"], params=bool(hp), **self.kw)
        _set_elem(twin, ELEMENTARY[self.cls], ps["rows"], self.D)
        return twin.data().detach().clone().to(dt)

    def ref(self, ps: dict, g: dict):
        if self.dense:
            return dense_param_ref(dict(ps, cls=self.cls), g)[1]
        return LinRef([elem_matrix(ELEMENTARY[self.cls], row, self.D, self.t0.get("order")) for row in ps["rows"]])

    def fresh(self, g: dict, N: int, params):
        return self.C(make_grid(g), groups=N, params=params, **self.kw)

    def holder(self, ps: dict, g: dict, pk: str):
        """New object of the class holding `ps` as optimisable parameter or as plain tensor."""
        if pk == "param":
            t = self.fresh(g, ps["N"], True)
            if self.dense:
                t.data_(self.raw(ps, g, True))
            else:
                _set_elem(t, ELEMENTARY[self.cls], ps["rows"], self.D)
            return t
        return self.fresh(g, None, self.raw(ps, g, False))

    def start(self):
        g, init = self.case["grid"], self.case["init"]
        if init == "callable":
            tensors = [self.raw(ps, g, False) for ps in self.table]

            def predict(key=0):
                return tensors[key]

            return self.fresh(g, self.t0["N"], predict)
        return self.holder(self.ps, g, init)

    # -- operations ---------------------------------------------------------------------------
    def poke(self, b, op: dict, g: dict):
        """Use the object that is not followed; whatever happens to it must not change the followed one."""
        for name in op.get("poke", ()):
            if name == "clear":
                b.clear_buffers()
            elif getattr(b, "params", None) is None:
                continue
            elif name == "update":
                b.update()
            elif name == "call":
                b(self.x0)
            elif name == "data_":
                b.data_(self.raw(op["p2"], g, b.has_parameters()))

    def evaluate(self, t, how: str):
        sym = self.sym
        if sym.pnone or (sym.stale and how not in ("call", "update")):
            return
        if how == "call":
            t(self.x0)
        elif how == "update":
            t.update()
        elif how == "disp":
            t.disp()
        elif how == "tensor":
            t.tensor()
        elif how == "disp_other":
            t.disp(make_grid(dict(sym.g, ac=not sym.g["ac"])))
        elif how == "points":
            t.points(self.x0, axes="world")
        elif how == "flow":
            t.flow()

    def apply(self, t, op: dict):
        import copy as _copy

        import deepali.spatial as S

        sym = self.sym
        o = op["op"]
        g = sym.g
        follow_copy = op.get("follow", "copy") == "copy"
        if o == "eval":
            self.evaluate(t, op["how"])
        elif o == "data_":
            if op.get("via") == "setter" and sym.dtype == "float32":
                _set_elem(t, ELEMENTARY[self.cls], op["p"]["rows"], self.D)
            elif op.get("via") == "matrix":
                t.matrix_(self.raw(op["p"], g, False))
            else:
                t.data_(self.raw(op["p"], g, t.has_parameters() if not sym.pnone else False))
            self.ps = op["p"]
        elif o == "data":
            hp = False if sym.pk not in ("param", "buffer") else t.has_parameters()
            c = t.matrix(self.raw(op["p"], g, False)) if op.get("via") == "matrix" else t.data(self.raw(op["p"], g, hp))
            if c is t:
                raise Violation("functional_setter_returns_self", f"{self.cls}.data(arg) returned the object it was called on")
            if follow_copy:
                self.poke(t, op, g)
                t, self.ps = c, op["p"]
            else:
                self.poke(c, op, g)
        elif o in ("copy", "deepcopy"):
            if o == "deepcopy":
                # torch cannot deep-copy non-leaf tensors: drop vector fields computed from a Parameter (also those of a
                # transformation this one is linked to) with the public clear_buffers() first
                for mod in t.modules():
                    if isinstance(mod, S.SpatialTransform) and any(b.requires_grad and not b.is_leaf for b in mod.buffers(recurse=False)):
                        mod.clear_buffers()
                        left = [name for name, _ in mod.named_buffers(recurse=False) if name in ("u", "v")]
                        if left:
                            raise Violation(f"clear_buffers_keeps_fields:{type(mod).__name__}",
                                            f"buffers {left} of {type(mod).__name__} are still registered after clear_buffers()")
            c = _copy.copy(t) if o == "copy" else _copy.deepcopy(t)
            if follow_copy:
                self.poke(t, op, g)
                t = c
            else:
                self.poke(c, op, g)
        elif o == "grid_":
            t = t.grid_(make_grid(op["g"]))
        elif o == "grid":
            c = t.grid(make_grid(op["g"]))
            if follow_copy:
                self.poke(t, op, g)
                t = c
            else:
                self.poke(c, op, op["g"])
        elif o in ("condition_", "condition"):
            c = getattr(t, o)(**{"key": op["key"]}) if op.get("kw") else getattr(t, o)(op["key"])
            if o == "condition_" or follow_copy:
                if o == "condition":
                    self.poke(t, op, g)
                t = c
                if sym.pk == "callable":
                    self.ps = self.table[op["key"]]
            else:
                self.poke(c, op, g)
        elif o == "link":
            other = self.holder(op["p"], g, op["opk"]).to(tdtype(sym.dtype))
            c = t.link(other)
            if follow_copy:
                self.poke(t, op, g)
                t, self.ps = c, op["p"]
            else:
                self.poke(c, op, g)
        elif o == "unlink":
            if op["inplace"]:
                t = t.unlink_()
            else:
                c = t.unlink()
                if follow_copy:
                    self.poke(t, op, g)
                    t = c
                else:
                    self.poke(c, op, g)
        elif o == "inverse":
            c = t.inverse(link=op["link"], update_buffers=op["ub"])
            if follow_copy:
                self.poke(t, op, g)
                t = c
            else:
                self.poke(c, op, g)
        elif o == "reset":
            t.reset_parameters()
            self.ps = ({"N": sym.N, "field": "zero", **{k: self.t0[k] for k in ("stride", "transpose", "dstride", "resize") if k in self.t0}}
                       if self.dense else {"N": sym.N, "rows": _identity_rows(ELEMENTARY[self.cls], self.D, sym.N)})
        elif o in ("inplace", "load"):
            new = self.raw(op["p"], g, t.has_parameters())
            if tuple(t.data().shape) != tuple(new.shape):
                raise Violation(f"history_parameter_shape:{self.cls}", f"data() of {self.cls} after [{', '.join(self.done)}] has shape "
                                f"{tuple(t.data().shape)}, the parameters set last have shape {tuple(new.shape)}")
            if o == "inplace":
                with torch.no_grad():
                    t.data().copy_(new)
            else:
                # (optimisable angles / scales of linear models are stored as activations: same kind of holder there)
                donor = self.holder(op["p"], g, op.get("dk", sym.pk) if self.dense else sym.pk)
                t.load_state_dict(donor.state_dict(), strict=False)
            self.ps = op["p"]
        elif o == "roundtrip":
            c = self.fresh(g, sym.N, sym.pk == "param")
            if tuple(t.data().shape) != tuple(c.data().shape):
                raise Violation(f"history_parameter_shape:{self.cls}", f"data() of {self.cls} after [{', '.join(self.done)}] has shape "
                                f"{tuple(t.data().shape)}, a new {self.cls} on the same grid with {sym.N} groups has {tuple(c.data().shape)}")
            c.load_state_dict(t.state_dict(), strict=False)
            t = c
        elif o == "mode":
            t = t.train(op["train"])
        elif o == "to":
            t = t.to(tdtype(op["dtype"]))
        elif o == "clear":
            t.clear_buffers()
        else:
            raise ValueError(o)
        sym.step(op)
        self.done.append(o + (":matrix" if op.get("via") == "matrix" else "") + ("" if follow_copy or "follow" not in op else ":orig"))
        if _module_cycle(t):
            # link_() documents that a transformation cannot be linked to itself
            raise Violation(f"history_linked_to_itself:{self.cls}", f"{self.cls} after [{', '.join(self.done)}] is or contains a transformation that is a sub-module of itself")
        return t

    def run(self):
        t = self.start()
        for op in self.case["ops"]:
            t = self.apply(t, op)
        if self.sym.pnone or not self.sym.known or self.sym.inv:
            raise Skip("incomplete history")
        return t, self.ref(self.ps, self.sym.g)


def run_history(case):
    h = History(case)
    t, r = h.run()
    sym = h.sym
    g, D, dense = sym.g, case["D"], h.dense
    tag = h.cls
    m = ref.GridModel.from_desc(g)
    wm = WorldMap(r, m)
    N = r.N
    first = case["first"]
    if sym.stale and first not in HOOK_VIEWS:
        first = "call"
    what = f"{tag} after [{', '.join(h.done)}]"
    dt = tdtype(case["dtype"])
    xc = arrange(cube_points(m, case["rel"]), case["Nb"] if case["Nb"] in (1, N) else 1, case["form"])
    worst = 0.0
    xs = cube_coords(tuple(g["size"][::-1]), m.ac)
    if first in ("tensor", "disp"):
        T = t.tensor() if first == "tensor" else t.disp()
        if dense or first == "disp":
            # (tensor() of a dense vector field model with resize=False lives on the lattice of its parameters)
            xt = cube_coords(tuple(r.u.shape[2:]), m.ac) if dense and first == "tensor" else xs
            want = np.stack([np.moveaxis(r.cube(xt, b) - xt, -1, 0) for b in range(N)])
            bound = wm.cube_bound(xt)
        else:
            want = np.stack([r.matrix(b) for b in range(N)])
            bound = K * EPS32 * (float(np.abs(want).max()) + 1.0) * D
            full = np.broadcast_to(np.eye(D, D + 1), (T.shape[0], D, D + 1)).copy()
            Tn = T.detach().double().numpy()
            if T.ndim == 3 and T.shape[2] == 1:
                full[:, :, D] = Tn[:, :, 0]
            elif T.ndim == 3:
                full[:, :, : T.shape[2]] = Tn
            T = full
        if tuple(T.shape) != want.shape:
            raise Violation(f"history_{first}_shape:{tag}", f"{first}() of {what} has shape {tuple(T.shape)}, expected {want.shape}")
        worst = check_close(T, want, bound, f"history_{first}:{tag}", f"{first}() of {what}, read before any call that runs the update() hook")
    elif first == "disp_other":
        worst, _ = check_disp_on(t, wm, case["other"], case["other_kind"], dense, "history:" + tag)
    elif first in ("points", "transformer"):
        mini = {"paxes": "world", "via": first}
        worst, _ = check_points_api(t, r, wm, mini, xc, dt, "history:" + tag, dense)
    elif first in ("sequential", "multilevel"):
        # a composite built around the object evaluates its member without running the member's update() hook in disp()
        import deepali.spatial as S

        comp = (S.SequentialTransform if first == "sequential" else S.MultiLevelTransform)(t)
        d = comp.disp()
        want = np.stack([np.moveaxis(r.cube(xs, b) - xs, -1, 0) for b in range(N)])
        if tuple(d.shape) != want.shape:
            raise Violation(f"history_{first}_shape:{tag}", f"disp() of a {first} composite of {what} has shape {tuple(d.shape)}, expected {want.shape}")
        worst = check_close(d, want, wm.cube_bound(xs), f"history_{first}:{tag}", f"{first.capitalize()}Transform({what}).disp()")
    elif first == "forward":
        y = t.forward(torch.tensor(xc, dtype=dt))
        Ny = max(N, xc.shape[0])
        expect = np.stack([r.cube(xc[b % xc.shape[0]], b) for b in range(Ny)])
        if tuple(y.shape) != expect.shape:
            raise Violation(f"history_forward_shape:{tag}", f"forward(x) of {what} has shape {tuple(y.shape)}, expected {expect.shape}")
        worst = check_close(y, expect, wm.cube_bound(xc), f"history_forward:{tag}", f"forward(x) of {what}, called directly (no update() hook)")
    spec = {"cls": tag, "route": "history", "field": h.ps.get("field", "-"), "pkind": sym.pk,
            **{k: h.t0[k] for k in ("dstride", "resize") if k in h.t0}}
    vcase = dict(case, Nb=xc.shape[0])
    res = check_views(vcase, dense, t, r, g, spec,
                      extra_labels=[f"first={first}", f"pk={sym.pk}", f"init={case['init']}", f"stale={sym.stale}", f"nops={len(h.done)}"]
                                   + sorted({"op=" + d for d in h.done}))
    res["ratio"] = max(res["ratio"], worst)
    res["nontrivial"] = bool(res["nontrivial"] or (r.effect() >= 0.05 and len(h.done) >= 2))
    return res


FACETS = [
    Facet("identity", run_identity, strategy=identity_cases,
          rule="every class (elementary/composite linear, dense, Sequential/MultiLevel, Generic configs) built with default parameters "
               "(params True/False, groups 1..3) on a generated grid; non-trivial = oblique or anisotropic grid",
          quick=300, thorough=6000, shards=8, quick_shards=2),
    Facet("linear_views", lambda c: run_views(c, False), strategy=lambda: view_cases(False),
          rule="linear class x parameter values via public setters / raw tensor x groups x points (sets, grid shaped, f32/f64) x other grid "
               "(own/resized/flip_ac/cropped/unrelated) x (grid, axes)->(to_grid, to_axes); non-trivial = |M - I|max >= 0.05 and oblique or anisotropic grid",
          quick=640, thorough=16000, shards=16, quick_shards=4),
    Facet("dense_views", lambda c: run_views(c, True), strategy=lambda: view_cases(True),
          rule="dense class x field kind (cube-affine, hash-noise, invariant affine velocity, affine/noise spline coefficients) x route (constructor "
               "tensor / Parameter, data_(), in-place change of the parameters after update()) x groups x (for DDF/SVF) stride / resize options; "
               "same views; non-trivial = |u|max >= 0.05 cube units, oblique or anisotropic grid, >= 2 compared samples of the other grid inside the domain",
          quick=520, thorough=12000, shards=16, quick_shards=4),
    Facet("composition", run_composite, strategy=composite_cases,
          rule="Sequential / MultiLevel of 1-3 generated members (linear only, or mixed with dense; a member may be a nested composite or a "
               "generic configuration, groups 1 and N may be mixed); forward on point sets / grid shaped tensors, forward(x, grid=True) on "
               "same-domain grids of two sizes, tensor, disp and flow (own, resized, flip_ac, cropped and unrelated grid), points() / "
               "PointSetTransformer for generated (grid, axes) pairs, members unchanged; non-trivial = >= 2 leaves, effect >= 0.05, "
               ">= 2 compared points",
          quick=600, thorough=10000, shards=16, quick_shards=4),
    Facet("generic", run_generic, strategy=generic_cases,
          rule="GenericSpatialTransform: affine_model = 1-4 distinct letters of TRSKA(Q) in matrix or ' o ' notation, optional non-rigid component "
               "before/after, rotation_model, parameters via member setters or params dict; forward, forward(x, grid=True), disp(), world points "
               "vs explicit reference composite; non-trivial = >= 2 members",
          quick=280, thorough=6000, shards=8, quick_shards=2),
    Facet("warp", run_warp, strategy=warp_cases,
          rule="ImageTransformer(T, target, source)(ramp image): T linear leaf, DDF/SVF/FFD/SVFFD, Sequential/MultiLevel tree of 2-3 members "
               "(linear and dense in every order, nested, mixed groups) or generic configuration; target in {default, own, resized, flip_ac, "
               "cropped, unrelated}, source unrelated oriented grid covering the domain (or = target), flip_coords (linear T), align_centers "
               "(target centred on the transform grid), image batch 1/N; non-trivial = effect >= 0.05, ramp gradient >= 0.5/sample, "
               ">= 4 compared samples, target != transform grid",
          quick=680, thorough=12000, shards=16, quick_shards=4),
    Facet("history", run_history, strategy=history_cases,
          rule="elementary linear or dense class (parameters held as Parameter / tensor / callable) followed by 1-8 generated public "
               "operations (evaluate, data_, data(arg), setters, copy, deepcopy, grid_/grid(arg), condition_/condition(...), link, unlink, "
               "inverse twice with/without link and update_buffers, reset_parameters, in-place edit, load_state_dict, state_dict round trip "
               "into a fresh object, train/eval, to(dtype), clear_buffers); after an operation that returns a new object either the copy or "
               "the original is followed and the other one is evaluated / given other parameters; first view generated (one that does not "
               "run the update hook unless the contract requires an update), then all views; non-trivial = effect >= 0.05 and >= 2 operations",
          quick=1200, thorough=20000, shards=16, quick_shards=6),
]
