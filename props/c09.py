"""C09 - A transform evaluates its current parameters and grid, never a stale snapshot.

Model-based (stateful) check.  One rule-based machine drives a real deepali transform (the
*primary* P) - and optionally one transform derived from it (the *secondary* S: shallow copy,
`grid(g)` / `condition(...)` copy, inverse, linked inverse) - through a generated history of
replacing, in-place, re-gridding, re-conditioning, resetting, updating and observing operations.
Next to the real objects it keeps a plain-python MODEL of what each transform *holds*:

    (class, constructor options, grid descriptor, parameter VALUE (own clone), conditioning
     arguments, invert flag, state of the cached buffers)

ORACLE (fresh-twin differential): at every compared observation a twin is built through the
constructor only from the model (`cls(make_grid(model.grid), params=model.value.clone(), **opts)`),
shares no history with the object under test, and must agree with it on generated points
(`t(x)`), and - right after the replacing/resetting operations `data_`, `reset_parameters`,
`grid_`, `condition_`, `fit` - on `tensor()` / `disp()` without an intervening call.  After an
in-place edit the cached fields are only compared again after `update()`, a call, or an operation
that clears the buffers (documented contract of `SpatialTransform.update`).

Re-gridding is checked against an independent float64 model: the expected parameters of a dense
model on the new grid are the multilinear interpolation (vlib.ref.interp) of the old parameters at
the new sample positions computed with vlib.ref.GridModel, converted between the unit cubes of the
two grids; this is exact (<= 64 eps32 * scale) for world-affine fields and carries the derived
coordinate-rounding term for other content.  Spline subdivision is compared at the coincident
sample points (every second sample) of `tensor()` (FFD) / buffer `v` (SVFFD).
"""
from __future__ import annotations

import copy as _copy
import math

import numpy as np
import torch
from hypothesis import strategies as st
from hypothesis.stateful import initialize, precondition, rule

from vlib import gen, ref
from vlib.case import hash_noise, make_grid
from vlib.core import EPS32, Facet, Skip, Violation, check_close
from vlib.findings import Known
from vlib.stateful import VMachine, make_machine

PROPERTY = "C09"
MANIFEST = {
    "text": "Model-based state-machine search (Hypothesis RuleBasedStateMachine, five machine families) over histories of "
            "data_, in-place edits of parameters or of the tensor a parameter callable closes over, grid_ (dense re-gridding "
            "to arbitrary grids incl. align_corners-only changes, B-spline subdivision), condition_, reset_parameters, update, "
            "call, disp/tensor, clear_buffers, fit, shallow copies, grid(g)/condition(...) copies (also through "
            "SpatialTransformer), inverse, link and unlink for displacement/velocity fields (stride, resize, steps, scale), "
            "FFD/SVFFD (stride, transpose), linear and non-rigid transforms with callable parameters, linked inverse pairs and "
            "sequential composites.  After each step the transform under test must agree with a twin built freshly through "
            "the constructor from the modelled parameters/grid/conditioning; right after replacing/resetting operations also "
            "tensor()/disp() without a call; re-gridding is compared with an independent float64 interpolation model and "
            "spline subdivision at coincident samples.  Exploration, not proof: histories of <= 20 (quick) / 30 (thorough) "
            "steps on small grids.",
    "note": "Trusted: the python model of what a transform holds (value cells, aliasing of shallow copies as documented "
            "in SpatialTransform.__copy__, link semantics as documented in ParametricTransform.link_/inverse), "
            "vlib.ref.GridModel and vlib.ref.interp (float64 numpy, self-tested on a world-affine field), deepali "
            "constructors and forward evaluation of a fresh object (checked by C06/C11/C14).  Semantics that the F9 repair "
            "(shared _parameters of shallow copies, C07) would change and batches hit by F21 (FlowFields.sample, C05/C10) "
            "are not generated while those findings are open (probed at run time).  K5 is routed around only while listed.",
    "technique": "property-based testing (Hypothesis, stateful/model-based) with a fresh-twin differential oracle and a "
                 "float64 reference model for re-gridding",
}
ASSUMPTIONS = [
    "grids: D in {2,3}, sizes 3..9 (3-D: 3..6), spacing in [0.2, 5], |center| <= 50, rotated/anisotropic included; "
    "parameters are float32, amplitudes <= 0.3 cube units",
    "after an in-place edit tensor()/disp() are only compared after update(), a call, or a buffer-clearing operation "
    "(SpatialTransform.update docstring)",
    "dense re-gridding is compared at new samples lying >= 1e-3 samples inside the old sample hull (outside, the "
    "extrapolation rule is not part of the property); the verified parameters are then adopted by the model",
    "B-spline subdivision: the model adopts the subdivided coefficients after the coincident-sample comparison",
    "reset_parameters() of a linear transform with callable parameters is modelled as zeroing the buffered prediction "
    "until the next update (for non-rigid models the cleared buffers make tensor() predict again); HomogeneousTransform is "
    "not reset and not inverted (zero matrix after reset: F5 of C06)",
    "grids whose reshape to the strided parameter grid trips the Grid._resize assertion (F19, property C03) are not used "
    "with stride != 1 (probed per grid)",
    "while FlowFields.sample(grid) truncates batches (F21, properties C05/C10): no re-gridding/fit of dense models with N > 1",
    "while shallow copies share the _parameters container (F9, property C07): no link/grid()/data_ on copies of "
    "Parameter-held transforms, and such copies are dropped when the original replaces its parameters",
]

K = 64.0
TWIN_K = 16.0  # twin and object run the same float32 code on bit-identical inputs
AMP = 0.3


def _sp():
    import deepali.spatial as S

    return S


# =======================================================================================
# reference geometry helpers (float64, no deepali)


def stride_tuple(stride, D):
    if isinstance(stride, (int, float)):
        return (float(stride),) * D
    return tuple(float(s) for s in stride) + (1.0,) * (D - len(stride))


def dense_data_desc(g: dict, stride) -> dict:
    """Descriptor of the sampling grid of the parameters of a dense model (documented: same extent;
    corners aligned if align_corners else edges aligned; size ceil(n / stride))."""
    D = len(g["size"])
    st_ = stride_tuple(stride, D)
    n = [int(v) for v in g["size"]]
    n2 = [int(math.ceil(n[i] / st_[i])) for i in range(D)]
    sp = []
    for i in range(D):
        if g.get("ac", True):
            sp.append(g["spacing"][i] * (n[i] - 1) / (n2[i] - 1) if n2[i] > 1 else g["spacing"][i])
        else:
            sp.append(g["spacing"][i] * n[i] / n2[i])
    d = dict(g)
    d["size"] = n2
    d["spacing"] = sp
    return d


def cube_name(g: dict) -> str:
    return "cube_corners" if g.get("ac", True) else "cube"


def world_to_cube_linear(g: dict) -> np.ndarray:
    m = ref.GridModel.from_desc(g)
    D = m.D
    return m.matrix("world", cube_name(g))[:D, :D]


def regrid_expected(P: np.ndarray, g_old: dict, dg_old: dict, g_new: dict, dg_new: dict):
    """Expected parameters (N, D, ...) of a dense model on the new grid + validity mask + bound scale.

    P are vectors in unit-cube units of g_old sampled on dg_old.  Returns (E, mask, cond_idx, maxdiff).
    """
    D = len(g_old["size"])
    mo = ref.GridModel.from_desc(dg_old)
    mn = ref.GridModel.from_desc(dg_new)
    xw = mn.world_points()  # (..., X, D)
    idx = mo.points(xw, "world", "grid")
    n_old = np.array(dg_old["size"], dtype=np.float64)
    margin = 1e-3
    mask = np.all((idx >= margin) & (idx <= n_old - 1 - margin), axis=-1)
    val = ref.interp(P, idx, "linear", "border")  # (N, D, ...)
    M = world_to_cube_linear(g_new) @ np.linalg.inv(world_to_cube_linear(g_old))
    E = np.einsum("ij,nj...->ni...", M, val)
    cond_idx = mo.cond("world", "grid", xw.reshape(-1, D))
    maxdiff = 0.0
    for ax in range(D):
        if P.shape[2 + ax] > 1:
            maxdiff += float(np.abs(np.diff(P, axis=2 + ax)).max())
    return E, mask, cond_idx, maxdiff, float(np.abs(M).sum(1).max())


def selftest():
    """The re-gridding reference reproduces a world-affine field exactly (float64) on rotated/anisotropic grids,
    both conventions, with stride - independent of deepali."""
    g1 = {"size": [7, 5], "spacing": [1.5, 0.7], "center": [10.0, -4.0], "rot": [0.4], "perm": [0, 1], "flip": [1, 1], "ac": True}
    fill = {"kind": "affine", "A": [0.1, -0.2, 0.05, 0.15], "b": [0.05, -0.02, 0.0], "c0": [9.0, -3.0, 0.0]}
    for ac1 in (True, False):
        for ac2 in (True, False):
            a = dict(g1, ac=ac1)
            b = {"size": [4, 6], "spacing": [0.4, 0.3], "center": [10.2, -3.9], "rot": [-1.1], "perm": [1, 0], "flip": [1, -1], "ac": ac2}
            da, db = dense_data_desc(a, 2), dense_data_desc(b, [1.5])
            P = fill_tensor(fill, 2, 2, tuple(reversed(da["size"])), a, da).double().numpy()
            E, mask, _, _, _ = regrid_expected(P, a, da, b, db)
            if not mask.all():
                raise AssertionError("selftest grid is not inside the old sample hull")
            # the offset of the affine content is generated relative to the extent of its own grid: rescale it
            ea, eb = (float(np.abs(np.array(g["spacing"]) * np.array(g["size"])).max()) for g in (a, b))
            fill_b = dict(fill, b=[v * ea / eb for v in fill["b"]])
            want = fill_tensor(fill_b, 2, 2, tuple(reversed(db["size"])), b, db).double().numpy()
            if np.abs(E - want).max() > 1e-6:  # content is rounded to float32
                raise AssertionError(f"regrid reference differs from the affine closed form by {np.abs(E - want).max()}")


def spline_ctrl_shape(size, stride) -> tuple:
    # number of coefficients per axis required by deepali (input validity, not an oracle): floor(n / s) + 3,
    # one more if s does not divide n; returned in tensor order (..., X)
    return tuple(int(n) // int(s) + 3 + (1 if int(n) % int(s) else 0) for n, s in zip(reversed(size), reversed(stride)))


# =======================================================================================
# tensor content (closed form, from the case)


def fill_tensor(fill: dict, N: int, D: int, shape: tuple, g: dict = None, dg: dict = None) -> torch.Tensor:
    """(N, D, *shape) float32 content in unit-cube units of grid g."""
    kind = fill["kind"]
    full = (N, D) + tuple(shape)
    if kind == "const":
        v = np.array(fill["v"][:D], dtype=np.float64).reshape((1, D) + (1,) * len(shape))
        out = np.broadcast_to(v, full) * np.arange(1, N + 1).reshape((N,) + (1,) * (len(shape) + 1))
    elif kind == "noise":
        out = hash_noise(full, key=int(fill["key"]), lo=-float(fill["amp"]), hi=float(fill["amp"]))
    elif kind == "ramp":  # linear in the sample index along each axis
        out = np.zeros(full)
        for ax in range(len(shape)):
            n = shape[ax]
            r = (np.arange(n) / max(n - 1, 1) - 0.5).reshape((1, 1) + tuple(n if a == ax else 1 for a in range(len(shape))))
            c = np.array(fill["c"][ax * D:(ax + 1) * D], dtype=np.float64).reshape((1, D) + (1,) * len(shape))
            out = out + r * c
        out = out * np.arange(1, N + 1).reshape((N,) + (1,) * (len(shape) + 1))
    elif kind == "affine":  # world-affine displacement u(x) = A (x - c0) + b, expressed in cube units of g
        m = ref.GridModel.from_desc(dg)
        xw = m.world_points()
        ext = float(np.abs(np.array(g["spacing"]) * np.array(g["size"])).max())
        A = np.array(fill["A"], dtype=np.float64).reshape(D, D)
        b = np.array(fill["b"][:D], dtype=np.float64) * ext
        uw = (xw - np.array(fill["c0"][:D], dtype=np.float64)) @ A.T + b
        uc = uw @ world_to_cube_linear(g).T
        one = np.moveaxis(uc, -1, 0)
        out = np.stack([one / (i + 1) for i in range(N)], 0)
    else:
        raise ValueError(kind)
    return torch.tensor(np.ascontiguousarray(out), dtype=torch.float32)


def vec_tensor(v, N, shape) -> torch.Tensor:
    n = int(np.prod(shape))
    a = np.array([v[i % len(v)] * (1 + i // len(v)) for i in range(n)], dtype=np.float64).reshape(shape)
    out = np.stack([a / (i + 1) for i in range(N)], 0)
    return torch.tensor(out, dtype=torch.float32)


# =======================================================================================
# model


class Cell:
    """A tensor object as the model sees it: `value` is the model's own clone."""

    def __init__(self, value: torch.Tensor):
        self.value = value


class Slot:
    """A parameter container entry; shallow copies of Parameter-held transforms share it."""

    def __init__(self, cell: Cell):
        self.cell = cell


class Net:
    """Callable parameters: closure over a tensor, function of the conditioning arguments."""

    def __init__(self, base: torch.Tensor, w1: torch.Tensor, w2: torch.Tensor):
        self.base, self.w1, self.w2 = base, w1, w2
        self.calls = 0

    def __call__(self, *args, **kwargs):
        self.calls += 1
        a = sum(float(x) for x in args)
        k = float(kwargs.get("k", 0.0))
        return self.base + a * self.w1 + k * self.w2


LINEAR = ("Translation", "EulerRotation", "HomogeneousTransform")
CLS = {"ddf": "DisplacementFieldTransform", "svf": "StationaryVelocityFieldTransform",
       "ffd": "FreeFormDeformation", "svffd": "StationaryVelocityFreeFormDeformation"}


class Unit:
    """Model of one elementary transform (+ handle `real` of the deepali object, if it has one)."""

    def __init__(self, spec: dict, grid: dict):
        self.kind = spec["kind"]  # ddf | svf | ffd | svffd | lin
        self.cls = CLS.get(self.kind) or spec["cls"]
        self.opts = dict(spec.get("opts", {}))
        self.holder = spec["holder"]  # buffer | parameter | callable
        self.grid = grid
        self.D = len(grid["size"])
        self.N = int(spec.get("N", 1))
        self.slot = None
        self.net = None  # real callable
        self.net_model = None  # Cell with the model's clone of net.base
        self.link = None  # Unit this one is linked to
        self.cond = ([], {})
        self.invert = False
        self.sign = 1.0
        self.buf = "na"
        self.pval = None
        self.real = None
        self.regrid = False

    # -- shapes ---------------------------------------------------------------------------
    @property
    def nonrigid(self):
        return self.kind != "lin"

    @property
    def dense(self):
        return self.kind in ("ddf", "svf")

    @property
    def spline(self):
        return self.kind in ("ffd", "svffd")

    def data_desc(self, grid=None):
        return dense_data_desc(grid or self.grid, self.opts.get("stride", 1))

    def data_shape(self, grid=None) -> tuple:
        g = grid or self.grid
        D = self.D
        if self.dense:
            return (D,) + tuple(reversed(self.data_desc(g)["size"]))
        if self.spline:
            return (D,) + spline_ctrl_shape(g["size"], self.opts["stride"])
        if self.cls == "Translation":
            return (D,)
        if self.cls == "EulerRotation":
            return (1 if D == 2 else 3,)
        if self.cls == "HomogeneousTransform":
            return (D, D + 1)
        raise ValueError(self.cls)

    def content(self, fill: dict, N: int, grid=None) -> torch.Tensor:
        g = grid or self.grid
        shp = self.data_shape(g)
        if self.nonrigid:
            if self.spline and fill["kind"] == "affine":
                fill = {"kind": "ramp", "c": [fill["A"][i % len(fill["A"])] for i in range(self.D * self.D)]}
            return fill_tensor(fill, N, self.D, shp[1:], g, self.data_desc(g) if self.dense else None)
        v = vec_tensor(fill["v"], N, shp)
        if self.cls == "HomogeneousTransform":
            v = v + torch.eye(self.D, self.D + 1).unsqueeze(0)
        return v

    # -- values ---------------------------------------------------------------------------
    def net_eval(self) -> torch.Tensor:
        a = sum(float(x) for x in self.cond[0])
        k = float(self.cond[1].get("k", 0.0))
        return self.net_model.value + a * self.net.w1 + k * self.net.w2

    def current(self) -> torch.Tensor:
        """Parameter value the transform holds now (what a call must use)."""
        if self.link is not None:
            p = self.link
            return p.pval if p.holder == "callable" else p.current()
        if self.holder == "callable":
            return self.net_eval()
        return self.slot.cell.value

    def observable(self):
        """Value that tensor()/disp() must reflect without a call; None = not defined by the contract."""
        if self.buf in ("na", "none", "fresh"):
            return self.current()
        if self.buf == "zero":
            return torch.zeros_like(self.pval)
        return None

    def refreshed(self):
        """Model effect of update() / a call."""
        if self.holder == "callable" and self.link is None:
            self.pval = self.net_eval().clone()
        if self.buf != "na":
            self.buf = "fresh"

    # -- construction ---------------------------------------------------------------------
    def ctor_opts(self) -> dict:
        o = {}
        if self.dense:
            o["stride"] = self.opts.get("stride", 1)
            o["resize"] = self.opts.get("resize", True)
        if self.spline:
            o["stride"] = tuple(self.opts["stride"])
            o["transpose"] = self.opts.get("transpose", False)
        if self.kind in ("svf", "svffd"):
            sc = self.opts.get("scale")
            o["scale"] = sc if self.sign > 0 else -(1.0 if sc is None else sc)
            o["steps"] = self.opts.get("steps")
        if self.cls == "EulerRotation" and self.opts.get("order"):
            o["order"] = self.opts["order"]
        return o

    def build(self, value: torch.Tensor = None, holder: str = None):
        """Construct a deepali transform from the model through the constructor only."""
        S = _sp()
        holder = holder or self.holder
        cls = getattr(S, self.cls)
        if holder == "callable":
            params = self.net
        elif holder == "parameter":
            params = torch.nn.Parameter(value.clone())
        else:
            params = value.clone()
        t = cls(make_grid(self.grid), params=params, **self.ctor_opts())
        if self.kind == "lin" and self.invert:
            t.invert = True
        return t

    def twin(self, value: torch.Tensor):
        h = "parameter" if (self.holder == "parameter" and self.link is None) else "buffer"
        return self.build(value, holder=h)

    def derive(self) -> "Unit":
        """Model of a shallow copy (documented in SpatialTransform.__copy__)."""
        u = Unit.__new__(Unit)
        u.__dict__ = dict(self.__dict__)
        u.opts = dict(self.opts)
        u.cond = (list(self.cond[0]), dict(self.cond[1]))
        u.real = None
        if self.holder == "buffer" and self.link is None:
            u.slot = Slot(self.slot.cell)  # own container, same tensor object
        return u


# =======================================================================================
# strategies (all content small and explicit)


def c09_grids(D, ac=None, max3=6, max2=9):
    mx = max2 if D == 2 else max3
    return gen.grids(D, min_size=3, max_size=mx, mag=50.0, spacing_lo=0.2, spacing_hi=5.0, ac=ac).map(_fix_sizes)


def _fix_sizes(g):
    g = dict(g)
    g["size"] = [max(3, int(n)) for n in g["size"]]
    return g


def fills(D, nonrigid=True):
    q = gen.qfloat
    const = st.fixed_dictionaries({"kind": st.just("const"), "v": st.lists(q(-AMP, AMP, 0.01), min_size=3, max_size=3)})
    if not nonrigid:
        return st.fixed_dictionaries({"kind": st.just("vec"), "v": st.lists(q(-AMP, AMP, 0.01), min_size=2, max_size=4)})
    noise = st.fixed_dictionaries({"kind": st.just("noise"), "key": st.integers(0, 999), "amp": q(0.02, AMP, 0.01)})
    affine = st.fixed_dictionaries({"kind": st.just("affine"),
                                    "A": st.lists(q(-0.2, 0.2, 0.01), min_size=D * D, max_size=D * D),
                                    "b": st.lists(q(-0.1, 0.1, 0.01), min_size=3, max_size=3),
                                    "c0": st.lists(q(-50, 50, 0.5), min_size=3, max_size=3)})
    return st.one_of(affine, noise, affine, const)


def conds():
    a = st.lists(gen.qfloat(-1, 1, 0.05), min_size=0, max_size=2)
    k = st.one_of(st.just({}), st.fixed_dictionaries({"k": gen.qfloat(-1, 1, 0.05)}))
    return st.tuples(a, k).filter(lambda c: c[0] or c[1]).map(lambda c: {"args": c[0], "kwargs": c[1]})


def points(D):
    return gen.point_lists(D, -1.1, 1.1, min_n=1, max_n=5, step=0.01)


@st.composite
def unit_specs(draw, kind, D, in_composite=False):
    spec = {"kind": kind}
    if kind in ("ddf", "svf"):
        spec["opts"] = {"stride": draw(st.sampled_from([1, 1, 2, 1.5, [2, 1]])), "resize": draw(st.booleans())}
    if kind in ("ffd", "svffd"):
        spec["opts"] = {"stride": draw(st.lists(st.integers(1, 3), min_size=D, max_size=D)), "transpose": draw(st.booleans())}
    if kind in ("svf", "svffd"):
        spec["opts"]["scale"] = draw(st.sampled_from([None, 1.0, 0.5, -1.0]))
        spec["opts"]["steps"] = draw(st.integers(0, 3))
    if kind == "lin":
        spec["cls"] = draw(st.sampled_from(LINEAR))
        spec["opts"] = {}
        if spec["cls"] == "EulerRotation" and D == 3:
            spec["opts"]["order"] = draw(st.sampled_from([None, "ZXZ", "XYZ"]))
    spec["holder"] = draw(st.sampled_from(["buffer", "parameter"]))
    spec["N"] = draw(st.sampled_from([1, 1, 1, 2]))
    spec["fill"] = draw(fills(D, nonrigid=kind != "lin"))
    return spec


@st.composite
def callable_specs(draw, D, kind="lin"):
    spec = draw(unit_specs(kind, D))
    spec["holder"] = "callable"
    q = gen.qfloat
    spec["net"] = {"w1": draw(st.lists(q(-AMP, AMP, 0.01), min_size=2, max_size=3)),
                   "w2": draw(st.lists(q(-AMP, AMP, 0.01), min_size=2, max_size=3))}
    return spec


@st.composite
def inits(draw, family):
    D = draw(gen.dims())
    init = {"family": family, "x": draw(points(D))}
    if family == "dense":
        init["grid"] = draw(c09_grids(D))
        kind = draw(st.sampled_from(["ddf", "svf"]))
        init["units"] = [draw(callable_specs(D, kind)) if draw(st.integers(0, 3)) == 0 else draw(unit_specs(kind, D))]
    elif family == "spline":
        init["grid"] = draw(c09_grids(D, ac=True, max3=5, max2=8))
        kind = draw(st.sampled_from(["ffd", "svffd"]))
        init["units"] = [draw(callable_specs(D, kind)) if draw(st.integers(0, 3)) == 0 else draw(unit_specs(kind, D))]
    elif family == "callable":
        init["grid"] = draw(c09_grids(D))
        init["units"] = [draw(callable_specs(D))]
    elif family == "linked":
        kind = draw(st.sampled_from(["lin", "lin", "svf", "svffd", "call"]))
        init["grid"] = draw(c09_grids(D, ac=True if kind == "svffd" else None, max3=5, max2=8))
        init["units"] = [draw(callable_specs(D)) if kind == "call" else draw(unit_specs(kind, D))]
        if kind != "call":
            init["units"][0]["holder"] = draw(st.sampled_from(["buffer", "buffer", "buffer", "parameter"]))
    elif family == "composite":
        kinds = draw(st.lists(st.sampled_from(["lin", "call", "ddf", "svf", "ffd", "svffd"]), min_size=2, max_size=3))
        init["grid"] = draw(c09_grids(D, ac=True if any(k in ("ffd", "svffd") for k in kinds) else None, max3=5, max2=7))
        init["units"] = [draw(callable_specs(D)) if k == "call" else draw(unit_specs(k, D)) for k in kinds]
        init["composite"] = True
    else:
        raise ValueError(family)
    return init


# =======================================================================================
# the machine

REPLACING = ("data_", "reset", "grid_", "condition_", "fit")
_F9 = {}


def f9_open() -> bool:
    """Do shallow copies share the `_parameters` container (finding F9, property C07)?"""
    if "v" not in _F9:
        S = _sp()
        from deepali.core import Grid

        t = S.Translation(Grid(size=(3, 3)))
        _F9["v"] = _copy.copy(t)._parameters is t._parameters
    return _F9["v"]


def f21_open() -> bool:
    """Does FlowFields.sample(grid) truncate a batch to one item (finding F21, properties C05/C10)?"""
    if "f21" not in _F9:
        from deepali.core import Grid
        from deepali.data import FlowFields

        f = FlowFields(torch.zeros(2, 2, 3, 3), grid=Grid(size=(3, 3)))
        _F9["f21"] = f.sample(Grid(size=(4, 4))).tensor().shape[0] != 2
    return _F9["f21"]


def f19_hits(g: dict, stride) -> bool:
    """Does Grid.reshape() to the parameter grid of a strided dense model trip the origin/extent assertion of
    Grid._resize (finding F19, property C03)?  Input-validity probe, not an oracle."""
    if stride == 1:
        return False
    shape = tuple(reversed(dense_data_desc(g, stride)["size"]))
    try:
        make_grid(g).reshape(shape)
    except AssertionError:
        return True
    return False


class Subject:
    """A real transform under test with the models of its elementary units."""

    def __init__(self, units, grid, composite, real):
        self.units = units
        self.grid = grid
        self.composite = composite
        self.real = real
        self.how = "primary"

    def twin(self, values):
        if not self.composite:
            return self.units[0].twin(values[0])
        S = _sp()
        return S.SequentialTransform(make_grid(self.grid), *[u.twin(v) for u, v in zip(self.units, values)])


class C09Machine(VMachine):
    FAMILY = "dense"

    def __init__(self):
        super().__init__()
        self.P = None
        self.S = None
        self.changes = []
        self.nt = False
        self.maxratio = 0.0
        self.labels = set()
        self.known = None
        self.D = 2

    # ---- bookkeeping --------------------------------------------------------------------
    def teardown(self):
        ctx = self.ctx
        if ctx is None or ctx.only_kind is not None or not self.started:
            return
        case = self.case()
        if self.violation is not None:
            ctx.stats.record_violation(case, *self.violation)
        else:
            ctx.stats.record_ok(case, {"labels": self.run_labels(), "nontrivial": self.is_nontrivial(),
                                       "steps": len(self.steps), "ratio": self.maxratio})

    def is_nontrivial(self):
        return self.nt

    def run_labels(self):
        return sorted(self.labels | {"op=" + s["op"] for s in self.steps})

    def all_units(self):
        us = list(self.P.units)
        if self.S is not None:
            us += self.S.units
        return us

    def route(self, fid: str) -> bool:
        if fid in self.init_case.get("no_route", []):
            return False
        if self.known is None:
            self.known = Known(PROPERTY)
        return self.known.active(fid)

    def changed(self, name):
        self.changes.append(name)

    def compared(self):
        if len(set(self.changes)) >= 2:
            self.nt = True

    def close(self, a, e, kind, what, scale=None, k=TWIN_K):
        a = a.detach()
        e = e.detach()
        if tuple(a.shape) != tuple(e.shape):
            raise Violation(kind + ":shape", f"{what}: shape {tuple(a.shape)} != twin {tuple(e.shape)}")
        sc = max(1.0, float(e.abs().max()) if e.numel() else 1.0) if scale is None else scale
        r = check_close(a, e, k * EPS32 * sc, kind, what)
        self.maxratio = max(self.maxratio, r)
        return r

    # ---- start --------------------------------------------------------------------------
    def start(self, init):
        S = _sp()
        grid = init["grid"]
        D = len(grid["size"])
        self.D = D
        self.x = torch.tensor([init["x"]], dtype=torch.float32)
        units = []
        for spec in init["units"]:
            u = Unit(spec, grid)
            if u.dense and f19_hits(grid, u.opts.get("stride", 1)):
                u.opts["stride"] = 1  # F19 (C03): this grid cannot be reshaped to the strided parameter grid
                self.labels.add("F19-stride-fallback")
            if u.holder == "callable":
                shp = (u.N,) + u.data_shape()
                base = u.content(spec["fill"], u.N)
                if u.nonrigid:  # per-component weights, broadcast over the samples
                    ws = [torch.tensor([spec["net"][w][i % len(spec["net"][w])] for i in range(D)], dtype=torch.float32)
                          .reshape((1, D) + (1,) * D) for w in ("w1", "w2")]
                else:
                    ws = [vec_tensor(spec["net"][w], u.N, shp[1:]) for w in ("w1", "w2")]
                u.net = Net(base, ws[0], ws[1])
                u.net_model = Cell(base.clone())
                u.pval = torch.zeros((1,) + shp[1:])  # constructor: groups=1, zero-initialised buffer
                u.buf = "none" if u.nonrigid else "stale"  # nothing predicted yet (tensor() of a non-rigid model updates)
                u.real = u.build()
            else:
                v = u.content(spec["fill"], u.N)
                u.slot = Slot(Cell(v.clone()))
                u.buf = "none" if u.nonrigid else "na"
                u.real = u.build(v)
            units.append(u)
            self.labels.add("kind=" + u.kind + ("/callable" if u.holder == "callable" else ""))
            self.labels.add("holder=" + u.holder)
            if u.dense:
                self.labels.add(f"stride={u.opts['stride']}")
                self.labels.add(f"resize={u.opts['resize']}")
            if u.kind in ("svf", "svffd"):
                self.labels.add(f"steps={u.opts['steps']}")
            if u.kind == "lin":
                self.labels.add("cls=" + u.cls)
        self.labels.add(f"D={D}")
        self.labels.add(f"ac={grid.get('ac', True)}")
        self.labels.add("grid=" + grid.get("kind", "?"))
        if init.get("composite"):
            real = S.SequentialTransform(make_grid(grid), *[u.real for u in units])
            self.P = Subject(units, grid, True, real)
        else:
            self.P = Subject(units, grid, False, units[0].real)
        self.S = None

    # ---- observations -------------------------------------------------------------------
    def obs_call(self, sub: Subject, x, tag):
        y = sub.real(x)
        for u in sub.units:
            self.refresh_unit(u)
        tw = sub.twin([u.current() for u in sub.units])
        e = tw(x)
        self.compared()
        self.close(y, e, f"{tag}call_mismatch:after={self.last_change(sub)}", f"{self.describe(sub)}(x) vs fresh twin")

    def obs_fields(self, sub: Subject, tag, which=("tensor", "disp")):
        vals = [u.observable() for u in sub.units]
        if any(v is None for v in vals):
            # not defined by the contract: exercise the accessors only
            for w in which:
                getattr(sub.real, w)()
            self.settle(sub)
            return False
        tw = sub.twin(vals)
        for w in which:
            a = getattr(sub.real, w)()
            e = getattr(tw, w)()
            self.compared()
            self.close(a, e, f"{tag}{w}_mismatch:after={self.last_change(sub)}", f"{self.describe(sub)}.{w}() vs fresh twin")
        self.settle(sub)
        return True

    def refresh_unit(self, u: Unit):
        """Model effect of update()/a call on unit u, incl. transforms linked to its buffered prediction."""
        u.refreshed()
        if u.holder == "callable" and u.link is None:
            for v in self.all_units():
                if v.link is u and v.buf in ("fresh", "zero"):
                    v.buf = "stale"  # holds the previous prediction until its own update()

    def settle(self, sub):
        # tensor() of a non-rigid transform without buffers runs update()
        for u in sub.units:
            if u.buf == "none":
                self.refresh_unit(u)

    def last_change(self, sub):
        if any(u.holder == "callable" and u.link is None and not u.nonrigid for u in sub.units):
            flavor = "linear-callable"
        elif any(u.holder == "callable" and u.link is None for u in sub.units):
            flavor = "nonrigid-callable"
        else:
            flavor = "nonrigid" if any(u.nonrigid for u in sub.units) else "linear"
        return getattr(sub, "last", "init") + ":" + flavor

    def describe(self, sub):
        return sub.how + ":" + "+".join(u.cls for u in sub.units)

    # ---- aliasing effects ---------------------------------------------------------------
    def touched_cell(self, cell, actor):
        for u in self.all_units():
            if u is actor:
                continue
            if (u.link is None and u.slot is not None and u.slot.cell is cell) or \
               (u.link is not None and u.link.slot is not None and u.link.slot.cell is cell):
                if u.buf in ("fresh", "zero"):
                    u.buf = "stale"

    def stale_links(self, actor):
        if self.S is None:
            return
        for u in self.S.units:
            if u.link is actor and u.buf in ("fresh", "zero", "none"):
                u.buf = "stale" if u.buf != "none" else "none"

    def drop_secondary(self):
        self.S = None

    def replaced(self, actor: Unit):
        """actor replaced its parameter tensor (new Cell already set)."""
        if self.S is None:
            return
        for u in self.S.units:
            if u.link is actor:
                if u.buf in ("fresh", "zero"):
                    u.buf = "stale"
            elif u.slot is not None and u.slot is actor.slot:
                # shared _parameters container: semantics contested by F9 -> not observed any more
                self.drop_secondary()
                return

    # ---- interpreter --------------------------------------------------------------------
    def apply(self, op):
        name = op["op"]
        getattr(self, "op_" + name)(op)
        if op.get("probe"):
            self.obs_call(self.P, self.x, "")

    def target(self, op) -> Unit:
        return self.P.units[int(op.get("target", 0)) % len(self.P.units)]

    def after_replacing(self, name):
        self.P.last = name
        self.changed(name)
        self.obs_fields(self.P, "")

    def op_data_(self, op):
        u = self.target(op)
        if u.holder == "callable":
            from deepali.spatial.base import ReadOnlyParameters

            try:
                u.real.data_(u.content(op["fill"], u.N))
            except ReadOnlyParameters:
                return
            raise Violation("data_on_callable_accepted", f"{u.cls}.data_() with callable parameters did not raise ReadOnlyParameters")
        N = int(op.get("N", u.N))
        if self.P.composite and u.nonrigid:
            N = u.N
        new = u.content(op["fill"], N)
        u.real.data_(new.clone())
        u.slot.cell = Cell(new.clone())  # a shared container (Parameter-held copies) is handled by replaced()
        u.N = N
        u.buf = "none" if u.nonrigid else "na"
        self.replaced(u)
        self.after_replacing("data_")

    def op_edit(self, op):
        u = self.target(op)
        how = op["how"]
        if u.holder == "callable":
            real, cell = u.net.base, u.net_model
        else:
            real, cell = u.real.params, u.slot.cell
        with torch.no_grad():
            if how["kind"] == "scale":
                real.mul_(float(how["c"]))
                cell.value.mul_(float(how["c"]))
            else:
                d = torch.tensor(hash_noise(tuple(cell.value.shape), key=int(how["key"]), lo=-float(how["amp"]),
                                            hi=float(how["amp"])), dtype=torch.float32)
                real.add_(d)
                cell.value.add_(d)
        if u.buf in ("fresh", "zero"):
            u.buf = "stale"
        if u.holder == "callable":
            for o in self.all_units():
                if o is not u and o.net_model is cell and o.link is None and o.buf in ("fresh", "zero"):
                    o.buf = "stale"
        else:
            self.touched_cell(cell, u)
        self.stale_links(u)
        self.P.last = "edit"
        self.changed("edit")

    def op_reset(self, op):
        u = self.target(op)
        if u.cls == "HomogeneousTransform":
            raise Skip("F5")
        u.real.reset_parameters()
        if u.holder == "callable":
            u.pval = torch.zeros_like(u.pval)
            u.buf = "none" if u.nonrigid else "zero"  # non-rigid: buffers cleared, tensor() runs update() again
            if self.S is not None:  # buffer object `p` may be shared with copies
                for s in self.S.units:
                    if s.buf in ("fresh", "zero"):
                        s.buf = "stale"
        else:
            u.slot.cell.value.zero_()
            u.buf = "none" if u.nonrigid else "na"
            self.touched_cell(u.slot.cell, u)
            self.stale_links(u)
        self.after_replacing("reset")

    def regrid_unit(self, u: Unit, real, g2: dict, tag: str):
        """real.grid_(g2) on unit model u (dense: independent expectation; spline: subdivision)."""
        g1 = u.grid
        value = u.current()
        if u.dense and value.shape[0] > 1 and f21_open():
            raise Skip("F21")
        if u.dense:
            dg1, dg2 = u.data_desc(g1), u.data_desc(g2)
            E, mask, cond_idx, maxdiff, mnorm = regrid_expected(value.double().numpy(), g1, dg1, g2, dg2)
            real.grid_(make_grid(g2))
            got = real.params.detach()
            if tuple(got.shape) != tuple(E.shape):
                raise Violation(tag + "grid_params_shape", f"params {tuple(got.shape)} after grid_, expected {tuple(E.shape)}")
            pm = float(value.abs().max()) if value.numel() else 0.0
            bound = K * EPS32 * (cond_idx * maxdiff + pm + 1e-3) * max(1.0, mnorm)
            m = np.broadcast_to(mask[None, None], E.shape)
            if m.any():
                self.compared()
                r = check_close(got.double().numpy()[m], E[m], bound, tag + "grid_params_not_preserved",
                                f"{u.cls}.grid_: parameters at {int(mask.sum())} samples inside the old hull vs float64 "
                                f"interpolation model (ac {g1.get('ac')}->{g2.get('ac')}, stride {u.opts.get('stride')})")
                self.maxratio = max(self.maxratio, r)
                self.labels.add("regrid=checked")
                if maxdiff * cond_idx < 4 * pm + 1e-9:
                    self.labels.add("regrid=smooth-field")
            new = got.clone()
        else:
            dims = [i for i in range(u.D) if g2["size"][i] != g1["size"][i]]
            old_tw = u.twin(value)
            old = old_tw.update().v if u.kind == "svffd" else old_tw.tensor()
            old = old.detach().clone()
            real.grid_(make_grid(g2))
            new = real.params.detach().clone()
        gobj = real.grid()
        want = make_grid(g2)
        if not (gobj == want and gobj.align_corners() == want.align_corners()):
            raise Violation(tag + "grid_not_set", f"{u.cls}.grid_(g): grid() afterwards is {gobj!r} (align_corners="
                                                  f"{gobj.align_corners()}), requested {want!r} (align_corners={want.align_corners()})")
        same = g2 == g1
        u.grid = g2
        u.slot = Slot(Cell(new))
        u.N = int(new.shape[0])
        u.link = None
        if not same:  # grid_ with the grid it already has need not invalidate anything
            u.buf = "none"
        u.regrid = True
        if u.spline:
            return old, dims
        return None, None

    def check_subdivision(self, u: Unit, real, old, dims, tag):
        cur = real.v if u.kind == "svffd" else real.tensor()
        cur = cur.detach()
        sl = [slice(None)] * cur.ndim
        for i in dims:
            sl[cur.ndim - 1 - i] = slice(None, None, 2)
        sub = cur[tuple(sl)]
        if tuple(sub.shape) != tuple(old.shape):
            raise Violation(tag + "subdivision_shape", f"coincident samples {tuple(sub.shape)} vs {tuple(old.shape)} before")
        self.compared()
        sc = max(1e-2, float(u.current().abs().max()))
        self.close(sub, old, tag + "subdivision_not_preserved",
                   f"{u.cls}.grid_(2n-1): field at coincident samples vs before (stride {u.opts['stride']})", scale=sc, k=K)
        self.labels.add("regrid=subdivision")

    def new_grid(self, u: Unit, op) -> dict:
        if u.spline:
            dims = op["dims"]
            g2 = dict(u.grid)
            g2["size"] = [2 * n - 1 if dims[i % len(dims)] else n for i, n in enumerate(u.grid["size"])]
            g2["spacing"] = [s / 2 if dims[i % len(dims)] else s for i, s in enumerate(u.grid["spacing"])]
            return g2
        return op["grid"]

    def op_grid_(self, op):
        if self.P.composite:
            raise Skip("composite")
        u = self.P.units[0]
        g2 = self.new_grid(u, op)
        if u.dense and f19_hits(g2, u.opts.get("stride", 1)):
            raise Skip("F19")
        if u.holder == "callable":
            # documented: only the grid attribute is updated, the callable must return a matching size afterwards
            self.drop_secondary()
            base = u.content(op["fill"], u.N, grid=g2)
            u.net.base = base
            u.net_model = Cell(base.clone())
            u.real.grid_(make_grid(g2))
            gobj, want = u.real.grid(), make_grid(g2)
            if not (gobj == want and gobj.align_corners() == want.align_corners()):
                raise Violation("grid_not_set", f"{u.cls}.grid_(g) with callable parameters: grid() is {gobj!r}, requested {want!r}")
            if g2 != u.grid:
                u.buf = "none"
            elif u.buf == "fresh":
                u.buf = "stale"  # same grid, other prediction: like an in-place edit
            u.grid = g2
            self.P.grid = g2
            self.P.last = "grid_"
            self.changed("grid_")
            self.obs_fields(self.P, "")
            return
        if u.dense and u.current().shape[0] > 1 and f21_open():
            raise Skip("F21")
        self.drop_secondary()
        old, dims = self.regrid_unit(u, u.real, g2, "")
        self.P.grid = g2
        self.P.last = "grid_"
        self.changed("grid_")
        self.obs_fields(self.P, "", which=("tensor",))
        if u.spline and dims:
            self.check_subdivision(u, u.real, old, dims, "")
        self.obs_fields(self.P, "", which=("disp",))

    def op_condition_(self, op):
        args = [torch.tensor(float(a)) for a in op["args"]]
        kwargs = {k: torch.tensor(float(v)) for k, v in op["kwargs"].items()}
        self.P.real.condition_(*args, **kwargs)
        got = self.P.real.condition()
        if not (isinstance(got, tuple) and len(got) == 2 and len(got[0]) == len(args) and set(got[1]) == set(kwargs)):
            raise Violation("condition_getter", f"condition() after condition_({op['args']}, {op['kwargs']}) returned {got!r}")
        for u in self.P.units:
            u.cond = (list(op["args"]), dict(op["kwargs"]))
            if u.nonrigid:
                u.buf = "none"
            elif u.holder == "callable" and u.link is None:
                u.buf = "stale" if self.route("K5") else "fresh"
                if u.buf == "fresh":
                    self.labels.add("K5-observed")
        self.after_replacing("condition_")

    def op_update(self, op):
        self.P.real.update()
        for u in self.P.units:
            self.refresh_unit(u)
        self.obs_fields(self.P, "")

    def op_call(self, op):
        x = torch.tensor([op["x"]], dtype=torch.float32) if "x" in op else self.x
        self.obs_call(self.P, x, "")

    def op_disp(self, op):
        self.obs_fields(self.P, "", which=("disp",))

    def op_tensor(self, op):
        self.obs_fields(self.P, "", which=("tensor",))

    def op_clear_buffers(self, op):
        self.P.real.clear_buffers()
        for u in self.P.units:
            if u.nonrigid:
                u.buf = "none"
        self.changed("clear_buffers")
        self.obs_fields(self.P, "")

    def op_fit(self, op):
        from deepali.core import Axes
        from deepali.data import FlowFields

        if self.P.composite:
            raise Skip("composite")
        u = self.P.units[0]
        if u.kind != "ddf" or u.holder == "callable":
            raise Skip("fit: ddf only")
        gf = op.get("grid") or u.grid
        N = u.N
        if N > 1 and f21_open():
            raise Skip("F21")
        src = Unit({"kind": "ddf", "opts": {"stride": 1}, "holder": "buffer", "N": N}, gf)
        data = src.content(op["fill"], N)
        flow = FlowFields(data.clone(), grid=make_grid(gf), axes=Axes.from_grid(make_grid(gf)))
        E, mask, cond_idx, maxdiff, mnorm = regrid_expected(data.double().numpy(), gf, gf, u.grid, u.data_desc())
        u.real.fit(flow)
        got = u.real.params.detach()
        if tuple(got.shape) != tuple(E.shape):
            raise Violation("fit_params_shape", f"params {tuple(got.shape)} after fit, expected {tuple(E.shape)}")
        pm = float(data.abs().max())
        bound = K * EPS32 * (cond_idx * maxdiff + pm + 1e-3) * max(1.0, mnorm)
        m = np.broadcast_to(mask[None, None], E.shape)
        if m.any():
            self.compared()
            r = check_close(got.double().numpy()[m], E[m], bound, "fit_not_assigned",
                            "DisplacementFieldTransform.fit(flow): parameters vs flow resampled by the float64 model")
            self.maxratio = max(self.maxratio, r)
        u.slot.cell = Cell(got.clone())
        u.buf = "none"
        self.replaced(u)
        self.after_replacing("fit")

    # ---- secondary ----------------------------------------------------------------------
    def need_unit(self):
        if self.P.composite:
            raise Skip("composite")
        return self.P.units[0]

    def make_secondary(self, units, real, how, grid=None):
        self.S = Subject(units, grid or self.P.grid, self.P.composite, real)
        self.S.how = how
        self.S.last = how
        self.changed(how)
        self.labels.add("secondary=" + how)

    def op_copy(self, op):
        u = self.need_unit()
        s = u.derive()
        s.real = _copy.copy(u.real)
        self.make_secondary([s], s.real, "copy")
        self.obs_fields(self.S, "s_")

    def op_grid_copy(self, op):
        u = self.need_unit()
        if u.holder == "callable":
            raise Skip("callable")
        if u.holder == "parameter" and f9_open():
            raise Skip("F9")
        g2 = self.new_grid(u, op)
        if u.dense and u.current().shape[0] > 1 and f21_open():
            raise Skip("F21")
        if u.dense and f19_hits(g2, u.opts.get("stride", 1)):
            raise Skip("F19")
        s = u.derive()
        real = u.real.grid(make_grid(g2))
        S = _sp()
        if not isinstance(real, S.SpatialTransform) or real is u.real:
            raise Violation("grid_copy_not_a_copy", f"grid(g) returned {type(real).__name__}{' (self)' if real is u.real else ''}")
        # the copy must be re-gridded ... (checked on the returned object, which already ran grid_)
        s.real = real
        self.make_secondary([s], real, "grid_copy", grid=g2)
        self.regrid_after(s, real, u, g2)
        # ... and the original must be untouched
        self.P.last = "grid_copy"
        self.obs_call(self.P, self.x, "")

    def regrid_after(self, s: Unit, real, u: Unit, g2):
        """Check an already re-gridded copy against the model of regridding u to g2."""
        value = u.current()
        got = real.params.detach()
        if s.dense:
            E, mask, cond_idx, maxdiff, mnorm = regrid_expected(value.double().numpy(), u.grid, u.data_desc(u.grid), g2, u.data_desc(g2))
            if tuple(got.shape) != tuple(E.shape):
                raise Violation("s_grid_params_shape", f"params {tuple(got.shape)} after grid(g), expected {tuple(E.shape)}")
            pm = float(value.abs().max())
            bound = K * EPS32 * (cond_idx * maxdiff + pm + 1e-3) * max(1.0, mnorm)
            m = np.broadcast_to(mask[None, None], E.shape)
            if m.any():
                self.compared()
                r = check_close(got.double().numpy()[m], E[m], bound, "s_grid_params_not_preserved",
                                f"{u.cls}.grid(g): parameters of the copy vs float64 interpolation model")
                self.maxratio = max(self.maxratio, r)
                self.labels.add("regrid=checked")
        gobj, want = real.grid(), make_grid(g2)
        if not (gobj == want and gobj.align_corners() == want.align_corners()):
            raise Violation("s_grid_not_set", f"{u.cls}.grid(g).grid() is {gobj!r} (align_corners={gobj.align_corners()}), "
                                              f"requested {want!r} (align_corners={want.align_corners()})")
        s.grid = g2
        s.slot = Slot(Cell(got.clone()))
        s.N = int(got.shape[0])
        s.buf = "none"
        self.obs_fields(self.S, "s_", which=("tensor",))
        if s.spline:
            dims = [i for i in range(u.D) if g2["size"][i] != u.grid["size"][i]]
            if dims:
                tw = u.twin(value)
                old = (tw.update().v if u.kind == "svffd" else tw.tensor()).detach().clone()
                self.check_subdivision(s, real, old, dims, "s_")

    def op_cond_copy(self, op):
        S = _sp()
        u = self.need_unit()
        args = [torch.tensor(float(a)) for a in op["args"]]
        kwargs = {k: torch.tensor(float(v)) for k, v in op["kwargs"].items()}
        if op.get("via") == "transformer":
            tr = S.PointSetTransformer(u.real)
            r = tr.condition(*args, **kwargs)
            if not isinstance(r, S.SpatialTransformer):
                raise Violation("transformer_condition_returns_getter",
                                f"SpatialTransformer.condition({op['args']}, {op['kwargs']}) returned {type(r).__name__}")
            got = r.transform.condition()
            if not (len(got[0]) == len(args) and set(got[1]) == set(kwargs)):
                raise Violation("transformer_condition_drops_arguments",
                                f"SpatialTransformer.condition({op['args']}, {op['kwargs']}).transform.condition() = {got!r}")
            # the transformer copy shares the transform object: re-establish the modelled conditioning
            oa = [torch.tensor(float(a)) for a in u.cond[0]]
            ok = {k: torch.tensor(float(v)) for k, v in u.cond[1].items()}
            u.real.condition_(*oa, **ok)
            if u.nonrigid:
                u.buf = "none"
            elif u.holder == "callable":
                u.buf = "stale"
            return
        real = u.real.condition(*args, **kwargs)
        if not isinstance(real, S.SpatialTransform):
            raise Violation("condition_returns_getter",
                            f"condition({op['args']}, {op['kwargs']}) returned {type(real).__name__} instead of a conditioned copy")
        s = u.derive()
        s.real = real
        s.cond = (list(op["args"]), dict(op["kwargs"]))
        if s.nonrigid:
            s.buf = "none"
        elif s.holder == "callable":
            s.buf = "stale" if self.route("K5") else "fresh"
        self.make_secondary([s], real, "cond_copy")
        got = real.condition()
        if not (len(got[0]) == len(args) and set(got[1]) == set(kwargs)):
            raise Violation("condition_copy_drops_arguments", f"condition({op['args']}, {op['kwargs']}).condition() = {got!r}")
        self.obs_fields(self.S, "s_")
        self.obs_call(self.S, self.x, "s_")
        self.P.last = "cond_copy"
        self.obs_call(self.P, self.x, "")

    def op_inverse(self, op):
        link, ub = bool(op["link"]), bool(op["update_buffers"])
        P = self.P
        for u in P.units:
            if u.kind in ("ddf", "ffd"):
                raise Skip("not invertible")
            if u.cls == "HomogeneousTransform":
                raise Skip("HomogeneousTransform (F5)")
            if link and u.holder == "parameter" and f9_open():
                raise Skip("F9")
            if link and u.holder == "parameter" and u.cls == "EulerRotation":
                # whether a linked transform applies the tanh activation of Parameter-held angles is decided by C07 (N07-1)
                raise Skip("N07-1")
        real = P.real.inverse(link=link, update_buffers=ub)
        units = []
        for u in (reversed(P.units) if P.composite else P.units):
            s = u.derive()
            if u.kind == "lin":
                s.invert = not u.invert
            else:
                s.sign = -u.sign
            if link:
                s.link = u
                s.slot = None
            if u.kind == "lin":
                if u.holder == "callable":
                    s.buf = "fresh" if link else u.buf
                else:
                    s.buf = "fresh" if link else "na"
            else:
                s.buf = "none" if u.buf == "none" else (u.buf if ub else "stale")
            units.append(s)
        self.make_secondary(units, real, "inverse/link" if link else "inverse")
        self.obs_fields(self.S, "s_")

    def need_secondary(self):
        if self.S is None:
            raise Skip("no secondary")
        return self.S

    def op_s_call(self, op):
        s = self.need_secondary()
        x = torch.tensor([op["x"]], dtype=torch.float32) if "x" in op else self.x
        self.obs_call(s, x, "s_")

    def op_s_update(self, op):
        s = self.need_secondary()
        s.real.update()
        for u in s.units:
            self.refresh_unit(u)
        self.obs_fields(s, "s_")

    def op_s_fields(self, op):
        self.obs_fields(self.need_secondary(), "s_")

    def op_s_unlink_data(self, op):
        s = self.need_secondary()
        if s.composite or s.units[0].link is None:
            raise Skip("not linked")
        u = s.units[0]
        s.real.unlink_()
        if s.real.params is not None:
            raise Violation("unlink_keeps_params", f"params after unlink_() is {type(s.real.params).__name__}")
        new = u.content(op["fill"], u.N)
        s.real.data_(new.clone())
        u.link = None
        u.holder = "buffer"
        u.slot = Slot(Cell(new.clone()))
        u.buf = "none" if u.nonrigid else "na"
        s.last = "unlink_data"
        self.changed("unlink_data")
        self.obs_fields(s, "s_")
        self.obs_call(s, self.x, "s_")
        self.P.last = "s_unlink_data"
        self.obs_call(self.P, self.x, "")

    def op_s_drop(self, op):
        self.S = None

    # ---- rules (generators of ops) ------------------------------------------------------
    @initialize(data=st.data())
    def r_init(self, data):
        self.begin(data.draw(inits(self.FAMILY)))

    def live(self):
        return self.started and not self.dead

    def has(self, pred):
        return self.live() and any(pred(u) for u in self.P.units)

    def unit_only(self, pred=lambda u: True):
        return self.live() and not self.P.composite and pred(self.P.units[0])

    def emit(self, op, data):
        op["probe"] = data.draw(st.sampled_from([True, True, False]))
        self.do(op)

    def draw_target(self, data, pred):
        idx = [i for i, u in enumerate(self.P.units) if pred(u)]
        return data.draw(st.sampled_from(idx))

    @precondition(lambda self: self.live())
    @rule(data=st.data())
    def r_data(self, data):
        i = self.draw_target(data, lambda u: True)
        u = self.P.units[i]
        self.emit({"op": "data_", "target": i, "fill": data.draw(fills(self.D, u.nonrigid)), "N": data.draw(st.sampled_from([1, 1, 1, 2]))}, data)

    @precondition(lambda self: self.live())
    @rule(data=st.data())
    def r_edit(self, data):
        i = data.draw(st.integers(0, len(self.P.units) - 1))
        how = data.draw(st.one_of(
            st.fixed_dictionaries({"kind": st.just("scale"), "c": st.sampled_from([0.5, -1.0, 0.75, 1.25])}),
            st.fixed_dictionaries({"kind": st.just("add"), "key": st.integers(0, 999), "amp": gen.qfloat(0.02, 0.2, 0.01)})))
        self.emit({"op": "edit", "target": i, "how": how}, data)

    @precondition(lambda self: self.has(lambda u: u.cls != "HomogeneousTransform"))
    @rule(data=st.data())
    def r_reset(self, data):
        self.emit({"op": "reset", "target": self.draw_target(data, lambda u: u.cls != "HomogeneousTransform")}, data)

    @precondition(lambda self: self.unit_only(lambda u: u.nonrigid))
    @rule(data=st.data())
    def r_grid(self, data):
        self.emit(self.draw_grid_op(data, "grid_"), data)

    @precondition(lambda self: self.unit_only(lambda u: u.nonrigid))
    @rule(data=st.data())
    def r_grid_b(self, data):  # re-gridding is the expensive-to-reach operation: give it more weight
        self.emit(self.draw_grid_op(data, "grid_"), data)

    @precondition(lambda self: self.unit_only(lambda u: u.dense))
    @rule(data=st.data())
    def r_grid_c(self, data):
        self.emit(self.draw_grid_op(data, "grid_"), data)

    def draw_grid_op(self, data, name):
        op = self.draw_grid_op_(data, name)
        if self.P.units[0].holder == "callable":
            op["fill"] = data.draw(fills(self.D))
        return op

    def draw_grid_op_(self, data, name):
        u = self.P.units[0]
        if u.spline:
            dims = data.draw(st.lists(st.booleans(), min_size=self.D, max_size=self.D).filter(any))
            if max(2 * n - 1 for n in u.grid["size"]) > (40 if self.D == 2 else 20):
                dims = [False] * self.D
                dims[int(np.argmin(u.grid["size"]))] = True
                if max(2 * n - 1 if d else n for n, d in zip(u.grid["size"], dims)) > (40 if self.D == 2 else 20):
                    dims = [False] * self.D  # same size: no subdivision
            return {"op": name, "dims": dims}
        mode = data.draw(st.sampled_from(["any", "related", "related", "ac", "refine"]))
        g = u.grid
        if mode == "any":
            g2 = data.draw(c09_grids(self.D))
        elif mode == "ac":
            g2 = dict(g, ac=not g.get("ac", True))
        elif mode == "refine":
            g2 = dict(g)
            if g.get("ac", True):
                g2["size"] = [2 * n - 1 for n in g["size"]]
                g2["spacing"] = [s / 2 for s in g["spacing"]]
            else:
                g2["size"] = [2 * n for n in g["size"]]
                g2["spacing"] = [s / 2 for s in g["spacing"]]
            if max(g2["size"]) > 24:
                g2 = dict(g, ac=not g.get("ac", True))
        else:  # a grid inside the old domain: shrunk extent, shifted centre, other size/orientation
            inner = data.draw(c09_grids(self.D))
            f = data.draw(gen.qfloat(0.3, 0.9, 0.05))
            ext = min(s * (n - 1) for s, n in zip(g["spacing"], g["size"]))
            g2 = dict(inner)
            # diameter of the new grid <= f * smallest old extent / sqrt(D) keeps it inside for any rotation
            diam = math.sqrt(sum((s * n) ** 2 for s, n in zip(inner["spacing"], inner["size"])))
            sc = f * ext / diam
            g2["spacing"] = [float(f"{s * sc:.4g}") for s in inner["spacing"]]
            g2["center"] = list(g["center"])
        return {"op": name, "grid": g2}

    @precondition(lambda self: self.live())
    @rule(data=st.data())
    def r_condition(self, data):
        c = data.draw(conds())
        self.emit({"op": "condition_", "args": c["args"], "kwargs": c["kwargs"]}, data)

    @rule()
    def r_update(self):
        self.do({"op": "update"})

    @rule(data=st.data())
    def r_call(self, data):
        self.do({"op": "call", "x": data.draw(points(getattr(self, "D", 2)))})

    @rule(which=st.sampled_from(["disp", "tensor"]))
    def r_fields(self, which):
        self.do({"op": which})

    @precondition(lambda self: self.has(lambda u: u.nonrigid))
    @rule(data=st.data())
    def r_clear(self, data):
        self.emit({"op": "clear_buffers"}, data)

    @precondition(lambda self: self.has(lambda u: u.nonrigid))
    @rule(data=st.data())
    def r_edit_then_clear(self, data):
        """optimiser-style in-place step on a refreshed transform followed by explicit invalidation"""
        i = self.draw_target(data, lambda u: u.nonrigid)
        self.do({"op": "update"})
        self.do({"op": "edit", "target": i, "how": {"kind": "add", "key": data.draw(st.integers(0, 999)), "amp": 0.1}, "probe": False})
        self.emit({"op": "clear_buffers"}, data)

    @precondition(lambda self: self.unit_only(lambda u: u.kind == "ddf" and u.holder != "callable"))
    @rule(data=st.data())
    def r_fit(self, data):
        u = self.P.units[0]
        op = {"op": "fit", "fill": data.draw(fills(self.D))}
        if data.draw(st.booleans()):
            op["grid"] = data.draw(c09_grids(self.D))
        self.emit(op, data)

    @precondition(lambda self: self.unit_only(lambda u: u.kind == "ddf" and u.holder != "callable"))
    @rule(data=st.data())
    def r_fit_b(self, data):
        self.emit({"op": "fit", "fill": data.draw(fills(self.D))}, data)

    @precondition(lambda self: self.unit_only())
    @rule(data=st.data())
    def r_copy(self, data):
        self.emit({"op": "copy"}, data)

    @precondition(lambda self: self.unit_only(lambda u: u.nonrigid and u.holder == "buffer" or (u.nonrigid and u.holder == "parameter" and not f9_open())))
    @rule(data=st.data())
    def r_grid_copy(self, data):
        self.do(self.draw_grid_op(data, "grid_copy"))

    @precondition(lambda self: self.unit_only())
    @rule(data=st.data())
    def r_cond_copy(self, data):
        c = data.draw(conds())
        op = {"op": "cond_copy", "args": c["args"], "kwargs": c["kwargs"]}
        if data.draw(st.sampled_from([False, False, True])):
            op["via"] = "transformer"
        self.do(op)

    @precondition(lambda self: self.live() and all(u.kind in ("lin", "svf", "svffd") and u.cls != "HomogeneousTransform" for u in self.P.units))
    @rule(link=st.booleans(), ub=st.booleans())
    def r_inverse(self, link, ub):
        if link and f9_open() and any(u.holder == "parameter" for u in self.P.units):
            link = False
        self.do({"op": "inverse", "link": link, "update_buffers": ub})

    @precondition(lambda self: self.live() and self.S is None and self.FAMILY in ("linked", "composite") and all(
        u.kind in ("lin", "svf", "svffd") and u.cls != "HomogeneousTransform" for u in self.P.units))
    @rule(ub=st.booleans())
    def r_inverse_b(self, ub):
        link = not (f9_open() and any(u.holder == "parameter" for u in self.P.units))
        self.do({"op": "inverse", "link": link, "update_buffers": ub})

    @precondition(lambda self: self.live() and self.S is not None and self.FAMILY == "linked")
    @rule(data=st.data())
    def r_s_call_b(self, data):
        self.do({"op": "s_call", "x": data.draw(points(self.D))})

    @precondition(lambda self: self.live() and self.S is not None)
    @rule(data=st.data())
    def r_s_call(self, data):
        self.do({"op": "s_call", "x": data.draw(points(self.D))})

    @precondition(lambda self: self.live() and self.S is not None)
    @rule()
    def r_s_update(self):
        self.do({"op": "s_update"})

    @precondition(lambda self: self.live() and self.S is not None)
    @rule()
    def r_s_fields(self):
        self.do({"op": "s_fields"})

    @precondition(lambda self: self.live() and self.S is not None and not self.S.composite and self.S.units[0].link is not None)
    @rule(data=st.data())
    def r_s_unlink(self, data):
        u = self.S.units[0]
        self.do({"op": "s_unlink_data", "fill": data.draw(fills(self.D, u.nonrigid))})


def _family(name):
    return type("C09" + name.capitalize(), (C09Machine,), {"FAMILY": name})


MACHINES = {f: _family(f) for f in ("dense", "spline", "callable", "linked", "composite")}


def _runner(f):
    def run(case):
        m = replay_machine(MACHINES[f], case)
        return {"nontrivial": m.nt, "ratio": m.maxratio, "labels": m.run_labels()}

    return run


def replay_machine(cls, case):
    m = cls.__new__(cls)
    C09Machine.__init__(m)
    m.ctx = None
    m.init_case = case["init"]
    m.start(case["init"])
    m.started = True
    for op in case["steps"]:
        m.steps.append(op)
        try:
            m.apply(op)
        except Skip:
            m.steps.pop()
    return m


RULE = ("init: family member, grid (D, size, spacing, centre, rotation/permutation/reflection, align_corners), constructor "
        "options, holder (buffer/Parameter/callable), content (world-affine, hash-noise, constant); steps: rules drawn by "
        "Hypothesis with state-dependent arguments; non-trivial = >= 2 state-changing operations of different kinds "
        "precede a compared observation")

FACETS = [
    Facet("dense", _runner("dense"), machine=make_machine(MACHINES["dense"]), rule=RULE, quick=80, thorough=1000,
          quick_steps=20, thorough_steps=30, shards=8, quick_shards=1),
    Facet("spline", _runner("spline"), machine=make_machine(MACHINES["spline"]), rule=RULE, quick=50, thorough=600,
          quick_steps=20, thorough_steps=30, shards=8, quick_shards=1),
    Facet("callable", _runner("callable"), machine=make_machine(MACHINES["callable"]), rule=RULE, quick=70, thorough=1000,
          quick_steps=20, thorough_steps=30, shards=8, quick_shards=1),
    Facet("linked", _runner("linked"), machine=make_machine(MACHINES["linked"]), rule=RULE, quick=80, thorough=1000,
          quick_steps=20, thorough_steps=30, shards=8, quick_shards=1),
    Facet("composite", _runner("composite"), machine=make_machine(MACHINES["composite"]), rule=RULE, quick=60, thorough=600,
          quick_steps=20, thorough_steps=30, shards=8, quick_shards=1),
]
