"""C09 - A transform evaluates its current parameters and grid, never a stale snapshot.

Model-based (stateful) check.  One rule-based machine drives a real deepali transform (the
*primary* P) - and optionally a transform derived from it (the *secondary* S: shallow copy,
`grid(g)` / `condition(...)` / `unlink()` copy, inverse, linked inverse, another transform linked to P
by `link()` / `link_()`) and a transform derived from S (the *tertiary* T: link to a linked transform,
copy / inverse / unlinked copy of a linked transform) - through a generated history of replacing,
in-place, re-gridding, re-conditioning, resetting, updating and observing operations.  Derived transforms are also
`data(arg)` copies, a SequentialTransform built around the transform (which shares the member OBJECT) and the inverse of
that wrapper; the inverse is also taken through the convenience property `.inv`.
Next to the real objects it keeps a plain-python MODEL of what each transform *holds*:

    (class, constructor options, grid descriptor, parameter VALUE (own clone, with the identity of
     the tensor object: `Cell`), the parameter container entry shared by shallow copies of a
     Parameter-held transform (`Slot`), the transform it is linked to and the tensor object its
     buffer `p` refers to, conditioning arguments, invert flag, state of the cached buffers)

A LINKED transform "directly copies the parameters from the linked transformation" (link_): at every
update()/call it must use what the partner's data() returns then - the partner's CURRENT tensor, also
after the partner replaced it (data_, setters, fit, unlink_ + data_) - not the tensor that was current
when the link was made.  Scenario rules (link -> optional use -> replacement -> use of the linked
transform; the same with a chain / copy of the linked transform) make these histories frequent.

ORACLE (fresh-twin differential): at every compared observation a twin is built through the
constructor only from the model (`cls(make_grid(model.grid), params=model.value.clone(), **opts)`),
shares no history with the object under test, and must agree with it on generated points
(`t(x)`), and - right after the replacing/resetting operations `data_`, `reset_parameters`,
`grid_`, `condition_`, `fit` - on `tensor()` / `disp()` without an intervening call.  After an
in-place edit the cached fields are only compared again after `update()`, a call, or an operation
that clears the buffers (documented contract of `SpatialTransform.update`).

Whether the new state is LOOKED AT directly after a replacing / resetting / deriving operation is part of the generated
history (`observe`: tensor()+disp(), one read path, the public buffers only, or nothing).  A state "buffers cleared,
nothing recomputed" therefore persists into the following operations - in particular into the derivation of inverses
(`inverse(link, update_buffers=True)` exponentiates the buffered velocity field `v` of the source), copies and wrappers -
and every transform under test is read through every path: a call, a call through a PointSetTransformer, `tensor()`,
`disp()`, `flow()`, `points(x)` (none of the last four runs the pre-forward hook) and the public buffers `u` / `v`
(if they exist while the cached state is defined, they hold the field of the current parameters).

Re-gridding is checked against an independent float64 model: the expected parameters of a dense
model on the new grid are the multilinear interpolation (vlib.ref.interp) of the old parameters at
the new sample positions computed with vlib.ref.GridModel, converted between the unit cubes of the
two grids; this is exact (<= 64 eps32 * scale) for world-affine fields and carries the derived
coordinate-rounding term for other content.  Spline subdivision is compared at the coincident
sample points (every second sample) of `tensor()` (FFD) / buffer `v` (SVFFD).
"""
from __future__ import annotations

import copy as _copy
import math

import numpy as np
import torch
from hypothesis import strategies as st
from hypothesis.stateful import initialize, precondition, rule

from vlib import gen, ref
from vlib.case import hash_noise, make_grid
from vlib.core import EPS32, Facet, Skip, Violation, check_close
from vlib.findings import Known
from vlib.stateful import VMachine, make_machine

PROPERTY = "C09"
MANIFEST = {
    "text": "Model-based state-machine search (Hypothesis RuleBasedStateMachine, five machine families, plus a list-of-operations "
            "facet for GenericSpatialTransform) over histories of data_ (same / other batch size), the public setters offset_ / "
            "angles_ / scales_ / matrix_, in-place edits of parameters or of the tensor a parameter callable (function or "
            "torch.nn.Module) closes over, grid_ (dense re-gridding to arbitrary grids incl. align_corners-only changes, B-spline "
            "subdivision), condition_, reset_parameters, update, call (also through a PointSetTransformer), disp/tensor/flow/"
            "points and the public buffers u/v, clear_buffers, fit, unlink_ + data_, "
            "construction without parameters (params=None) with later assignment, shallow copies, grid(g)/condition(...)/unlink() "
            "copies (also through SpatialTransformer), data(arg) copies, inverse(link, update_buffers) and the property .inv, a "
            "SequentialTransform built around the transform (sharing the member object) and its inverse, link()/link_() of "
            "another transform of "
            "the same type (own tensor / Parameter / callable / no parameters, buffers already computed or not, other grid of "
            "the same size), and of transforms derived from a derived transform (link to a linked transform, copy / inverse / "
            "unlinked copy of a linked transform) for displacement/velocity fields (stride, resize, steps, scale), FFD/SVFFD "
            "(stride, transpose), linear transforms (Translation, EulerRotation, AnisotropicScaling, HomogeneousTransform) held "
            "as plain tensor, Parameter or callable, and sequential composites of these incl. composites containing a linked "
            "member.  After each step the transform under test - primary, derived (S) and derived-from-derived (T) - must agree "
            "with a twin built freshly through the constructor from the modelled parameters/grid/conditioning: a LINKED "
            "transform must use what its partner's data() returns at that moment (the partner's current tensor, also after it "
            "was replaced), a shallow copy of a Parameter-held transform the Parameter in the shared container; right after "
            "replacing/resetting operations also tensor()/disp()/flow()/points() without a call.  Whether the new state is "
            "looked at directly after such an operation is generated, so inverses (update_buffers=True / .inv), copies and "
            "wrappers are also derived while the buffers are cleared and nothing has been recomputed, and are then read "
            "without having been called; buffers u / v that exist while the cached state is defined (after a clearing "
            "operation or an update) must hold the field of the current parameters; re-gridding is compared with an independent "
            "float64 interpolation model and spline subdivision at coincident samples.  GenericSpatialTransform: the members "
            "hold the prediction assigned by the last update()/call, its linked inverse uses exactly those, its unlinked "
            "inverse its own prediction.  Exploration, not proof: histories of <= 20 (quick) / 30 (thorough) rule applications "
            "(scenario rules emit up to 6 operations) on small grids.",
    "note": "Trusted: the python model of what a transform holds (value cells with object identity, aliasing of shallow copies "
            "as documented in SpatialTransform.__copy__: shared container of Parameters, own container of buffers; link "
            "semantics as documented in ParametricTransform.link_/inverse/has_parameters), vlib.ref.GridModel and "
            "vlib.ref.interp (float64 numpy, self-tested on a world-affine field), deepali constructors and forward evaluation "
            "of a fresh object (checked by C06/C11/C14).  K5 is routed around only while listed.",
    "technique": "property-based testing (Hypothesis, stateful/model-based) with a fresh-twin differential oracle and a "
                 "float64 reference model for re-gridding",
}
ASSUMPTIONS = [
    "grids: D in {2,3}, sizes 3..9 (3-D: 3..6; up to 24 after refinement), spacing in [0.2, 5] (>= 0.02 after repeated "
    "re-gridding to grids inside the old domain), |center| <= 50, rotated/anisotropic included; "
    "parameters are float32, amplitudes <= 0.3 cube units (scaling factors in [0.4, 1.6])",
    "after an in-place edit tensor()/disp() are only compared after update(), a call, or a buffer-clearing operation "
    "(SpatialTransform.update docstring); the same holds for a linked transform / a copy sharing a Parameter after its partner "
    "replaced the parameters (its CALL is always compared)",
    "a transform linked to a transform that is itself linked (chain) reads the intermediate transform's buffered parameters; "
    "its value is only compared while the intermediate transform is up to date with the root (after its update()/call), since "
    "link_ documents a copy of the partner's (buffered) parameters and following the chain to the root would be an equally "
    "defensible reading",
    "a transform linked to a partner with callable parameters uses the partner's last prediction (link_/inverse docstrings: "
    "'will not recompute', 'directly access the parameters')",
    "dense re-gridding is compared at new samples lying >= 1e-3 samples inside the old sample hull (outside, the "
    "extrapolation rule is not part of the property); the verified parameters are then adopted by the model",
    "B-spline subdivision: the model adopts the subdivided coefficients after the coincident-sample comparison",
    "reset_parameters() with callable parameters is modelled as writing the identity parameters into the buffered prediction "
    "until the next update (for non-rigid models the cleared buffers make tensor() predict again); HomogeneousTransform is "
    "not inverted (matrix inversion / singular matrices are not part of this property)",
    "derived transforms are dropped from observation when the primary changes its grid, and - for shallow copies sharing the "
    "Parameter container - when the primary is unlinked in place; a Parameter is not assigned to a transform that held a plain "
    "tensor / callable / nothing while an UNLINKED shallow copy of it is observed (which object `params` of such a copy "
    "resolves to afterwards is a torch.nn.Module lookup-order detail, not documented behaviour); LINKED transforms must keep "
    "following their partner across such a change (finding N09-7)",
    "data(arg) copies are generated for tensor- / Parameter-held unlinked transforms only, data(arg) of linked / Module-held "
    "transforms is left to C07 (finding N07-2); the convenience property `.inv` ('x = transform.inv(y)', no caveat about "
    "update()) is modelled as inverse(link=True, update_buffers=True): derived from a transform whose buffers are up to date "
    "it must be readable through tensor()/disp()/flow()/points() at once, like that inverse",
    "an inverse created with update_buffers=False from a transform that has buffers, and any derived transform whose source "
    "was edited in place and not updated, is only compared after its own update() / call (inverse docstring: 'update() "
    "... has to be called before it is used'); its accessors are exercised but not compared before that",
    "public buffers: `u` / `v` are compared only if they exist (NonRigidTransform.update: u required, v optional) and only "
    "while the cached state is defined by the contract - after an operation that clears the buffers (clear_buffers: 'clear "
    "any buffers that are registered by update()') or after update() / a call; absence is never a violation",
    "after grid_() of a transform with callable parameters to ANOTHER grid the new state is always looked at (the buffered "
    "prediction keeps the size of the old grid until the transform predicts again; nothing is derived from it before)",
    "the SequentialTransform wrapper is built on the grid of the wrapped transform and dropped with the other derived "
    "transforms when that changes its grid; PointSetTransformer is used with its default domain arguments and compared "
    "with a PointSetTransformer around the twin",
    "GenericSpatialTransform: the constructor passes scaling_and_squaring_steps on to an SVF only (SVFFD keeps the default "
    "number of steps) - modelled as implemented, not asserted; flip_grid_coords only without a rotation member",
    "grids whose reshape to the strided parameter grid trips the Grid._resize assertion (F19, property C03) are not used "
    "with stride != 1 and batches are not re-gridded while FlowFields.sample(grid) truncates them (F21) - both probed at run "
    "time, inactive on a tree with those fixes",
]

K = 64.0
TWIN_K = 16.0  # twin and object run the same float32 code on bit-identical inputs
AMP = 0.3


def _sp():
    import deepali.spatial as S

    return S


# =======================================================================================
# reference geometry helpers (float64, no deepali)


def stride_tuple(stride, D):
    if isinstance(stride, (int, float)):
        return (float(stride),) * D
    return tuple(float(s) for s in stride) + (1.0,) * (D - len(stride))


def dense_data_desc(g: dict, stride) -> dict:
    """Descriptor of the sampling grid of the parameters of a dense model (documented: same extent;
    corners aligned if align_corners else edges aligned; size ceil(n / stride))."""
    D = len(g["size"])
    st_ = stride_tuple(stride, D)
    n = [int(v) for v in g["size"]]
    n2 = [int(math.ceil(n[i] / st_[i])) for i in range(D)]
    sp = []
    for i in range(D):
        if g.get("ac", True):
            sp.append(g["spacing"][i] * (n[i] - 1) / (n2[i] - 1) if n2[i] > 1 else g["spacing"][i])
        else:
            sp.append(g["spacing"][i] * n[i] / n2[i])
    d = dict(g)
    d["size"] = n2
    d["spacing"] = sp
    return d


def same_desc(a: dict, b: dict) -> bool:
    """Do two grid descriptors describe the same grid (the 'kind' entry is only a label of the generator)?"""
    strip = lambda g: {k: v for k, v in g.items() if k != "kind"}
    return strip(a) == strip(b)


def cube_name(g: dict) -> str:
    return "cube_corners" if g.get("ac", True) else "cube"


def world_to_cube_linear(g: dict) -> np.ndarray:
    m = ref.GridModel.from_desc(g)
    D = m.D
    return m.matrix("world", cube_name(g))[:D, :D]


def regrid_expected(P: np.ndarray, g_old: dict, dg_old: dict, g_new: dict, dg_new: dict):
    """Expected parameters (N, D, ...) of a dense model on the new grid + validity mask + bound scale.

    P are vectors in unit-cube units of g_old sampled on dg_old.  Returns (E, mask, cond_idx, maxdiff).
    """
    D = len(g_old["size"])
    mo = ref.GridModel.from_desc(dg_old)
    mn = ref.GridModel.from_desc(dg_new)
    xw = mn.world_points()  # (..., X, D)
    idx = mo.points(xw, "world", "grid")
    n_old = np.array(dg_old["size"], dtype=np.float64)
    margin = 1e-3
    mask = np.all((idx >= margin) & (idx <= n_old - 1 - margin), axis=-1)
    val = ref.interp(P, idx, "linear", "border")  # (N, D, ...)
    M = world_to_cube_linear(g_new) @ np.linalg.inv(world_to_cube_linear(g_old))
    E = np.einsum("ij,nj...->ni...", M, val)
    cond_idx = mo.cond("world", "grid", xw.reshape(-1, D))
    maxdiff = 0.0
    for ax in range(D):
        if P.shape[2 + ax] > 1:
            maxdiff += float(np.abs(np.diff(P, axis=2 + ax)).max())
    return E, mask, cond_idx, maxdiff, float(np.abs(M).sum(1).max())


def selftest():
    """The re-gridding reference reproduces a world-affine field exactly (float64) on rotated/anisotropic grids,
    both conventions, with stride - independent of deepali."""
    g1 = {"size": [7, 5], "spacing": [1.5, 0.7], "center": [10.0, -4.0], "rot": [0.4], "perm": [0, 1], "flip": [1, 1], "ac": True}
    fill = {"kind": "affine", "A": [0.1, -0.2, 0.05, 0.15], "b": [0.05, -0.02, 0.0], "c0": [9.0, -3.0, 0.0]}
    for ac1 in (True, False):
        for ac2 in (True, False):
            a = dict(g1, ac=ac1)
            b = {"size": [4, 6], "spacing": [0.4, 0.3], "center": [10.2, -3.9], "rot": [-1.1], "perm": [1, 0], "flip": [1, -1], "ac": ac2}
            da, db = dense_data_desc(a, 2), dense_data_desc(b, [1.5])
            P = fill_tensor(fill, 2, 2, tuple(reversed(da["size"])), a, da).double().numpy()
            E, mask, _, _, _ = regrid_expected(P, a, da, b, db)
            if not mask.all():
                raise AssertionError("selftest grid is not inside the old sample hull")
            # the offset of the affine content is generated relative to the extent of its own grid: rescale it
            ea, eb = (float(np.abs(np.array(g["spacing"]) * np.array(g["size"])).max()) for g in (a, b))
            fill_b = dict(fill, b=[v * ea / eb for v in fill["b"]])
            want = fill_tensor(fill_b, 2, 2, tuple(reversed(db["size"])), b, db).double().numpy()
            if np.abs(E - want).max() > 1e-6:  # content is rounded to float32
                raise AssertionError(f"regrid reference differs from the affine closed form by {np.abs(E - want).max()}")


def spline_ctrl_shape(size, stride) -> tuple:
    # number of coefficients per axis required by deepali (input validity, not an oracle): floor(n / s) + 3,
    # one more if s does not divide n; returned in tensor order (..., X)
    return tuple(int(n) // int(s) + 3 + (1 if int(n) % int(s) else 0) for n, s in zip(reversed(size), reversed(stride)))


# =======================================================================================
# tensor content (closed form, from the case)


def fill_tensor(fill: dict, N: int, D: int, shape: tuple, g: dict = None, dg: dict = None) -> torch.Tensor:
    """(N, D, *shape) float32 content in unit-cube units of grid g."""
    kind = fill["kind"]
    full = (N, D) + tuple(shape)
    if kind == "const":
        v = np.array(fill["v"][:D], dtype=np.float64).reshape((1, D) + (1,) * len(shape))
        out = np.broadcast_to(v, full) * np.arange(1, N + 1).reshape((N,) + (1,) * (len(shape) + 1))
    elif kind == "noise":
        out = hash_noise(full, key=int(fill["key"]), lo=-float(fill["amp"]), hi=float(fill["amp"]))
    elif kind == "ramp":  # linear in the sample index along each axis
        out = np.zeros(full)
        for ax in range(len(shape)):
            n = shape[ax]
            r = (np.arange(n) / max(n - 1, 1) - 0.5).reshape((1, 1) + tuple(n if a == ax else 1 for a in range(len(shape))))
            c = np.array(fill["c"][ax * D:(ax + 1) * D], dtype=np.float64).reshape((1, D) + (1,) * len(shape))
            out = out + r * c
        out = out * np.arange(1, N + 1).reshape((N,) + (1,) * (len(shape) + 1))
    elif kind == "affine":  # world-affine displacement u(x) = A (x - c0) + b, expressed in cube units of g
        m = ref.GridModel.from_desc(dg)
        xw = m.world_points()
        ext = float(np.abs(np.array(g["spacing"]) * np.array(g["size"])).max())
        A = np.array(fill["A"], dtype=np.float64).reshape(D, D)
        b = np.array(fill["b"][:D], dtype=np.float64) * ext
        uw = (xw - np.array(fill["c0"][:D], dtype=np.float64)) @ A.T + b
        uc = uw @ world_to_cube_linear(g).T
        one = np.moveaxis(uc, -1, 0)
        out = np.stack([one / (i + 1) for i in range(N)], 0)
    else:
        raise ValueError(kind)
    return torch.tensor(np.ascontiguousarray(out), dtype=torch.float32)


def vec_tensor(v, N, shape) -> torch.Tensor:
    n = int(np.prod(shape))
    a = np.array([v[i % len(v)] * (1 + i // len(v)) for i in range(n)], dtype=np.float64).reshape(shape)
    out = np.stack([a / (i + 1) for i in range(N)], 0)
    return torch.tensor(out, dtype=torch.float32)


# =======================================================================================
# model


class Cell:
    """A tensor object as the model sees it: `value` is the model's own clone."""

    def __init__(self, value: torch.Tensor, valid: bool = True):
        self.value = value
        self.valid = valid  # False: placeholder without batch dimension (link_ to a transform without parameters)


class Slot:
    """A parameter container entry; shallow copies of Parameter-held transforms share it."""

    def __init__(self, cell: Cell):
        self.cell = cell


class Net:
    """Callable parameters: closure over a tensor, function of the conditioning arguments."""

    def __init__(self, base: torch.Tensor, w1: torch.Tensor, w2: torch.Tensor):
        self.base, self.w1, self.w2 = base, w1, w2
        self.calls = 0

    def __call__(self, *args, **kwargs):
        self.calls += 1
        a = sum(float(x) for x in args)
        k = float(kwargs.get("k", 0.0))
        return self.base + a * self.w1 + k * self.w2


class NetModule(torch.nn.Module):
    """Callable parameters given as a torch.nn.Module (registered as child module 'params' of the transform)."""

    def __init__(self, base: torch.Tensor, w1: torch.Tensor, w2: torch.Tensor):
        super().__init__()
        self.base, self.w1, self.w2 = base, w1, w2
        self.calls = 0

    def forward(self, *args, **kwargs):
        self.calls += 1
        a = sum(float(x) for x in args)
        k = float(kwargs.get("k", 0.0))
        return self.base + a * self.w1 + k * self.w2


LINEAR = ("Translation", "EulerRotation", "HomogeneousTransform", "AnisotropicScaling")
LINEAR_CALLABLE = ("Translation", "EulerRotation", "HomogeneousTransform")
SETTERS = {"Translation": "offset_", "EulerRotation": "angles_", "HomogeneousTransform": "matrix_", "AnisotropicScaling": "scales_"}
CLS = {"ddf": "DisplacementFieldTransform", "svf": "StationaryVelocityFieldTransform",
       "ffd": "FreeFormDeformation", "svffd": "StationaryVelocityFreeFormDeformation"}


class Unit:
    """Model of one elementary transform (+ handle `real` of the deepali object, if it has one)."""

    def __init__(self, spec: dict, grid: dict):
        self.kind = spec["kind"]  # ddf | svf | ffd | svffd | lin
        self.cls = CLS.get(self.kind) or spec["cls"]
        self.opts = dict(spec.get("opts", {}))
        self.holder = spec["holder"]  # buffer | parameter | callable
        self.grid = grid
        self.D = len(grid["size"])
        self.N = int(spec.get("N", 1))
        self.slot = None
        self.net = None  # real callable
        self.net_model = None  # Cell with the model's clone of net.base
        self.link = None  # Unit this one is linked to
        self.cond = ([], {})
        self.invert = False
        self.sign = 1.0
        self.buf = "na"
        self.pref = None  # Cell the buffer `p` refers to (callable-held and linked transforms)
        self.real = None
        self.regrid = False

    @property
    def pval(self):
        return self.pref.value

    # -- shapes ---------------------------------------------------------------------------
    @property
    def nonrigid(self):
        return self.kind != "lin"

    @property
    def dense(self):
        return self.kind in ("ddf", "svf")

    @property
    def spline(self):
        return self.kind in ("ffd", "svffd")

    def data_desc(self, grid=None):
        return dense_data_desc(grid or self.grid, self.opts.get("stride", 1))

    def data_shape(self, grid=None) -> tuple:
        g = grid or self.grid
        D = self.D
        if self.dense:
            return (D,) + tuple(reversed(self.data_desc(g)["size"]))
        if self.spline:
            return (D,) + spline_ctrl_shape(g["size"], self.opts["stride"])
        if self.cls == "Translation":
            return (D,)
        if self.cls == "EulerRotation":
            return (1 if D == 2 else 3,)
        if self.cls == "HomogeneousTransform":
            return (D, D + 1)
        if self.cls == "AnisotropicScaling":
            return (D,)
        raise ValueError(self.cls)

    def content(self, fill: dict, N: int, grid=None) -> torch.Tensor:
        g = grid or self.grid
        shp = self.data_shape(g)
        if self.nonrigid:
            if self.spline and fill["kind"] == "affine":
                fill = {"kind": "ramp", "c": [fill["A"][i % len(fill["A"])] for i in range(self.D * self.D)]}
            return fill_tensor(fill, N, self.D, shp[1:], g, self.data_desc(g) if self.dense else None)
        v = vec_tensor(fill["v"], N, shp)
        if self.cls == "HomogeneousTransform":
            v = v + torch.eye(self.D, self.D + 1).unsqueeze(0)
        if self.cls == "AnisotropicScaling":
            v = v + 1.0  # scaling factors (|v| <= 2 AMP: factors stay in [0.4, 1.6])
        return v

    def reset_tensor(self, like: torch.Tensor) -> torch.Tensor:
        """Parameters of the identity transform, which reset_parameters() writes (in place)."""
        if self.cls == "AnisotropicScaling":
            return torch.ones_like(like)
        if self.cls == "HomogeneousTransform":
            return torch.eye(self.D, self.D + 1).expand_as(like).clone()
        return torch.zeros_like(like)

    # -- values ---------------------------------------------------------------------------
    def net_eval(self) -> torch.Tensor:
        a = sum(float(x) for x in self.cond[0])
        k = float(self.cond[1].get("k", 0.0))
        return self.net_model.value + a * self.net.w1 + k * self.net.w2

    def data_cell(self) -> Cell:
        """The tensor object `data()` of this transform returns: its parameter tensor, or - with callable parameters
        or a link - the buffered tensor `p` (documented: "Get (buffered) transformation parameters")."""
        if self.link is None and self.holder != "callable":
            return self.slot.cell
        return self.pref

    def current(self) -> torch.Tensor:
        """Parameter value the transform holds now (what a call must use).

        A linked transform "directly copies the parameters from the linked transformation" (link_), i.e. what the
        partner's data() returns at that moment: the partner's CURRENT parameter tensor, or the partner's buffered
        prediction when the partner has callable parameters / is itself linked."""
        if self.link is not None:
            return self.link.data_cell().value
        if self.holder == "callable":
            return self.net_eval()
        return self.slot.cell.value

    def settled(self) -> bool:
        """Is the value a call must use defined by the documentation?  Not for a chain of links whose intermediate
        transform has not been updated since the root changed: link_ documents a copy of the partner's (buffered)
        parameters, following the chain to the root would be an equally defensible reading."""
        q = self.link
        if q is None or q.link is None:
            return True
        return q.pref is q.link.data_cell() and q.settled()

    def has_parameters(self) -> bool:
        """Documented in ParametricTransform.has_parameters: a linked transform follows the link."""
        return self.link.has_parameters() if self.link is not None else self.holder == "parameter"

    def batch(self) -> int:
        return int(self.current().shape[0])

    def observable(self):
        """Value that tensor()/disp() must reflect without a call; None = not defined by the contract."""
        if not self.settled():
            return None
        if self.buf in ("na", "none", "fresh"):
            return self.current()
        if self.buf == "zero":
            return self.reset_tensor(self.pval)
        return None

    def refreshed(self) -> bool:
        """Model effect of update() / a call.  Returns whether data() now returns another tensor object."""
        old = self.pref
        if self.link is not None:
            self.pref = self.link.data_cell()
        elif self.holder == "callable":
            self.pref = Cell(self.net_eval().clone())
        if self.buf != "na":
            self.buf = "fresh"
        return self.pref is not old

    # -- construction ---------------------------------------------------------------------
    def ctor_opts(self) -> dict:
        o = {}
        if self.dense:
            o["stride"] = self.opts.get("stride", 1)
            o["resize"] = self.opts.get("resize", True)
        if self.spline:
            o["stride"] = tuple(self.opts["stride"])
            o["transpose"] = self.opts.get("transpose", False)
        if self.kind in ("svf", "svffd"):
            sc = self.opts.get("scale")
            o["scale"] = sc if self.sign > 0 else -(1.0 if sc is None else sc)
            o["steps"] = self.opts.get("steps")
        if self.cls == "EulerRotation" and self.opts.get("order"):
            o["order"] = self.opts["order"]
        return o

    def build(self, value: torch.Tensor = None, holder: str = None):
        """Construct a deepali transform from the model through the constructor only."""
        S = _sp()
        holder = holder or self.holder
        cls = getattr(S, self.cls)
        if holder == "callable":
            params = self.net
        elif holder == "parameter":
            params = torch.nn.Parameter(value.clone())
        else:
            params = value.clone()
        t = cls(make_grid(self.grid), params=params, **self.ctor_opts())
        if self.kind == "lin" and self.invert:
            t.invert = True
        return t

    def twin(self, value: torch.Tensor):
        return self.build(value, holder="parameter" if self.has_parameters() else "buffer")

    def derive(self) -> "Unit":
        """Model of a shallow copy (documented in SpatialTransform.__copy__)."""
        u = Unit.__new__(Unit)
        u.__dict__ = dict(self.__dict__)
        u.opts = dict(self.opts)
        u.cond = (list(self.cond[0]), dict(self.cond[1]))
        u.real = None
        if self.holder == "buffer" and self.link is None and self.slot is not None:
            u.slot = Slot(self.slot.cell)  # own container, same tensor object
        return u


# =======================================================================================
# strategies (all content small and explicit)


def c09_grids(D, ac=None, max3=6, max2=9):
    mx = max2 if D == 2 else max3
    return gen.grids(D, min_size=3, max_size=mx, mag=50.0, spacing_lo=0.2, spacing_hi=5.0, ac=ac).map(_fix_sizes)


def _fix_sizes(g):
    g = dict(g)
    g["size"] = [max(3, int(n)) for n in g["size"]]
    return g


def fills(D, nonrigid=True):
    q = gen.qfloat
    const = st.fixed_dictionaries({"kind": st.just("const"), "v": st.lists(q(-AMP, AMP, 0.01), min_size=3, max_size=3)})
    if not nonrigid:
        return st.fixed_dictionaries({"kind": st.just("vec"), "v": st.lists(q(-AMP, AMP, 0.01), min_size=2, max_size=4)})
    noise = st.fixed_dictionaries({"kind": st.just("noise"), "key": st.integers(0, 999), "amp": q(0.02, AMP, 0.01)})
    affine = st.fixed_dictionaries({"kind": st.just("affine"),
                                    "A": st.lists(q(-0.2, 0.2, 0.01), min_size=D * D, max_size=D * D),
                                    "b": st.lists(q(-0.1, 0.1, 0.01), min_size=3, max_size=3),
                                    "c0": st.lists(q(-50, 50, 0.5), min_size=3, max_size=3)})
    return st.one_of(affine, noise, affine, const)


def conds():
    a = st.lists(gen.qfloat(-1, 1, 0.05), min_size=0, max_size=2)
    k = st.one_of(st.just({}), st.fixed_dictionaries({"k": gen.qfloat(-1, 1, 0.05)}))
    return st.tuples(a, k).filter(lambda c: c[0] or c[1]).map(lambda c: {"args": c[0], "kwargs": c[1]})


def points(D):
    return gen.point_lists(D, -1.1, 1.1, min_n=1, max_n=5, step=0.01)


@st.composite
def unit_specs(draw, kind, D, in_composite=False, classes=LINEAR):
    spec = {"kind": kind}
    if kind in ("ddf", "svf"):
        spec["opts"] = {"stride": draw(st.sampled_from([1, 1, 2, 1.5, [2, 1]])), "resize": draw(st.booleans())}
    if kind in ("ffd", "svffd"):
        spec["opts"] = {"stride": draw(st.lists(st.integers(1, 3), min_size=D, max_size=D)), "transpose": draw(st.booleans())}
    if kind in ("svf", "svffd"):
        spec["opts"]["scale"] = draw(st.sampled_from([None, 1.0, 0.5, -1.0]))
        spec["opts"]["steps"] = draw(st.integers(0, 3))
    if kind == "lin":
        spec["cls"] = draw(st.sampled_from(classes))
        spec["opts"] = {}
        if spec["cls"] == "EulerRotation" and D == 3:
            spec["opts"]["order"] = draw(st.sampled_from([None, "ZXZ", "XYZ"]))
    spec["holder"] = draw(st.sampled_from(["buffer", "parameter"]))
    spec["N"] = draw(st.sampled_from([1, 1, 1, 2]))
    spec["fill"] = draw(fills(D, nonrigid=kind != "lin"))
    return spec


@st.composite
def callable_specs(draw, D, kind="lin", classes=LINEAR_CALLABLE):
    spec = draw(unit_specs(kind, D, classes=classes))
    spec["holder"] = "callable"
    q = gen.qfloat
    spec["net"] = {"w1": draw(st.lists(q(-AMP, AMP, 0.01), min_size=2, max_size=3)),
                   "w2": draw(st.lists(q(-AMP, AMP, 0.01), min_size=2, max_size=3)),
                   "module": draw(st.sampled_from([False, False, True]))}  # plain callable or torch.nn.Module
    return spec


@st.composite
def inits(draw, family):
    D = draw(gen.dims())
    init = {"family": family, "x": draw(points(D))}
    if family == "dense":
        init["grid"] = draw(c09_grids(D))
        kind = draw(st.sampled_from(["ddf", "svf"]))
        init["units"] = [draw(callable_specs(D, kind)) if draw(st.integers(0, 2)) == 0 else draw(unit_specs(kind, D))]
    elif family == "spline":
        init["grid"] = draw(c09_grids(D, ac=True, max3=5, max2=8))
        kind = draw(st.sampled_from(["ffd", "svffd"]))
        init["units"] = [draw(callable_specs(D, kind)) if draw(st.integers(0, 2)) == 0 else draw(unit_specs(kind, D))]
    elif family == "callable":
        init["grid"] = draw(c09_grids(D))
        init["units"] = [draw(callable_specs(D))]
    elif family == "linked":
        kind = draw(st.sampled_from(["lin", "lin", "svf", "svffd", "call"]))
        init["grid"] = draw(c09_grids(D, ac=True if kind == "svffd" else None, max3=5, max2=8))
        init["units"] = [draw(callable_specs(D)) if kind == "call" else draw(unit_specs(kind, D))]
        if kind != "call":
            u0 = init["units"][0]
            u0["holder"] = draw(st.sampled_from(["buffer", "parameter"]))
            if u0.get("cls") != "HomogeneousTransform":
                # constructed without parameters (params=None), optionally linked, parameters assigned afterwards
                u0["late"] = draw(st.sampled_from(["no", "no", "no", "data", "link"]))
    elif family == "composite":
        pool = draw(st.sampled_from([["lin", "call", "ddf", "svf", "ffd", "svffd"], ["lin", "call", "svf", "svffd"]]))
        kinds = draw(st.lists(st.sampled_from(pool), min_size=2, max_size=3))
        init["grid"] = draw(c09_grids(D, ac=True if any(k in ("ffd", "svffd") for k in kinds) else None, max3=5, max2=7))
        lin = LINEAR if len(pool) == 6 else tuple(c for c in LINEAR if c != "HomogeneousTransform")
        init["units"] = [draw(callable_specs(D, classes=LINEAR_CALLABLE if len(pool) == 6 else LINEAR_CALLABLE[:2])) if k == "call"
                         else draw(unit_specs(k, D, classes=lin)) for k in kinds]
        init["composite"] = True
        inv = [i for i, (k, u) in enumerate(zip(kinds, init["units"])) if k in ("lin", "call", "svf", "svffd")
               and u.get("cls") != "HomogeneousTransform"]
        if inv and draw(st.integers(0, 2)) == 0:
            init["mirror"] = draw(st.sampled_from(inv))  # last member: inverse of member i, linked to it
    else:
        raise ValueError(family)
    return init


# =======================================================================================
# the machine

_PROBES = {}


def f21_open() -> bool:
    """Does FlowFields.sample(grid) truncate a batch to one item (finding F21, properties C05/C10)?"""
    if "f21" not in _PROBES:
        from deepali.core import Grid
        from deepali.data import FlowFields

        f = FlowFields(torch.zeros(2, 2, 3, 3), grid=Grid(size=(3, 3)))
        _PROBES["f21"] = f.sample(Grid(size=(4, 4))).tensor().shape[0] != 2
    return _PROBES["f21"]


def f19_hits(g: dict, stride) -> bool:
    """Does Grid.reshape() to the parameter grid of a strided dense model trip the origin/extent assertion of
    Grid._resize (finding F19, property C03)?  Input-validity probe, not an oracle."""
    if stride == 1:
        return False
    shape = tuple(reversed(dense_data_desc(g, stride)["size"]))
    try:
        make_grid(g).reshape(shape)
    except AssertionError:
        return True
    return False


class Subject:
    """A real transform under test with the models of its elementary units."""

    def __init__(self, units, grid, composite, real):
        self.units = units
        self.grid = grid
        self.composite = composite
        self.real = real
        self.how = "primary"

    def twin(self, values):
        if not self.composite:
            return self.units[0].twin(values[0])
        S = _sp()
        return S.SequentialTransform(make_grid(self.grid), *[u.twin(v) for u, v in zip(self.units, values)])

    def members(self, real=None):
        """The elementary deepali transforms of `real` (default: the transform under test), aligned with `units`."""
        real = self.real if real is None else real
        return list(real.transforms()) if self.composite else [real]


class C09Machine(VMachine):
    FAMILY = "dense"

    def __init__(self):
        super().__init__()
        self.P = None
        self.S = None  # derived from P
        self.T = None  # derived from S
        self.changes = []
        self.nt = False
        self.maxratio = 0.0
        self.labels = set()
        self.known = None
        self.D = 2

    # ---- bookkeeping --------------------------------------------------------------------
    def teardown(self):
        ctx = self.ctx
        if ctx is None or ctx.only_kind is not None or not self.started:
            return
        case = self.case()
        if self.violation is not None:
            ctx.stats.record_violation(case, *self.violation)
        else:
            ctx.stats.record_ok(case, {"labels": self.run_labels(), "nontrivial": self.is_nontrivial(),
                                       "steps": len(self.steps), "ratio": self.maxratio})

    def is_nontrivial(self):
        return self.nt

    def run_labels(self):
        return sorted(self.labels | {"op=" + s["op"] for s in self.steps})

    def all_units(self):
        us = list(self.P.units)
        for sub in (self.S, self.T):
            if sub is not None:
                us += sub.units
        return us

    def route(self, fid: str) -> bool:
        if fid in self.init_case.get("no_route", []):
            return False
        if self.known is None:
            self.known = Known(PROPERTY)
        return self.known.active(fid)

    def changed(self, name):
        self.changes.append(name)

    def compared(self):
        if len(set(self.changes)) >= 2:
            self.nt = True

    def close(self, a, e, kind, what, scale=None, k=TWIN_K):
        a = a.detach()
        e = e.detach()
        if tuple(a.shape) != tuple(e.shape):
            raise Violation(kind + ":shape", f"{what}: shape {tuple(a.shape)} != twin {tuple(e.shape)}")
        sc = max(1.0, float(e.abs().max()) if e.numel() else 1.0) if scale is None else scale
        r = check_close(a, e, k * EPS32 * sc, kind, what)
        self.maxratio = max(self.maxratio, r)
        return r

    # ---- start --------------------------------------------------------------------------
    def start(self, init):
        S = _sp()
        grid = init["grid"]
        D = len(grid["size"])
        self.D = D
        self.x = torch.tensor([init["x"]], dtype=torch.float32)
        units = []
        early = None
        for spec in init["units"]:
            u = Unit(spec, grid)
            if u.dense and f19_hits(grid, u.opts.get("stride", 1)):
                u.opts["stride"] = 1  # F19 (C03): this grid cannot be reshaped to the strided parameter grid
                self.labels.add("F19-stride-fallback")
            if u.holder == "callable":
                shp = (u.N,) + u.data_shape()
                base = u.content(spec["fill"], u.N)
                if u.nonrigid:  # per-component weights, broadcast over the samples
                    ws = [torch.tensor([spec["net"][w][i % len(spec["net"][w])] for i in range(D)], dtype=torch.float32)
                          .reshape((1, D) + (1,) * D) for w in ("w1", "w2")]
                else:
                    ws = [vec_tensor(spec["net"][w], u.N, shp[1:]) for w in ("w1", "w2")]
                u.net = (NetModule if spec["net"].get("module") else Net)(base, ws[0], ws[1])
                u.net_model = Cell(base.clone())
                u.pref = Cell(u.reset_tensor(torch.zeros((1,) + shp[1:])))  # constructor: groups=1, buffer reset to identity
                u.buf = "none" if u.nonrigid else "stale"  # nothing predicted yet (tensor() of a non-rigid model updates)
                u.real = u.build()
                if spec["net"].get("module"):
                    self.labels.add("callable=nn.Module")
            else:
                v = u.content(spec["fill"], u.N)
                u.slot = Slot(Cell(v.clone()))
                u.buf = "none" if u.nonrigid else "na"
                late = spec.get("late", "no")
                if late == "no" or init.get("composite"):
                    u.real = u.build(v)
                else:
                    # documented: params=None -> "parameters must be set using data() or data_() before this
                    # transformation is evaluated"; a transform linked to it meanwhile follows it afterwards
                    u.real = getattr(S, u.cls)(make_grid(grid), params=None, **u.ctor_opts())
                    if late == "link" and u.kind in ("lin", "svf", "svffd"):
                        early = u.real.inverse(link=True, update_buffers=False)
                    else:
                        early = None
                    u.real.data_(torch.nn.Parameter(v.clone()) if u.holder == "parameter" else v.clone())
                    self.labels.add("late=" + late)
            units.append(u)
            self.labels.add("kind=" + u.kind + ("/callable" if u.holder == "callable" else ""))
            self.labels.add("holder=" + u.holder)
            if u.dense:
                self.labels.add(f"stride={u.opts['stride']}")
                self.labels.add(f"resize={u.opts['resize']}")
            if u.kind in ("svf", "svffd"):
                self.labels.add(f"steps={u.opts['steps']}")
            if u.kind == "lin":
                self.labels.add("cls=" + u.cls)
        self.labels.add(f"D={D}")
        self.labels.add(f"ac={grid.get('ac', True)}")
        self.labels.add("grid=" + grid.get("kind", "?"))
        self.S = None
        self.T = None
        if init.get("composite"):
            if init.get("mirror") is not None:
                # a composite containing a linked member: inverse of member i, linked to it, appended after it
                u = units[int(init["mirror"]) % len(units)]
                m = self.inverse_unit(u, True, False)
                m.real = u.real.inverse(link=True, update_buffers=False)
                units.append(m)
                self.labels.add("composite=linked-member")
            real = S.SequentialTransform(make_grid(grid), *[u.real for u in units])
            self.P = Subject(units, grid, True, real)
        else:
            self.P = Subject(units, grid, False, units[0].real)
            if early is not None:
                m = self.inverse_unit(units[0], True, False)
                m.pref = Cell(torch.zeros(units[0].data_shape()), valid=False)  # link_ to a transform without parameters
                m.buf = "none" if m.nonrigid else "stale"
                m.real = early
                self.make_sub("S", [m], early, "inverse/link")

    # ---- observations -------------------------------------------------------------------
    @staticmethod
    def usable(u: Unit) -> bool:
        """False while the tensor a linked transform would read is the placeholder (without batch dimension) that link_
        registers for a partner without parameters: the intermediate transform has to be updated first."""
        return (u.pref is None or u.pref.valid) and (u.link is None or u.link.data_cell().valid)

    def obs_call(self, sub: Subject, x, tag, via=None):
        if not all(u.link is None or u.link.data_cell().valid for u in sub.units):
            self.labels.add("placeholder-not-evaluated")
            return
        if via == "transformer":
            # documented (SpatialTransformer, PointSetTransformer): the transformer "invokes the spatial transform as a
            # functor", i.e. with the pre-forward hook that runs update(); with the default domain arguments it "performs
            # the same operation as SpatialTransform.points" on points given w.r.t. the grid of the transform
            y = _sp().PointSetTransformer(sub.real)(x)
            tag = tag + "transformer_"
            self.labels.add("read=transformer-call")
        else:
            y = sub.real(x)
        for u in sub.units:
            self.refresh_unit(u)
        if not all(u.settled() for u in sub.units):
            self.labels.add("chain=unsettled-not-compared")
            return
        tw = sub.twin([u.current() for u in sub.units])
        e = _sp().PointSetTransformer(tw)(x) if via == "transformer" else tw(x)
        self.compared()
        if any(u.link is not None for u in sub.units):
            self.labels.add("linked-call-compared")
        self.close(y, e, f"{tag}call_mismatch:after={self.last_change(sub)}", f"{self.describe(sub)}(x) vs fresh twin")

    def read(self, t, w):
        """Read paths that do not run the pre-forward hook: tensor(), disp(), flow() (FlowFields of disp()) and points(x)
        (documented: maps the points to the axes of the transform and applies forward(), i.e. the buffered tensor())."""
        if w == "flow":
            return t.flow().tensor()
        if w == "points":
            return t.points(self.x)
        return getattr(t, w)()

    def obs_fields(self, sub: Subject, tag, which=("tensor", "disp")):
        vals = [u.observable() for u in sub.units]
        if any(v is None for v in vals):
            # not defined by the contract: exercise the accessors only (not while buffer p is a placeholder)
            if all(self.usable(u) for u in sub.units):
                for w in which:
                    self.read(sub.real, w)
                self.settle(sub)
            return False
        tw = sub.twin(vals)
        for w in which:
            a = self.read(sub.real, w)
            e = self.read(tw, w)
            self.compared()
            self.labels.add("read=" + w + ("/buffers-cleared" if any(u.buf == "none" for u in sub.units) else ""))
            self.close(a, e, f"{tag}{w}_mismatch:after={self.last_change(sub)}", f"{self.describe(sub)}.{w}() vs fresh twin")
        self.settle(sub)
        return True

    def obs_attrs(self, sub: Subject, tag):
        """The public buffers of the non-rigid members read as attributes (NonRigidTransform.update: `u` displacement
        field, `v` velocity field "can be used in a regularization term"): a buffer that EXISTS while the cached state is
        defined (cleared by a replacing / resetting operation - `clear_buffers` "clears any buffers that are registered by
        update()" - or refreshed by update() / a call) must hold the field of the current parameters; it may be absent.
        Reading an attribute never updates anything, so the state of the model is unchanged."""
        vals = [u.observable() for u in sub.units]
        if any(v is None for v in vals) or not any(u.nonrigid for u in sub.units):
            return False
        tw = sub.twin(vals)
        tw.update()
        real_members, twin_members = sub.members(), sub.members(tw)
        if len(real_members) != len(sub.units):
            raise Violation(tag + "composite_members", f"{self.describe(sub)} has {len(real_members)} members, model {len(sub.units)}")
        for u, m, t in zip(sub.units, real_members, twin_members):
            if not u.nonrigid:
                continue
            for name in ("u", "v"):
                a, e = getattr(m, name, None), getattr(t, name, None)
                if a is None or e is None:
                    continue
                self.compared()
                self.labels.add(f"read=attr-{name}/" + ("after-clearing" if u.buf == "none" else "after-update"))
                self.close(a, e, f"{tag}buffer_{name}_stale:after={self.last_change(sub)}",
                           f"{self.describe(sub)}: existing buffer '{name}' of {u.cls} vs updated fresh twin (state {u.buf})")
        return True

    def observe(self, sub: Subject, tag, op):
        """Observation that directly follows a replacing / resetting / deriving operation, chosen by the history:
        'fields' (tensor() and disp(), the default), one read path ('tensor', 'disp', 'flow', 'points'), 'attrs' (public
        buffers only, nothing is updated) or 'none' (the cleared / derived state is left as it is for the next operations)."""
        mode = op.get("observe", "fields")
        if mode == "none":
            self.labels.add("observe=deferred")
        elif mode == "attrs":
            self.obs_attrs(sub, tag)
        elif mode == "fields":
            self.obs_fields(sub, tag)
        else:
            self.obs_fields(sub, tag, which=(mode,))

    def refresh_unit(self, u: Unit):
        """Model effect of update()/a call on unit u, incl. transforms linked to its buffered parameters `p`."""
        if u.refreshed():
            for v in self.all_units():
                if v.link is u and v.buf in ("fresh", "zero"):
                    v.buf = "stale"  # holds the previous tensor until its own update()

    def settle(self, sub):
        # tensor() of a non-rigid transform without buffers runs update()
        for u in sub.units:
            if u.buf == "none":
                self.refresh_unit(u)

    def last_change(self, sub):
        if any(u.link is not None and u.link.link is not None for u in sub.units):
            return getattr(sub, "last", "init") + ":chain"
        if any(u.holder == "callable" and u.link is None and not u.nonrigid for u in sub.units):
            flavor = "linear-callable"
        elif any(u.holder == "callable" and u.link is None for u in sub.units):
            flavor = "nonrigid-callable"
        else:
            flavor = "nonrigid" if any(u.nonrigid for u in sub.units) else "linear"
        return getattr(sub, "last", "init") + ":" + flavor

    def describe(self, sub):
        return sub.how + ":" + "+".join(u.cls for u in sub.units)

    # ---- aliasing effects ---------------------------------------------------------------
    def touched_cell(self, cell, actor):
        """The tensor object `cell` was edited in place: cached fields of every other transform that reads it are
        only defined again after its update()."""
        for u in self.all_units():
            if u is actor:
                continue
            cells = [u.pref, u.slot.cell if (u.link is None and u.slot is not None) else None,
                     u.link.data_cell() if u.link is not None else None]
            if any(c is cell for c in cells) and u.buf in ("fresh", "zero"):
                u.buf = "stale"

    def stale_links(self, actor):
        for u in self.all_units():
            if u.link is actor and u.buf in ("fresh", "zero"):
                u.buf = "stale"

    def drop_secondary(self):
        self.S = None
        self.T = None

    def replaced(self, actor: Unit):
        """actor replaced its parameter tensor (new Cell already set in its Slot).

        Transforms linked to actor read the new tensor at their next update()/call (link_: "directly copies the
        parameters from the linked transformation"); shallow copies of a Parameter-held actor share its parameter
        container (SpatialTransform.__copy__) and therefore hold the new Parameter, too - cached fields of either are
        only defined again after their update()."""
        for u in self.all_units():
            if u is actor:
                continue
            if u.link is actor or (u.link is None and u.slot is not None and u.slot is actor.slot):
                if u.buf in ("fresh", "zero"):
                    u.buf = "stale"

    # ---- interpreter --------------------------------------------------------------------
    def apply(self, op):
        name = op["op"]
        getattr(self, "op_" + name)(op)
        if op.get("probe"):
            self.obs_call(self.P, self.x, "")

    def target(self, op) -> Unit:
        return self.P.units[int(op.get("target", 0)) % len(self.P.units)]

    def after_replacing(self, name, op):
        self.P.last = name
        self.changed(name)
        self.observe(self.P, "", op)

    def owner(self, op) -> Unit:
        """Target unit, or - for a linked member of a composite - the unit whose parameters it uses."""
        u = self.target(op)
        while u.link is not None:
            u = u.link
        return u

    def op_data_(self, op):
        u = self.target(op)
        if u.holder == "callable" or u.link is not None:
            from deepali.spatial.base import ReadOnlyParameters

            try:
                u.real.data_(u.content(op["fill"], u.N))
            except ReadOnlyParameters:
                return
            raise Violation("data_on_callable_accepted", f"{u.cls}.data_() with callable parameters did not raise ReadOnlyParameters")
        N = int(op.get("N", u.N))
        if self.P.composite and u.nonrigid:
            N = u.N
        new = u.content(op["fill"], N)
        u.real.data_(new.clone())
        u.slot.cell = Cell(new.clone())  # the Slot is shared with shallow copies of a Parameter-held transform
        u.N = N
        u.buf = "none" if u.nonrigid else "na"
        self.replaced(u)
        self.after_replacing("data_", op)

    def op_set(self, op):
        """Replace the parameters through the public setter of a linear transform (offset_/angles_/scales_/matrix_).

        The model value follows the documented parameterisation: plain tensors hold offsets / angles in radians /
        scaling factors / the matrix itself; optimisable Parameters hold atanh(angle / pi) and atanh(log(scale)) + 1
        (has_parameters() activation, cf. EulerRotation.angles, AnisotropicScaling.scales)."""
        u = self.target(op)
        if u.kind != "lin" or u.holder == "callable" or u.link is not None:
            raise Skip("setter: tensor-held linear transforms only")
        N = int(op.get("N", u.N))
        arg = u.content(op["fill"], N)
        name = SETTERS[u.cls]
        getattr(u.real, name)(arg.clone())
        new = arg.clone()
        if u.holder == "parameter" and u.cls == "EulerRotation":
            new = new.div(math.pi).atanh()
        if u.holder == "parameter" and u.cls == "AnisotropicScaling":
            new = new.log().atanh().add(1)
        u.slot.cell = Cell(new)
        u.N = N
        self.replaced(u)
        self.labels.add("setter=" + name)
        self.after_replacing("set", op)

    def op_edit(self, op):
        u = self.owner(op)
        how = op["how"]
        if u.cls == "AnisotropicScaling" and how["kind"] != "scale":
            how = {"kind": "scale", "c": 1.25}  # additive noise could produce a zero scaling factor (not invertible)
        if u.holder == "callable":
            real, cell = u.net.base, u.net_model
        else:
            real, cell = u.real.params, u.slot.cell
        with torch.no_grad():
            if how["kind"] == "scale":
                real.mul_(float(how["c"]))
                cell.value.mul_(float(how["c"]))
            else:
                d = torch.tensor(hash_noise(tuple(cell.value.shape), key=int(how["key"]), lo=-float(how["amp"]),
                                            hi=float(how["amp"])), dtype=torch.float32)
                real.add_(d)
                cell.value.add_(d)
        if u.buf in ("fresh", "zero"):
            u.buf = "stale"
        if u.holder == "callable":
            for o in self.all_units():
                if o is not u and o.net_model is cell and o.link is None and o.buf in ("fresh", "zero"):
                    o.buf = "stale"
        else:
            self.touched_cell(cell, u)
        self.stale_links(u)
        self.P.last = "edit"
        self.changed("edit")

    def op_reset(self, op):
        u = self.owner(op)
        u.real.reset_parameters()
        if u.holder == "callable":
            u.pref.value.copy_(u.reset_tensor(u.pref.value))  # the buffer object `p` is rewritten in place
            u.buf = "none" if u.nonrigid else "zero"  # non-rigid: buffers cleared, tensor() runs update() again
            for s in self.all_units():  # buffer object `p` may be shared with copies / linked transforms
                if s is not u and s.buf in ("fresh", "zero"):
                    s.buf = "stale"
        else:
            u.slot.cell.value.copy_(u.reset_tensor(u.slot.cell.value))
            u.buf = "none" if u.nonrigid else "na"
            self.touched_cell(u.slot.cell, u)
            self.stale_links(u)
        self.after_replacing("reset", op)

    def regrid_unit(self, u: Unit, real, g2: dict, tag: str):
        """real.grid_(g2) on unit model u (dense: independent expectation; spline: subdivision)."""
        g1 = u.grid
        value = u.current()
        if u.dense and value.shape[0] > 1 and f21_open():
            raise Skip("F21")
        if u.dense:
            dg1, dg2 = u.data_desc(g1), u.data_desc(g2)
            E, mask, cond_idx, maxdiff, mnorm = regrid_expected(value.double().numpy(), g1, dg1, g2, dg2)
            real.grid_(make_grid(g2))
            got = real.params.detach()
            if tuple(got.shape) != tuple(E.shape):
                raise Violation(tag + "grid_params_shape", f"params {tuple(got.shape)} after grid_, expected {tuple(E.shape)}")
            pm = float(value.abs().max()) if value.numel() else 0.0
            bound = K * EPS32 * (cond_idx * maxdiff + pm + 1e-3) * max(1.0, mnorm)
            m = np.broadcast_to(mask[None, None], E.shape)
            if m.any():
                self.compared()
                r = check_close(got.double().numpy()[m], E[m], bound, tag + "grid_params_not_preserved",
                                f"{u.cls}.grid_: parameters at {int(mask.sum())} samples inside the old hull vs float64 "
                                f"interpolation model (ac {g1.get('ac')}->{g2.get('ac')}, stride {u.opts.get('stride')})")
                self.maxratio = max(self.maxratio, r)
                self.labels.add("regrid=checked")
                if maxdiff * cond_idx < 4 * pm + 1e-9:
                    self.labels.add("regrid=smooth-field")
            new = got.clone()
        else:
            dims = [i for i in range(u.D) if g2["size"][i] != g1["size"][i]]
            old_tw = u.twin(value)
            old = old_tw.update().v if u.kind == "svffd" else old_tw.tensor()
            old = old.detach().clone()
            real.grid_(make_grid(g2))
            new = real.params.detach().clone()
        gobj = real.grid()
        want = make_grid(g2)
        if not (gobj == want and gobj.align_corners() == want.align_corners()):
            raise Violation(tag + "grid_not_set", f"{u.cls}.grid_(g): grid() afterwards is {gobj!r} (align_corners="
                                                  f"{gobj.align_corners()}), requested {want!r} (align_corners={want.align_corners()})")
        same = same_desc(g2, g1)
        u.grid = g2
        u.slot = Slot(Cell(new))
        u.N = int(new.shape[0])
        u.link = None
        if not same:  # grid_ with the grid it already has need not invalidate anything
            u.buf = "none"
        u.regrid = True
        if u.spline:
            return old, dims
        return None, None

    def check_subdivision(self, u: Unit, real, old, dims, tag):
        cur = real.v if u.kind == "svffd" else real.tensor()
        cur = cur.detach()
        sl = [slice(None)] * cur.ndim
        for i in dims:
            sl[cur.ndim - 1 - i] = slice(None, None, 2)
        sub = cur[tuple(sl)]
        if tuple(sub.shape) != tuple(old.shape):
            raise Violation(tag + "subdivision_shape", f"coincident samples {tuple(sub.shape)} vs {tuple(old.shape)} before")
        self.compared()
        sc = max(1e-2, float(u.current().abs().max()))
        self.close(sub, old, tag + "subdivision_not_preserved",
                   f"{u.cls}.grid_(2n-1): field at coincident samples vs before (stride {u.opts['stride']})", scale=sc, k=K)
        self.labels.add("regrid=subdivision")

    def new_grid(self, u: Unit, op) -> dict:
        if u.spline:
            dims = op["dims"]
            g2 = dict(u.grid)
            g2["size"] = [2 * n - 1 if dims[i % len(dims)] else n for i, n in enumerate(u.grid["size"])]
            g2["spacing"] = [s / 2 if dims[i % len(dims)] else s for i, s in enumerate(u.grid["spacing"])]
            return g2
        return op["grid"]

    def op_grid_(self, op):
        if self.P.composite:
            raise Skip("composite")
        u = self.P.units[0]
        g2 = self.new_grid(u, op)
        if u.dense and f19_hits(g2, u.opts.get("stride", 1)):
            raise Skip("F19")
        if u.holder == "callable":
            # documented: only the grid attribute is updated, the callable must return a matching size afterwards
            self.drop_secondary()
            base = u.content(op["fill"], u.N, grid=g2)
            u.net.base = base
            u.net_model = Cell(base.clone())
            u.real.grid_(make_grid(g2))
            gobj, want = u.real.grid(), make_grid(g2)
            if not (gobj == want and gobj.align_corners() == want.align_corners()):
                raise Violation("grid_not_set", f"{u.cls}.grid_(g) with callable parameters: grid() is {gobj!r}, requested {want!r}")
            same = same_desc(g2, u.grid)
            if not same:
                u.buf = "none"
            elif u.buf == "fresh":
                u.buf = "stale"  # same grid, other prediction: like an in-place edit
            u.grid = g2
            self.P.grid = g2
            self.P.last = "grid_"
            self.changed("grid_")
            if not same and op.get("observe", "fields") in ("none", "attrs"):
                # the buffered prediction `p` still has the size of the old grid: the transform has to predict again before
                # anything derived from it can read its (buffered) parameters - the new state is always looked at here
                self.obs_fields(self.P, "")
            else:
                self.observe(self.P, "", op)
            return
        if u.dense and u.current().shape[0] > 1 and f21_open():
            raise Skip("F21")
        self.drop_secondary()
        old, dims = self.regrid_unit(u, u.real, g2, "")
        self.P.grid = g2
        self.P.last = "grid_"
        self.changed("grid_")
        if op.get("observe", "fields") in ("none", "attrs"):
            # the re-gridded parameters were compared above; the cleared buffers are left for the next operations
            self.observe(self.P, "", op)
            return
        self.obs_fields(self.P, "", which=("tensor",))
        if u.spline and dims:
            self.check_subdivision(u, u.real, old, dims, "")
        self.obs_fields(self.P, "", which=("disp",) if op.get("observe", "fields") in ("fields", "tensor") else (op["observe"],))

    def op_condition_(self, op):
        args = [torch.tensor(float(a)) for a in op["args"]]
        kwargs = {k: torch.tensor(float(v)) for k, v in op["kwargs"].items()}
        self.P.real.condition_(*args, **kwargs)
        got = self.P.real.condition()
        if not (isinstance(got, tuple) and len(got) == 2 and len(got[0]) == len(args) and set(got[1]) == set(kwargs)):
            raise Violation("condition_getter", f"condition() after condition_({op['args']}, {op['kwargs']}) returned {got!r}")
        for u in self.P.units:
            u.cond = (list(op["args"]), dict(op["kwargs"]))
            if u.nonrigid:
                u.buf = "none"
            elif u.holder == "callable" and u.link is None:
                u.buf = "stale" if self.route("K5") else "fresh"
                if u.buf == "fresh":
                    self.labels.add("K5-observed")
        self.after_replacing("condition_", op)

    def op_update(self, op):
        self.P.real.update()
        for u in self.P.units:
            self.refresh_unit(u)
        self.obs_fields(self.P, "")

    def op_call(self, op):
        x = torch.tensor([op["x"]], dtype=torch.float32) if "x" in op else self.x
        self.obs_call(self.P, x, "")

    def op_disp(self, op):
        self.obs_fields(self.P, "", which=("disp",))

    def op_tensor(self, op):
        self.obs_fields(self.P, "", which=("tensor",))

    def op_mode(self, op):
        """torch.nn.Module.train(mode) / eval(): the training flag is not part of the meaning of a transformation - every
        later change must be seen by the next call exactly as in training mode (inference after load / data_ in eval mode)."""
        self.P.real.train(bool(op["training"]))
        self.labels.add("mode=train" if op["training"] else "mode=eval")

    def op_clear_buffers(self, op):
        self.P.real.clear_buffers()
        for u in self.P.units:
            if u.nonrigid:
                u.buf = "none"
        self.changed("clear_buffers")
        self.observe(self.P, "", op)

    def op_fit(self, op):
        from deepali.core import Axes
        from deepali.data import FlowFields

        if self.P.composite:
            raise Skip("composite")
        u = self.P.units[0]
        if u.kind != "ddf" or u.holder == "callable":
            raise Skip("fit: ddf only")
        gf = op.get("grid") or u.grid
        N = u.N
        if N > 1 and f21_open():
            raise Skip("F21")
        src = Unit({"kind": "ddf", "opts": {"stride": 1}, "holder": "buffer", "N": N}, gf)
        data = src.content(op["fill"], N)
        flow = FlowFields(data.clone(), grid=make_grid(gf), axes=Axes.from_grid(make_grid(gf)))
        E, mask, cond_idx, maxdiff, mnorm = regrid_expected(data.double().numpy(), gf, gf, u.grid, u.data_desc())
        u.real.fit(flow)
        got = u.real.params.detach()
        if tuple(got.shape) != tuple(E.shape):
            raise Violation("fit_params_shape", f"params {tuple(got.shape)} after fit, expected {tuple(E.shape)}")
        pm = float(data.abs().max())
        bound = K * EPS32 * (cond_idx * maxdiff + pm + 1e-3) * max(1.0, mnorm)
        m = np.broadcast_to(mask[None, None], E.shape)
        if m.any():
            self.compared()
            r = check_close(got.double().numpy()[m], E[m], bound, "fit_not_assigned",
                            "DisplacementFieldTransform.fit(flow): parameters vs flow resampled by the float64 model")
            self.maxratio = max(self.maxratio, r)
        u.slot.cell = Cell(got.clone())
        u.buf = "none"
        self.replaced(u)
        self.after_replacing("fit", op)

    # ---- derived transforms (S from P, T from S) -------------------------------------------
    def need_unit(self):
        if self.P.composite:
            raise Skip("composite")
        return self.P.units[0]

    def sub(self, who: str) -> Subject:
        s = {"P": self.P, "S": self.S, "T": self.T}[who]
        if s is None:
            raise Skip("no " + who)
        return s

    def make_sub(self, who, units, real, how, grid=None, composite=None):
        src = self.P if who == "S" else self.S
        sub = Subject(units, grid or src.grid, src.composite if composite is None else composite, real)
        sub.how = how if who == "S" else "t:" + how
        sub.last = how
        if not sub.composite:
            units[0].real = real
        if who == "S":
            self.S, self.T = sub, None
        else:
            self.T = sub
        self.changed(how)
        self.labels.add(("secondary=" if who == "S" else "tertiary=") + how)
        if any(u.link is not None and u.link.link is not None for u in units):
            self.labels.add("chain-of-links")
        if any(u.link is not None and u.link.holder == "parameter" for u in units):
            self.labels.add("linked-to=parameter")
        return sub

    def make_secondary(self, units, real, how, grid=None):
        return self.make_sub("S", units, real, how, grid)

    def inverse_unit(self, u: Unit, link: bool, ub: bool) -> Unit:
        """Model of u.inverse(link, update_buffers): shallow copy, flipped direction, optionally linked to u."""
        s = u.derive()
        if u.kind == "lin":
            s.invert = not u.invert
        else:
            s.sign = -u.sign
        has_p = u.holder == "callable" or u.link is not None
        if link:
            s.link = u
            s.slot = None
            s.pref = u.data_cell()  # link_: buffer p = other.data(); a copied buffer p is the same tensor object
        if u.kind == "lin":
            s.buf = "fresh" if link else (u.buf if has_p else "na")
        else:
            s.buf = "none" if u.buf == "none" else (u.buf if ub else "stale")
        return s

    def op_copy(self, op):
        who = op.get("who", "S")
        src = self.P if who == "S" else self.sub("S")
        if src.composite:
            raise Skip("composite")
        u = src.units[0]
        s = u.derive()
        s.real = _copy.copy(u.real)
        sub = self.make_sub(who, [s], s.real, "copy")
        self.observe(sub, who.lower() + "_", op)

    def op_grid_copy(self, op):
        u = self.need_unit()
        if u.holder == "callable":
            raise Skip("callable")
        g2 = self.new_grid(u, op)
        if u.dense and u.current().shape[0] > 1 and f21_open():
            raise Skip("F21")
        if u.dense and f19_hits(g2, u.opts.get("stride", 1)):
            raise Skip("F19")
        s = u.derive()
        real = u.real.grid(make_grid(g2))
        S = _sp()
        if not isinstance(real, S.SpatialTransform) or real is u.real:
            raise Violation("grid_copy_not_a_copy", f"grid(g) returned {type(real).__name__}{' (self)' if real is u.real else ''}")
        # the copy must be re-gridded ... (checked on the returned object, which already ran grid_)
        s.real = real
        self.make_secondary([s], real, "grid_copy", grid=g2)
        self.regrid_after(s, real, u, g2)
        # ... and the original must be untouched
        self.P.last = "grid_copy"
        self.obs_call(self.P, self.x, "")

    def regrid_after(self, s: Unit, real, u: Unit, g2):
        """Check an already re-gridded copy against the model of regridding u to g2."""
        value = u.current()
        got = real.params.detach()
        if s.dense:
            E, mask, cond_idx, maxdiff, mnorm = regrid_expected(value.double().numpy(), u.grid, u.data_desc(u.grid), g2, u.data_desc(g2))
            if tuple(got.shape) != tuple(E.shape):
                raise Violation("s_grid_params_shape", f"params {tuple(got.shape)} after grid(g), expected {tuple(E.shape)}")
            pm = float(value.abs().max())
            bound = K * EPS32 * (cond_idx * maxdiff + pm + 1e-3) * max(1.0, mnorm)
            m = np.broadcast_to(mask[None, None], E.shape)
            if m.any():
                self.compared()
                r = check_close(got.double().numpy()[m], E[m], bound, "s_grid_params_not_preserved",
                                f"{u.cls}.grid(g): parameters of the copy vs float64 interpolation model")
                self.maxratio = max(self.maxratio, r)
                self.labels.add("regrid=checked")
        gobj, want = real.grid(), make_grid(g2)
        if not (gobj == want and gobj.align_corners() == want.align_corners()):
            raise Violation("s_grid_not_set", f"{u.cls}.grid(g).grid() is {gobj!r} (align_corners={gobj.align_corners()}), "
                                              f"requested {want!r} (align_corners={want.align_corners()})")
        s.grid = g2
        s.slot = Slot(Cell(got.clone()))  # documented: grid(g) returns a copy with its own re-expressed parameters
        s.N = int(got.shape[0])
        s.buf = "none"
        self.obs_fields(self.S, "s_", which=("tensor",))
        if s.spline:
            dims = [i for i in range(u.D) if g2["size"][i] != u.grid["size"][i]]
            if dims:
                tw = u.twin(value)
                old = (tw.update().v if u.kind == "svffd" else tw.tensor()).detach().clone()
                self.check_subdivision(s, real, old, dims, "s_")

    def op_cond_copy(self, op):
        S = _sp()
        u = self.need_unit()
        args = [torch.tensor(float(a)) for a in op["args"]]
        kwargs = {k: torch.tensor(float(v)) for k, v in op["kwargs"].items()}
        if op.get("via") == "transformer":
            tr = S.PointSetTransformer(u.real)
            r = tr.condition(*args, **kwargs)
            if not isinstance(r, S.SpatialTransformer):
                raise Violation("transformer_condition_returns_getter",
                                f"SpatialTransformer.condition({op['args']}, {op['kwargs']}) returned {type(r).__name__}")
            got = r.transform.condition()
            if not (len(got[0]) == len(args) and set(got[1]) == set(kwargs)):
                raise Violation("transformer_condition_drops_arguments",
                                f"SpatialTransformer.condition({op['args']}, {op['kwargs']}).transform.condition() = {got!r}")
            # the transformer copy shares the transform object: re-establish the modelled conditioning
            oa = [torch.tensor(float(a)) for a in u.cond[0]]
            ok = {k: torch.tensor(float(v)) for k, v in u.cond[1].items()}
            u.real.condition_(*oa, **ok)
            if u.nonrigid:
                u.buf = "none"
            elif u.holder == "callable":
                u.buf = "stale"
            return
        real = u.real.condition(*args, **kwargs)
        if not isinstance(real, S.SpatialTransform):
            raise Violation("condition_returns_getter",
                            f"condition({op['args']}, {op['kwargs']}) returned {type(real).__name__} instead of a conditioned copy")
        s = u.derive()
        s.real = real
        s.cond = (list(op["args"]), dict(op["kwargs"]))
        if s.nonrigid:
            s.buf = "none"
        elif s.holder == "callable":
            s.buf = "stale" if self.route("K5") else "fresh"
        self.make_secondary([s], real, "cond_copy")
        got = real.condition()
        if not (len(got[0]) == len(args) and set(got[1]) == set(kwargs)):
            raise Violation("condition_copy_drops_arguments", f"condition({op['args']}, {op['kwargs']}).condition() = {got!r}")
        self.obs_fields(self.S, "s_")
        self.obs_call(self.S, self.x, "s_")
        self.P.last = "cond_copy"
        self.obs_call(self.P, self.x, "")

    def op_inverse(self, op):
        """inverse(link, update_buffers) of P (who='S', default) or of S (who='T': chains, inverses of copies)."""
        link, ub = bool(op["link"]), bool(op["update_buffers"])
        who = op.get("who", "S")
        src = self.P if who == "S" else self.sub("S")
        for u in src.units:
            if u.kind in ("ddf", "ffd"):
                raise Skip("not invertible")
            if u.cls == "HomogeneousTransform":
                raise Skip("HomogeneousTransform (matrix inversion is not part of this property)")
        if op.get("via") == "inv":
            if not (link and ub):
                raise Skip("the property `inv` is inverse(link=True, update_buffers=True)")
            # documented convenience property ("x = transform.inv(y)"); its getter is invoked directly so that an
            # AttributeError raised inside deepali is not re-labelled by torch.nn.Module.__getattr__
            real = type(src.real).inv.fget(src.real)
            self.labels.add("inverse=inv-property")
        else:
            real = src.real.inverse(link=link, update_buffers=ub)
        units = [self.inverse_unit(u, link, ub) for u in (reversed(src.units) if src.composite else src.units)]
        sub = self.make_sub(who, units, real, "inverse/link" if link else "inverse")
        if ub and any(u.buf == "none" and u.nonrigid for u in units):
            self.labels.add("inverse=update_buffers/source-cleared")
        self.observe(sub, who.lower() + "_", op)

    def op_link_other(self, op):
        """Another transform Q of the same type (own parameters / callable / none, buffers possibly computed already)
        is linked to the source: `Q.link(src)` (shallow copy of Q) or `Q.link_(src)` (Q itself)."""
        S = _sp()
        who = op.get("who", "S")
        src = self.P if who == "S" else self.sub("S")
        if src.composite:
            raise Skip("composite")
        u = src.units[0]
        qh = op["qholder"]
        spec = {"kind": u.kind, "cls": u.cls, "opts": dict(u.opts), "holder": "buffer" if qh == "none" else qh, "N": 1}
        g = u.grid
        if op.get("grid") is not None:  # another domain with the same number of samples: same parameter shape
            g2 = dict(op["grid"], size=list(u.grid["size"]))
            if u.spline:
                g2["ac"] = True
            if not (u.dense and f19_hits(g2, u.opts.get("stride", 1))):
                g = g2
        q = Unit(spec, g)
        if u.kind in ("svf", "svffd"):
            q.opts["scale"], q.opts["steps"] = op.get("scale"), int(op.get("steps", 0))
        if u.kind == "lin" and u.cls != "HomogeneousTransform":
            q.invert = bool(op.get("invert", False))
        prep = op.get("prep", "none")
        if qh == "callable":
            own = u.content(op["fill"], 1)
            q.net = Net(own, torch.zeros_like(own), torch.zeros_like(own))
            q.net_model = Cell(own.clone())
            q.pref = Cell(q.reset_tensor(own))
            Q = q.build()
        elif qh == "none":
            Q = getattr(S, q.cls)(make_grid(g), params=None, **q.ctor_opts())
            if q.kind == "lin" and q.invert:
                Q.invert = True
            prep = "none"
        else:
            own = u.content(op["fill"], 1)
            q.slot = Slot(Cell(own.clone()))
            Q = q.build(own)
        if prep == "update":
            Q.update()
        elif prep == "call":
            Q(self.x)
        if prep != "none" and qh == "callable":
            q.pref = Cell(own.clone())
        inplace = bool(op.get("inplace"))
        real = Q.link_(u.real) if inplace else Q.link(u.real)
        if inplace and real is not Q:
            raise Violation("link__not_in_place", "link_() did not return the transform it was called on")
        if not inplace:
            if real is Q:
                raise Violation("link_not_a_copy", "link() returned the transform it was called on")
            if qh in ("buffer", "parameter"):  # documented: link() makes a shallow copy, Q keeps its own parameters
                y = Q(self.x)
                e = q.twin(own)(self.x)
                self.compared()
                self.close(y, e, "link_copy_modifies_original", f"{q.cls}: Q(x) after Q.link(other) vs twin with Q's own parameters")
        # model of the linked transform
        q.real = real
        q.link = u
        q.slot = None
        if qh != "callable":
            q.pref = u.data_cell()  # link_: p = other.data()
        if q.nonrigid:
            q.buf = "none" if prep == "none" else "stale"
        else:
            q.buf = "stale" if qh == "callable" else "fresh"
        q.holder = "buffer" if qh in ("none", "callable") else qh
        q.net = q.net_model = None
        sub = self.make_sub(who, [q], real, "link_" if inplace else "link", grid=g)
        self.labels.add("link-other:q=" + qh + "/" + prep)
        self.observe(sub, who.lower() + "_", op)

    def op_wrap(self, op):
        """A SequentialTransform built around the source transform: the SAME object is its member (optionally next to a
        Translation of its own), so evaluating / updating the wrapper evaluates / updates the member it shares with the
        source, and the source's replaced parameters are the wrapper's.  Its inverse (derived from it like any other
        inverse) holds inverse(link, update_buffers) copies of the members."""
        S = _sp()
        who = op.get("who", "S")
        src = self.P if who == "S" else self.sub("S")
        if src.composite:
            raise Skip("composite")
        u = src.units[0]
        units, reals = [u], [src.real]
        ex = op.get("extra")
        if ex:
            e = Unit({"kind": "lin", "cls": "Translation", "opts": {}, "holder": "buffer", "N": 1}, u.grid)
            v = e.content(ex["fill"], 1)
            e.slot = Slot(Cell(v.clone()))
            e.buf = "na"
            e.real = e.build(v)
            e.independent = True
            at = 0 if ex.get("pos") == "before" else 1
            units.insert(at, e)
            reals.insert(at, e.real)
        real = S.SequentialTransform(make_grid(u.grid), *reals)
        sub = self.make_sub(who, units, real, "wrap", grid=u.grid, composite=True)
        self.observe(sub, who.lower() + "_", op)

    def op_data_copy(self, op):
        """src.data(arg): "shallow copy with specified parameters".  The copy must evaluate the given parameters - also
        through tensor()/disp() right away, no buffer computed by the source may survive in it - and the source keeps
        its own (observed by the following operations)."""
        who = op.get("who", "S")
        src = self.P if who == "S" else self.sub("S")
        if src.composite:
            raise Skip("composite")
        u = src.units[0]
        if u.holder == "callable" or u.link is not None:
            raise Skip("data(arg) of linked / callable-held transforms is left to C07")
        N = int(op.get("N", u.batch()))
        new = u.content(op["fill"], N)
        real = src.real.data(new.clone())
        if real is src.real:
            raise Violation("data_copy_not_a_copy", "data(arg) returned the transform it was called on")
        s = u.derive()
        s.slot = Slot(Cell(new.clone()))  # _copy_with_own_parameters: own container of parameters
        s.N = N
        s.buf = "none" if s.nonrigid else "na"
        sub = self.make_sub(who, [s], real, "data_copy")
        self.observe(sub, who.lower() + "_", op)

    def op_read(self, op):
        """One read path of P / S / T: tensor(), disp(), flow(), points(x) (none of them runs the pre-forward hook), the
        public buffers u / v, or a call through a PointSetTransformer created for the occasion."""
        who = op.get("who", "P")
        sub = self.sub(who)
        tag = "" if who == "P" else who.lower() + "_"
        how = op["how"]
        if how == "attrs":
            self.obs_attrs(sub, tag)
        elif how == "tcall":
            self.obs_call(sub, self.x, tag, via="transformer")
        else:
            self.obs_fields(sub, tag, which=(how,))

    def op_unlink_copy(self, op):
        """src.unlink() returns a shallow copy without parameters (src itself keeps its parameters / link); the copy
        then gets its own data through data_() like a transform constructed with params=None."""
        who = op.get("who", "S")
        src = self.P if who == "S" else self.sub("S")
        if src.composite:
            raise Skip("composite")
        u = src.units[0]
        real = src.real.unlink()
        if real is src.real:
            raise Violation("unlink_not_a_copy", "unlink() returned the transform it was called on")
        if real.params is not None:
            raise Violation("unlink_keeps_params", f"params of unlink() copy is {type(real.params).__name__}")
        t = u.derive()
        new = u.content(op["fill"], u.batch())
        real.data_(new.clone())
        t.link = None
        t.holder = "buffer"
        t.net = t.net_model = t.pref = None
        t.slot = Slot(Cell(new.clone()))
        t.buf = "none" if t.nonrigid else "na"
        sub = self.make_sub(who, [t], real, "unlink_copy")
        tag = who.lower() + "_"
        self.obs_fields(sub, tag)
        self.obs_call(sub, self.x, tag)
        src.last = tag + "unlink_copy"
        self.obs_call(src, self.x, "" if who == "S" else "s_")

    def op_restart_late(self, op):
        """The primary is replaced by a new transform of the same class constructed WITHOUT parameters (params=None,
        documented: "parameters must be set using data() or data_() before this transformation is evaluated"), to
        which a transform is linked before the parameters are assigned; both are then used like any other pair."""
        S = _sp()
        old = self.need_unit()
        spec = {"kind": old.kind, "cls": old.cls, "opts": dict(old.opts), "holder": op["holder"], "N": int(op.get("N", 1))}
        u = Unit(spec, old.grid)
        how = op.get("how", "none")
        if how == "inverse" and (u.kind not in ("lin", "svf", "svffd") or u.cls == "HomogeneousTransform"):
            how = "link"
        u.real = getattr(S, u.cls)(make_grid(u.grid), params=None, **u.ctor_opts())
        self.drop_secondary()
        self.P = Subject([u], u.grid, False, u.real)
        self.P.last = "restart_late"
        m = None
        if how == "inverse":
            m = self.inverse_unit_late(u)
            real = u.real.inverse(link=True, update_buffers=bool(op.get("ub")))
            name = "inverse/link"
        elif how == "link":
            q = getattr(S, u.cls)(make_grid(u.grid), params=None, **u.ctor_opts())
            real = q.link_(u.real) if op.get("inplace") else q.link(u.real)
            m = u.derive()
            m.link, m.slot = u, None
            name = "link_" if op.get("inplace") else "link"
        v = u.content(op["fill"], u.N)
        u.real.data_(torch.nn.Parameter(v.clone()) if u.holder == "parameter" else v.clone())
        u.slot = Slot(Cell(v.clone()))
        u.buf = "none" if u.nonrigid else "na"
        if m is not None:
            m.pref = Cell(torch.zeros(u.data_shape()), valid=False)  # link_ to a transform without parameters
            m.buf = "none" if m.nonrigid else "stale"
            self.make_sub("S", [m], real, name)
        self.labels.add("late=" + how)
        self.changed("restart_late")
        self.observe(self.P, "", op)

    def inverse_unit_late(self, u: Unit) -> Unit:
        m = u.derive()
        if u.kind == "lin":
            m.invert = not u.invert
        else:
            m.sign = -u.sign
        m.link, m.slot = u, None
        return m

    def op_p_unlink_data(self, op):
        """P.unlink_() followed by P.data_(new): P holds the new tensor, transforms linked to P follow it."""
        u = self.need_unit()
        for d in (self.S, self.T):
            if d is not None and any(v is not u and v.link is None and v.slot is not None and v.slot is u.slot for v in d.units):
                # in-place unlink_ of a transform whose parameter container is shared with shallow copies: what the
                # copies hold afterwards is not documented
                self.drop_secondary()
                break
        N = u.batch()
        u.real.unlink_()
        if u.real.params is not None:
            raise Violation("unlink_keeps_params", f"params after unlink_() is {type(u.real.params).__name__}")
        new = u.content(op["fill"], N)
        # A Parameter is not assigned while an UNLINKED shallow copy may still share the parameter container with P from
        # the time when P held a plain tensor / callable (what `params` of such a copy resolves to then is a
        # torch.nn.Module lookup-order detail, not documented behaviour).  Linked transforms must keep following P.
        derived = [v for d in (self.S, self.T) if d is not None for v in d.units if v is not u and not getattr(v, "independent", False)]
        as_param = bool(op.get("parameter")) and (u.holder == "parameter" or all(v.link is not None for v in derived))
        u.real.data_(torch.nn.Parameter(new.clone()) if as_param else new.clone())
        u.holder = "parameter" if as_param else "buffer"
        u.net = u.net_model = u.pref = None
        u.slot = Slot(Cell(new.clone()))
        u.N = N
        u.buf = "none" if u.nonrigid else "na"
        self.replaced(u)
        self.after_replacing("unlink_data", op)

    def x_call(self, who, op):
        s = self.sub(who)
        x = torch.tensor([op["x"]], dtype=torch.float32) if "x" in op else self.x
        self.obs_call(s, x, who.lower() + "_")

    def x_update(self, who, op):
        s = self.sub(who)
        if not all(u.link is None or u.link.data_cell().valid for u in s.units):
            raise Skip("placeholder")
        s.real.update()
        for u in s.units:
            self.refresh_unit(u)
        self.obs_fields(s, who.lower() + "_")

    def x_unlink_data(self, who, op):
        s = self.sub(who)
        if s.composite or s.units[0].link is None:
            raise Skip("not linked")
        u = s.units[0]
        N = u.batch()
        s.real.unlink_()
        if s.real.params is not None:
            raise Violation("unlink_keeps_params", f"params after unlink_() is {type(s.real.params).__name__}")
        new = u.content(op["fill"], N)
        s.real.data_(new.clone())
        u.link = None
        u.holder = "buffer"
        u.pref = None
        u.slot = Slot(Cell(new.clone()))
        u.N = N
        u.buf = "none" if u.nonrigid else "na"
        self.replaced(u)  # transforms linked to this one now follow its own parameters
        s.last = "unlink_data"
        self.changed("unlink_data")
        tag = who.lower() + "_"
        self.obs_fields(s, tag)
        self.obs_call(s, self.x, tag)
        self.P.last = tag + "unlink_data"
        self.obs_call(self.P, self.x, "")
        if who == "T" and self.S is not None:  # the transform T was derived from keeps its link
            self.S.last = "t_unlink_data"
            self.obs_call(self.S, self.x, "s_")

    def need_secondary(self):
        return self.sub("S")

    def op_s_call(self, op):
        self.x_call("S", op)

    def op_s_update(self, op):
        self.x_update("S", op)

    def op_s_fields(self, op):
        self.obs_fields(self.sub("S"), "s_")

    def op_s_unlink_data(self, op):
        self.x_unlink_data("S", op)

    def op_t_call(self, op):
        self.x_call("T", op)

    def op_t_update(self, op):
        self.x_update("T", op)

    def op_t_fields(self, op):
        self.obs_fields(self.sub("T"), "t_")

    def op_t_unlink_data(self, op):
        self.x_unlink_data("T", op)

    def op_s_drop(self, op):
        self.drop_secondary()

    # ---- rules (generators of ops) ------------------------------------------------------
    @initialize(data=st.data())
    def r_init(self, data):
        self.begin(data.draw(inits(self.FAMILY)))

    def live(self):
        return self.started and not self.dead

    def has(self, pred):
        return self.live() and any(pred(u) for u in self.P.units)

    def unit_only(self, pred=lambda u: True):
        return self.live() and not self.P.composite and pred(self.P.units[0])

    OBSERVE_NOW = ["fields", "fields", "flow", "points"]
    OBSERVE_LATER = ["attrs"]  # reading the public buffers updates nothing: the state is left as it is either way

    def emit(self, op, data):
        """Is the new state looked at straight away (fields / one read path, usually followed by a call), or left as it is
        - buffers cleared, nothing recomputed - for the operations that follow (derivation of inverses / copies, reads)?"""
        if data.draw(st.sampled_from([False, False, True])):
            op["observe"] = data.draw(st.sampled_from(self.OBSERVE_LATER))
            op["probe"] = False
        else:
            op["observe"] = data.draw(st.sampled_from(self.OBSERVE_NOW))
            op["probe"] = data.draw(st.sampled_from([True, True, False]))
        self.do(op)

    def draw_observe(self, data):
        return data.draw(st.sampled_from(self.OBSERVE_NOW + self.OBSERVE_LATER + ["tensor", "disp"]))

    def draw_target(self, data, pred):
        idx = [i for i, u in enumerate(self.P.units) if pred(u)]
        return data.draw(st.sampled_from(idx))

    @precondition(lambda self: self.live())
    @rule(data=st.data())
    def r_data(self, data):
        i = self.draw_target(data, lambda u: True)
        u = self.P.units[i]
        self.emit({"op": "data_", "target": i, "fill": data.draw(fills(self.D, u.nonrigid)), "N": data.draw(st.sampled_from([1, 1, 1, 2]))}, data)

    @precondition(lambda self: self.live())
    @rule(data=st.data())
    def r_edit(self, data):
        i = data.draw(st.integers(0, len(self.P.units) - 1))
        how = data.draw(st.one_of(
            st.fixed_dictionaries({"kind": st.just("scale"), "c": st.sampled_from([0.5, -1.0, 0.75, 1.25])}),
            st.fixed_dictionaries({"kind": st.just("add"), "key": st.integers(0, 999), "amp": gen.qfloat(0.02, 0.2, 0.01)})))
        self.emit({"op": "edit", "target": i, "how": how}, data)

    @precondition(lambda self: self.live())
    @rule(data=st.data())
    def r_reset(self, data):
        self.emit({"op": "reset", "target": self.draw_target(data, lambda u: True)}, data)

    @precondition(lambda self: self.unit_only(lambda u: u.nonrigid))
    @rule(data=st.data())
    def r_grid(self, data):
        self.emit(self.draw_grid_op(data, "grid_"), data)

    @precondition(lambda self: self.unit_only(lambda u: u.nonrigid))
    @rule(data=st.data())
    def r_grid_b(self, data):  # re-gridding is the expensive-to-reach operation: give it more weight
        self.emit(self.draw_grid_op(data, "grid_"), data)

    @precondition(lambda self: self.unit_only(lambda u: u.dense))
    @rule(data=st.data())
    def r_grid_c(self, data):
        self.emit(self.draw_grid_op(data, "grid_"), data)

    def draw_grid_op(self, data, name):
        op = self.draw_grid_op_(data, name)
        if self.P.units[0].holder == "callable":
            op["fill"] = data.draw(fills(self.D))
        return op

    def draw_grid_op_(self, data, name):
        u = self.P.units[0]
        if u.spline:
            dims = data.draw(st.lists(st.booleans(), min_size=self.D, max_size=self.D).filter(any))
            if max(2 * n - 1 for n in u.grid["size"]) > (40 if self.D == 2 else 20):
                dims = [False] * self.D
                dims[int(np.argmin(u.grid["size"]))] = True
                if max(2 * n - 1 if d else n for n, d in zip(u.grid["size"], dims)) > (40 if self.D == 2 else 20):
                    dims = [False] * self.D  # same size: no subdivision
            return {"op": name, "dims": dims}
        mode = data.draw(st.sampled_from(["any", "related", "related", "ac", "refine"]))
        g = u.grid
        if mode == "any":
            g2 = data.draw(c09_grids(self.D))
        elif mode == "ac":
            g2 = dict(g, ac=not g.get("ac", True))
        elif mode == "refine":
            g2 = dict(g)
            if g.get("ac", True):
                g2["size"] = [2 * n - 1 for n in g["size"]]
                g2["spacing"] = [s / 2 for s in g["spacing"]]
            else:
                g2["size"] = [2 * n for n in g["size"]]
                g2["spacing"] = [s / 2 for s in g["spacing"]]
            if max(g2["size"]) > 24:
                g2 = dict(g, ac=not g.get("ac", True))
        else:  # a grid inside the old domain: shrunk extent, shifted centre, other size/orientation
            inner = data.draw(c09_grids(self.D))
            f = data.draw(gen.qfloat(0.3, 0.9, 0.05))
            ext = min(s * (n - 1) for s, n in zip(g["spacing"], g["size"]))
            g2 = dict(inner)
            # diameter of the new grid <= f * smallest old extent / sqrt(D) keeps it inside for any rotation
            diam = math.sqrt(sum((s * n) ** 2 for s, n in zip(inner["spacing"], inner["size"])))
            sc = f * ext / diam
            g2["spacing"] = [float(f"{s * sc:.4g}") for s in inner["spacing"]]
            g2["center"] = list(g["center"])
        if min(g2["spacing"]) < 0.02:
            # repeated shrinking / refinement would leave the stated domain (sample positions are float32: a spacing far
            # below eps32 * |centre| cannot be represented): start again from an unrelated grid
            g2 = data.draw(c09_grids(self.D))
        return {"op": name, "grid": g2}

    @precondition(lambda self: self.live())
    @rule(data=st.data())
    def r_condition(self, data):
        c = data.draw(conds())
        self.emit({"op": "condition_", "args": c["args"], "kwargs": c["kwargs"]}, data)

    @rule()
    def r_update(self):
        self.do({"op": "update"})

    @rule(data=st.data())
    def r_call(self, data):
        self.do({"op": "call", "x": data.draw(points(getattr(self, "D", 2)))})

    @rule(which=st.sampled_from(["disp", "tensor"]))
    def r_fields(self, which):
        self.do({"op": which})

    @precondition(lambda self: self.live())
    @rule(training=st.sampled_from([False, False, True]))
    def r_mode(self, training):
        self.do({"op": "mode", "training": training})

    @precondition(lambda self: self.has(lambda u: u.nonrigid))
    @rule(data=st.data())
    def r_clear(self, data):
        self.emit({"op": "clear_buffers"}, data)

    @precondition(lambda self: self.has(lambda u: u.nonrigid))
    @rule(data=st.data())
    def r_edit_then_clear(self, data):
        """optimiser-style in-place step on a refreshed transform followed by explicit invalidation"""
        i = self.draw_target(data, lambda u: u.nonrigid)
        self.do({"op": "update"})
        self.do({"op": "edit", "target": i, "how": {"kind": "add", "key": data.draw(st.integers(0, 999)), "amp": 0.1}, "probe": False})
        self.emit({"op": "clear_buffers"}, data)

    @precondition(lambda self: self.unit_only(lambda u: u.kind == "ddf" and u.holder != "callable"))
    @rule(data=st.data())
    def r_fit(self, data):
        u = self.P.units[0]
        op = {"op": "fit", "fill": data.draw(fills(self.D))}
        if data.draw(st.booleans()):
            op["grid"] = data.draw(c09_grids(self.D))
        self.emit(op, data)

    @precondition(lambda self: self.unit_only(lambda u: u.kind == "ddf" and u.holder != "callable"))
    @rule(data=st.data())
    def r_fit_b(self, data):
        """fit() of a transform whose buffers exist (u of a strided, resized model is not a view of the parameters)"""
        self.do({"op": data.draw(st.sampled_from(["update", "call"]))})
        self.emit({"op": "fit", "fill": data.draw(fills(self.D))}, data)

    # -- derived transforms
    def linked_S(self):
        return self.live() and self.S is not None and any(u.link is not None for u in self.S.units)

    def keeps_link(self):
        """In the linked family an existing linked S is not thrown away by the rules that derive another S."""
        return self.FAMILY == "linked" and self.linked_S()

    @staticmethod
    def invertible(sub):
        return sub is not None and all(u.kind in ("lin", "svf", "svffd") and u.cls != "HomogeneousTransform" for u in sub.units)

    @precondition(lambda self: self.unit_only() and not self.keeps_link())
    @rule(data=st.data())
    def r_copy(self, data):
        self.emit({"op": "copy"}, data)

    @precondition(lambda self: self.unit_only(lambda u: u.holder != "callable" and u.link is None) and not self.keeps_link())
    @rule(data=st.data())
    def r_data_copy(self, data):
        u = self.P.units[0]
        self.emit({"op": "data_copy", "fill": data.draw(fills(self.D, u.nonrigid)),
                   "N": data.draw(st.sampled_from([u.batch(), u.batch(), 3 - u.batch() if u.batch() in (1, 2) else 1]))}, data)

    def draw_wrap(self, data, who="S"):
        op = {"op": "wrap", "who": who, "observe": self.draw_observe(data)}
        if data.draw(st.booleans()):
            op["extra"] = {"pos": data.draw(st.sampled_from(["before", "after"])), "fill": data.draw(fills(self.D, False))}
        return op

    @precondition(lambda self: self.unit_only() and not self.keeps_link())
    @rule(data=st.data())
    def r_wrap(self, data):
        self.do(self.draw_wrap(data))

    @precondition(lambda self: self.unit_only(lambda u: u.nonrigid and u.holder in ("buffer", "parameter")) and not self.keeps_link())
    @rule(data=st.data())
    def r_grid_copy(self, data):
        self.do(self.draw_grid_op(data, "grid_copy"))

    @precondition(lambda self: self.unit_only() and not self.keeps_link())
    @rule(data=st.data())
    def r_cond_copy(self, data):
        c = data.draw(conds())
        op = {"op": "cond_copy", "args": c["args"], "kwargs": c["kwargs"]}
        if data.draw(st.sampled_from([False, False, True])):
            op["via"] = "transformer"
        self.do(op)

    @precondition(lambda self: self.live() and self.invertible(self.P) and not self.keeps_link())
    @rule(link=st.booleans(), ub=st.booleans(), data=st.data())
    def r_inverse(self, link, ub, data):
        self.do(self.inverse_op(data, link, ub))

    def inverse_op(self, data, link, ub, who="S"):
        op = {"op": "inverse", "who": who, "link": link, "update_buffers": ub, "observe": self.draw_observe(data)}
        if link and ub and data.draw(st.booleans()):
            op["via"] = "inv"
        return op

    @precondition(lambda self: self.live() and self.S is None and self.FAMILY in ("linked", "composite") and self.invertible(self.P))
    @rule(ub=st.booleans(), data=st.data())
    def r_inverse_b(self, ub, data):
        self.do(self.inverse_op(data, True, ub))

    def draw_link_other(self, data, who="S"):
        src = self.P if who == "S" else self.S
        u = src.units[0]
        op = {"op": "link_other", "who": who, "inplace": data.draw(st.booleans()),
              "qholder": data.draw(st.sampled_from(["buffer", "parameter", "callable", "none"])),
              "prep": data.draw(st.sampled_from(["none", "update", "call"])),
              "fill": data.draw(fills(self.D, u.nonrigid)), "observe": self.draw_observe(data)}
        if u.kind == "lin":
            op["invert"] = data.draw(st.booleans())
        if u.kind in ("svf", "svffd"):
            op["scale"] = data.draw(st.sampled_from([None, 1.0, 0.5, -1.0]))
            op["steps"] = data.draw(st.integers(0, 3))
        if u.nonrigid and data.draw(st.sampled_from([False, False, True])):
            op["grid"] = data.draw(c09_grids(self.D, ac=True if u.spline else None))
        return op

    @precondition(lambda self: self.unit_only() and not self.keeps_link())
    @rule(data=st.data())
    def r_link_other(self, data):
        self.do(self.draw_link_other(data))

    @precondition(lambda self: self.unit_only() and not self.keeps_link())
    @rule(data=st.data())
    def r_unlink_copy(self, data):
        self.do({"op": "unlink_copy", "who": "S", "fill": data.draw(fills(self.D, self.P.units[0].nonrigid))})

    @precondition(lambda self: self.unit_only())
    @rule(data=st.data())
    def r_p_unlink_data(self, data):
        self.emit({"op": "p_unlink_data", "fill": data.draw(fills(self.D, self.P.units[0].nonrigid)),
                   "parameter": data.draw(st.booleans())}, data)

    @precondition(lambda self: self.unit_only(lambda u: u.holder != "callable") and self.FAMILY in ("linked", "dense", "spline"))
    @rule(data=st.data())
    def r_restart_late(self, data):
        u = self.P.units[0]
        self.emit({"op": "restart_late", "fill": data.draw(fills(self.D, u.nonrigid)), "N": data.draw(st.sampled_from([1, 1, 2])),
                   "holder": data.draw(st.sampled_from(["buffer", "buffer", "parameter"])),
                   "how": data.draw(st.sampled_from(["inverse", "link", "link", "none"])),
                   "ub": data.draw(st.booleans()), "inplace": data.draw(st.booleans())}, data)

    @precondition(lambda self: self.keeps_link())
    @rule()
    def r_s_drop(self):
        self.do({"op": "s_drop"})

    @precondition(lambda self: self.live() and self.S is not None and self.FAMILY == "linked")
    @rule(data=st.data())
    def r_s_call_b(self, data):
        self.do({"op": "s_call", "x": data.draw(points(self.D))})

    @precondition(lambda self: self.live() and self.S is not None)
    @rule(data=st.data())
    def r_s_call(self, data):
        self.do({"op": "s_call", "x": data.draw(points(self.D))})

    @precondition(lambda self: self.live() and self.S is not None)
    @rule()
    def r_s_update(self):
        self.do({"op": "s_update"})

    @precondition(lambda self: self.live() and self.S is not None)
    @rule()
    def r_s_fields(self):
        self.do({"op": "s_fields"})

    @precondition(lambda self: self.linked_S() and not self.S.composite)
    @rule(data=st.data())
    def r_s_unlink(self, data):
        u = self.S.units[0]
        self.do({"op": "s_unlink_data", "fill": data.draw(fills(self.D, u.nonrigid))})

    # -- transforms derived from a derived transform (chains of links, copies of linked transforms)
    def draw_t_derive(self, data):
        S = self.S
        hows = ["copy"] if not S.composite else []
        if self.invertible(S):
            hows += ["inverse/link", "inverse/link", "inverse"]
        if not S.composite:
            hows += ["link_other", "unlink_copy", "wrap"]
            if S.units[0].holder != "callable" and S.units[0].link is None:
                hows.append("data_copy")
        how = data.draw(st.sampled_from(hows))
        if how == "copy":
            return {"op": "copy", "who": "T", "observe": self.draw_observe(data)}
        if how == "link_other":
            return self.draw_link_other(data, "T")
        if how == "unlink_copy":
            return {"op": "unlink_copy", "who": "T", "fill": data.draw(fills(self.D, S.units[0].nonrigid))}
        if how == "wrap":
            return self.draw_wrap(data, "T")
        if how == "data_copy":
            return {"op": "data_copy", "who": "T", "fill": data.draw(fills(self.D, S.units[0].nonrigid)), "observe": self.draw_observe(data)}
        return self.inverse_op(data, how == "inverse/link", data.draw(st.booleans()), "T")

    @precondition(lambda self: self.live() and self.S is not None and (not self.S.composite or self.invertible(self.S)))
    @rule(data=st.data())
    def r_t_derive(self, data):
        self.do(self.draw_t_derive(data))

    @precondition(lambda self: self.live() and self.T is not None)
    @rule(data=st.data())
    def r_t_call(self, data):
        self.do({"op": "t_call", "x": data.draw(points(self.D))})

    @precondition(lambda self: self.live() and self.T is not None)
    @rule(which=st.sampled_from(["t_update", "t_fields"]))
    def r_t_observe(self, which):
        self.do({"op": which})

    @precondition(lambda self: self.live() and self.T is not None and not self.T.composite and self.T.units[0].link is not None)
    @rule(data=st.data())
    def r_t_unlink(self, data):
        self.do({"op": "t_unlink_data", "fill": data.draw(fills(self.D, self.T.units[0].nonrigid))})

    # -- replacement of the parameters a linked transform refers to, then observation of the linked transform
    def draw_replace(self, data, extra=False):
        """Ops that make a member of P hold other parameters: replacing the tensor (data_ with the same / another batch
        size, public setter, fit), rewriting it in place (reset_parameters, optimiser-style edit), or - with callable
        parameters - another prediction (re-conditioning / edited closure) fetched by update() or a call."""
        idx = [i for i, u in enumerate(self.P.units) if u.link is None]
        i = data.draw(st.sampled_from(idx))
        u = self.P.units[i]
        if u.holder == "callable":
            how = data.draw(st.sampled_from(["condition_", "edit", "reset"] + ([] if self.P.composite else ["unlink_data"])
                                            + (["condition_"] if extra else [])))
        else:
            hows = ["data_", "data_", "data_N", "edit", "reset"]
            if u.kind == "lin":
                hows += ["set", "set"]
            if u.kind == "ddf" and not self.P.composite:
                hows.append("fit")
            if not self.P.composite:
                hows.append("unlink_data")
            if extra:
                hows.append("condition_")
                if u.nonrigid:
                    hows.append("clear_buffers")
                if u.nonrigid and not self.P.composite:
                    hows += ["grid_", "grid_"]
            how = data.draw(st.sampled_from(hows))
        if how in ("data_", "data_N"):
            N = u.batch() if how == "data_" else 3 - u.batch() if u.batch() in (1, 2) else 1
            ops = [{"op": "data_", "target": i, "fill": data.draw(fills(self.D, u.nonrigid)), "N": N}]
        elif how == "set":
            ops = [{"op": "set", "target": i, "fill": data.draw(fills(self.D, False)),
                    "N": data.draw(st.sampled_from([u.batch(), 3 - u.batch() if u.batch() in (1, 2) else 1]))}]
        elif how == "fit":
            ops = [{"op": "fit", "fill": data.draw(fills(self.D))}]
        elif how == "unlink_data":
            ops = [{"op": "p_unlink_data", "fill": data.draw(fills(self.D, u.nonrigid)), "parameter": data.draw(st.booleans())}]
        elif how == "reset":
            ops = [{"op": "reset", "target": i}]
        elif how == "condition_":
            c = data.draw(conds())
            ops = [{"op": "condition_", "args": c["args"], "kwargs": c["kwargs"]}]
        elif how == "clear_buffers":
            ops = [{"op": "clear_buffers"}]
        elif how == "grid_":
            ops = [self.draw_grid_op(data, "grid_")]
        else:
            ops = [{"op": "edit", "target": i, "how": {"kind": "add", "key": data.draw(st.integers(0, 999)), "amp": 0.1}}]
        for op in ops:
            op["probe"] = False
        if not extra and (u.holder == "callable" or data.draw(st.sampled_from([False, False, True]))):
            ops.append(data.draw(st.sampled_from([{"op": "update"}, {"op": "call"}])))  # P fetches / buffers its new state
        return ops

    def ensure_linked_S(self, data):
        if self.linked_S():
            return
        ways = []
        if self.invertible(self.P):
            ways += ["inverse", "inverse"]
        if not self.P.composite:
            ways += ["link_other"]
        if data.draw(st.sampled_from(ways)) == "inverse":
            self.do(self.inverse_op(data, True, data.draw(st.booleans())))
        else:
            self.do(self.draw_link_other(data))

    def linkable(self):
        return self.live() and (self.invertible(self.P) or not self.P.composite)

    def scn_link_replace(self, data):
        self.ensure_linked_S(data)
        if not self.linked_S():
            return
        before = data.draw(st.sampled_from(["none", "s_call", "s_update"]))  # buffers of S computed before the replacement?
        if before != "none":
            self.do({"op": before})
        for op in self.draw_replace(data):
            self.do(op)
        self.do({"op": data.draw(st.sampled_from(["s_call", "s_call", "s_update"]))})

    @precondition(lambda self: self.linkable())
    @rule(data=st.data())
    def r_scn_link_replace(self, data):
        self.scn_link_replace(data)

    @precondition(lambda self: self.linkable() and self.FAMILY in ("linked", "composite"))
    @rule(data=st.data())
    def r_scn_link_replace_b(self, data):
        self.scn_link_replace(data)

    @precondition(lambda self: self.linkable() and self.FAMILY in ("linked", "composite", "callable"))
    @rule(data=st.data())
    def r_scn_chain(self, data):
        """A transform derived from a linked transform (link to a link, copy / inverse / unlinked copy of it) while the
        root replaces its parameters; the intermediate transform is updated (or not) before the derived one is used."""
        self.ensure_linked_S(data)
        if not self.linked_S() or (self.S.composite and not self.invertible(self.S)):
            return
        if self.T is None or data.draw(st.booleans()):
            self.do(self.draw_t_derive(data))
        if self.T is None:
            return
        for op in self.draw_replace(data):
            self.do(op)
        mid = data.draw(st.sampled_from(["none", "s_update", "s_call", "s_unlink_data"]))
        if mid == "s_unlink_data":
            if not self.S.composite and self.S.units[0].link is not None:
                self.do({"op": mid, "fill": data.draw(fills(self.D, self.S.units[0].nonrigid))})
        elif mid != "none":
            self.do({"op": mid})
        self.do({"op": data.draw(st.sampled_from(["t_call", "t_call", "t_update"]))})

    # -- every read path of every transform under test
    READ_HOWS = ["tensor", "disp", "flow", "points", "attrs", "attrs", "tcall"]

    def draw_read(self, data, who=None):
        if who is None:
            who = data.draw(st.sampled_from(["P"] + [w for w, s in (("S", self.S), ("T", self.T)) if s is not None]))
        return {"op": "read", "who": who, "how": data.draw(st.sampled_from(self.READ_HOWS))}

    @precondition(lambda self: self.live())
    @rule(data=st.data())
    def r_read(self, data):
        self.do(self.draw_read(data))

    @precondition(lambda self: self.has(lambda u: u.holder == "callable" and u.link is None))
    @rule(data=st.data())
    def r_scn_repredict(self, data):
        """A transform with callable parameters has predicted (update / call), then its prediction changes - other
        conditioning, edited closure, reset of the buffered prediction - and the new state is not looked at (only the public
        buffers are read); then one of the transforms under test is read through one path."""
        self.do({"op": data.draw(st.sampled_from(["update", "call"]))})
        i = self.draw_target(data, lambda u: u.holder == "callable" and u.link is None)
        how = data.draw(st.sampled_from(["condition_", "condition_", "edit", "reset"]))
        if how == "condition_":
            c = data.draw(conds())
            op = {"op": "condition_", "args": c["args"], "kwargs": c["kwargs"]}
        elif how == "edit":
            op = {"op": "edit", "target": i, "how": {"kind": "add", "key": data.draw(st.integers(0, 999)), "amp": 0.1}}
        else:
            op = {"op": "reset", "target": i}
        op.update(observe="attrs", probe=False)
        self.do(op)
        if not self.dead:
            self.do(self.draw_read(data))

    def derivable(self):
        return self.live() and (self.invertible(self.P) or not self.P.composite)

    @precondition(lambda self: self.derivable() and self.FAMILY in ("dense", "spline", "composite"))
    @rule(data=st.data())
    def r_scn_replace_derive_b(self, data):
        self.scn_replace_derive(data)

    @precondition(lambda self: self.derivable())
    @rule(data=st.data())
    def r_scn_replace_derive(self, data):
        self.scn_replace_derive(data)

    def scn_replace_derive(self, data):
        """Buffers computed (or not) -> the parameters / grid / conditioning are replaced or reset and the new state is NOT
        looked at -> a transform is derived from the primary in that state (inverse(link, update_buffers) / .inv, copy,
        data(arg) copy, SequentialTransform around it and the inverse of that) -> the derived transform is read through
        one path without having been called."""
        warm = data.draw(st.sampled_from(["none", "update", "call", "call"]))
        if warm != "none":
            self.do({"op": warm})
        ops = self.draw_replace(data, extra=True)
        ops[0]["observe"] = data.draw(st.sampled_from(self.OBSERVE_LATER))
        for op in ops:
            self.do(op)
        if self.dead or not self.derivable():
            return
        ways = []
        if self.invertible(self.P):
            ways += ["inverse", "inverse", "inverse"]
        if not self.P.composite:
            ways += ["copy", "wrap", "wrap"]
            if self.P.units[0].holder != "callable" and self.P.units[0].link is None:
                ways.append("data_copy")
        way = data.draw(st.sampled_from(ways))
        who = "S"
        if way == "inverse":
            op = self.inverse_op(data, data.draw(st.booleans()), data.draw(st.sampled_from([True, True, False])))
        elif way == "copy":
            op = {"op": "copy"}
        elif way == "data_copy":
            op = {"op": "data_copy", "fill": data.draw(fills(self.D, self.P.units[0].nonrigid))}
        else:
            op = self.draw_wrap(data)
        op["observe"] = "none"
        self.do(op)
        if self.S is None:
            return
        if way == "wrap" and self.invertible(self.S) and data.draw(st.booleans()):
            op = self.inverse_op(data, data.draw(st.booleans()), data.draw(st.sampled_from([True, True, False])), "T")
            op["observe"] = "none"
            self.do(op)
            who = "T" if self.T is not None else "S"
        self.do(self.draw_read(data, who))

    @precondition(lambda self: self.has(lambda u: u.kind == "lin" and u.holder != "callable" and u.link is None))
    @rule(data=st.data())
    def r_set(self, data):
        i = self.draw_target(data, lambda u: u.kind == "lin" and u.holder != "callable" and u.link is None)
        self.emit({"op": "set", "target": i, "fill": data.draw(fills(self.D, False)), "N": data.draw(st.sampled_from([1, 1, 2]))}, data)


def _family(name):
    return type("C09" + name.capitalize(), (C09Machine,), {"FAMILY": name})


MACHINES = {f: _family(f) for f in ("dense", "spline", "callable", "linked", "composite")}


def _runner(f):
    def run(case):
        m = replay_machine(MACHINES[f], case)
        return {"nontrivial": m.nt, "ratio": m.maxratio, "labels": m.run_labels()}

    return run


def replay_machine(cls, case):
    m = cls.__new__(cls)
    C09Machine.__init__(m)
    m.ctx = None
    m.init_case = case["init"]
    m.start(case["init"])
    m.started = True
    for op in case["steps"]:
        m.steps.append(op)
        try:
            m.apply(op)
        except Skip:
            m.steps.pop()
    return m


# =======================================================================================
# GenericSpatialTransform: parameters predicted by one callable for all members, assigned by update() through
# data_() of each member (a REPLACEMENT on every update), linked / unlinked inverse composites


class GNet:
    """Callable returning the parameter dictionary of a GenericSpatialTransform (closure over one tensor per member)."""

    def __init__(self, bases: dict, weights: dict, keys: dict):
        self.bases, self.weights, self.keys = bases, weights, keys
        self.calls = 0

    def __call__(self, *args, **kwargs):
        self.calls += 1
        a = sum(float(x) for x in args) + float(kwargs.get("k", 0.0))
        return {self.keys[n]: self.bases[n] + a * self.weights[n] for n in self.bases}


G_AFFINE = {"T": ("translation", "Translation", "offset"), "R": ("rotation", "EulerRotation", "angles"),
            "S": ("scaling", "AnisotropicScaling", "scales")}
G_NONRIGID = {"DDF": "ddf", "SVF": "svf", "FFD": "ffd", "SVFFD": "svffd"}


class GenericModel:
    """Model of a GenericSpatialTransform with callable parameters: what the callable closes over, the conditioning,
    and the parameters the members hold = the prediction assigned by the last update() / call."""

    def __init__(self, init: dict):
        from deepali.spatial.generic import TransformConfig

        S = _sp()
        self.grid = init["grid"]
        self.D = D = len(self.grid["size"])
        cfg = init["config"]
        comps = cfg["transform"].split(" o ")
        nonrigid = [c for c in comps if c != "Affine"]
        self.flip = bool(cfg.get("flip"))
        # order of composition: documented function-composition notation, the right-most component is applied first;
        # affine_model in matrix notation, i.e. the right-most letter is applied first
        aff = [G_AFFINE[k] for k in reversed(cfg["affine_model"])] if "Affine" in comps else []
        self.members = []  # (name, Unit)
        for name, cls, _ in aff:
            opts = {"order": cfg["rotation_model"]} if cls == "EulerRotation" else {}
            self.members.append((name, Unit({"kind": "lin", "cls": cls, "opts": opts, "holder": "buffer"}, self.grid)))
        if nonrigid:
            kind = G_NONRIGID[nonrigid[0]]
            cps = int(cfg.get("cps", 1))
            opts = {"stride": [cps] * D, "transpose": False} if kind in ("ffd", "svffd") else {"stride": 1, "resize": True}
            if kind in ("svf", "svffd"):
                # the constructor passes config.scaling_and_squaring_steps on to an SVF only; SVFFD keeps the default
                opts.update(scale=None, steps=int(cfg["steps"]) if kind == "svf" else None)
            u = ("nonrigid", Unit({"kind": kind, "opts": opts, "holder": "buffer"}, self.grid))
            self.members = self.members + [u] if comps[-1] == "Affine" else [u] + self.members
        self.keys = {n: (n if not init.get("alt_keys") else {"translation": "offset", "rotation": "angles", "scaling": "scales",
                                                             "nonrigid": "vfield"}[n]) for n, _ in self.members}
        self.N = int(init.get("N", 1))
        self.bases = {}
        self.weights = {}
        for i, (n, u) in enumerate(self.members):
            self.bases[n] = Cell(self.content(u, init["fills"][i % len(init["fills"])], self.N))
            w = init["weights"][i % len(init["weights"])]
            shp = u.data_shape()
            self.weights[n] = (torch.tensor([w[j % len(w)] for j in range(D)], dtype=torch.float32).reshape((1, D) + (1,) * D)
                               if u.nonrigid else vec_tensor(w, 1, shp))
        self.net = GNet({n: c.value.clone() for n, c in self.bases.items()}, self.weights, self.keys)
        self.cond = ([], {})
        self.held = None  # parameters assigned by the last update()
        config = TransformConfig(transform=cfg["transform"], affine_model=cfg["affine_model"], rotation_model=cfg["rotation_model"],
                                 control_point_spacing=int(cfg.get("cps", 1)), scaling_and_squaring_steps=int(cfg["steps"]),
                                 flip_grid_coords=self.flip)
        self.real = S.GenericSpatialTransform(make_grid(self.grid), params=self.net, config=config)
        names = [n for n, _ in self.real.named_transforms()]
        if names != [n for n, _ in self.members]:
            raise Skip(f"member order {names} differs from the modelled order")  # input assumption, not part of C09

    @staticmethod
    def content(u: Unit, fill: dict, N: int) -> torch.Tensor:
        if u.nonrigid:
            return u.content(fill if fill["kind"] != "vec" else {"kind": "const", "v": (fill["v"] * 3)[:3]}, N)
        return u.content(fill if fill["kind"] == "vec" else {"kind": "vec", "v": [0.11, -0.07, 0.05]}, N)

    def predict(self, cond) -> dict:
        """Parameters update() assigns for conditioning `cond` (documented flip of the coordinate order included)."""
        a = sum(float(x) for x in cond[0]) + float(cond[1].get("k", 0.0))
        out = {}
        for n, u in self.members:
            v = self.bases[n].value + a * self.weights[n]
            if self.flip:
                v = v.flip(1) if u.nonrigid else v.flip(-1)
            out[n] = v.clone()
        return out

    def twin(self, values: dict, inverse: bool = False):
        S = _sp()
        ts = []
        for n, u in (reversed(self.members) if inverse else self.members):
            m = u.derive()
            if inverse:
                if u.kind == "lin":
                    m.invert = True
                else:
                    m.sign = -1.0
            ts.append(m.build(values[n], holder="buffer"))
        return S.SequentialTransform(make_grid(self.grid), *ts)


def run_generic(case: dict):
    S = _sp()
    init = case["init"]
    g = GenericModel(init)
    x0 = torch.tensor([init["x"]], dtype=torch.float32)
    sec = None  # {"real", "link", "cond"}
    ratio = [0.0]
    labels = {"transform=" + init["config"]["transform"], "affine=" + init["config"]["affine_model"], f"flip={g.flip}", f"D={g.D}"}
    changes = set()
    nt = [False]
    last = ["init"]

    def close(a, e, kind, what):
        a, e = a.detach(), e.detach()
        if tuple(a.shape) != tuple(e.shape):
            raise Violation(kind + ":shape", f"{what}: shape {tuple(a.shape)} != twin {tuple(e.shape)}")
        sc = max(1.0, float(e.abs().max()) if e.numel() else 1.0)
        ratio[0] = max(ratio[0], check_close(a, e, TWIN_K * EPS32 * sc, kind, what))
        if len(changes) >= 2:
            nt[0] = True

    def cmp_fields(real, tw, kind, what):
        for w in ("tensor", "disp"):
            close(getattr(real, w)(), getattr(tw, w)(), f"{kind}{w}_mismatch:after={last[0]}", f"{what}.{w}() vs fresh twin")

    def sec_expected():
        # linked: "directly access the parameters from this transformation" = what the members of P hold now;
        # not linked: its own update() evaluates the callable with its own conditioning
        return g.held if sec["link"] else g.predict(sec["cond"])

    for op in case["steps"]:
        name = op["op"]
        if name == "edit":
            n, _ = g.members[int(op["target"]) % len(g.members)]
            with torch.no_grad():
                if op["how"]["kind"] == "scale" or n == "scaling":
                    c = float(op["how"].get("c", 1.25))
                    g.net.bases[n].mul_(c)
                    g.bases[n].value.mul_(c)
                else:
                    d = torch.tensor(hash_noise(tuple(g.bases[n].value.shape), key=int(op["how"]["key"]), lo=-float(op["how"]["amp"]),
                                                hi=float(op["how"]["amp"])), dtype=torch.float32)
                    g.net.bases[n].add_(d)
                    g.bases[n].value.add_(d)
            changes.add("edit")
            last[0] = "edit"
        elif name == "renew":  # the callable closes over new tensors (other batch size possible)
            g.N = int(op["N"])
            for i, (n, u) in enumerate(g.members):
                v = g.content(u, op["fills"][i % len(op["fills"])], g.N)
                g.net.bases[n] = v.clone()
                g.bases[n] = Cell(v.clone())
            changes.add("renew")
            last[0] = "renew"
            labels.add("renew")
        elif name == "condition_":
            g.real.condition_(*[torch.tensor(float(a)) for a in op["args"]], **{k: torch.tensor(float(v)) for k, v in op["kwargs"].items()})
            g.cond = (list(op["args"]), dict(op["kwargs"]))
            changes.add("condition_")
            last[0] = "condition_"
        elif name == "update":
            g.real.update()
            g.held = g.predict(g.cond)
            cmp_fields(g.real, g.twin(g.held), "g_", "generic")
        elif name == "call":
            x = torch.tensor([op["x"]], dtype=torch.float32) if "x" in op else x0
            y = g.real(x)
            g.held = g.predict(g.cond)
            close(y, g.twin(g.held)(x), f"g_call_mismatch:after={last[0]}", "generic(x) vs fresh twin")
        elif name == "inverse":
            if any(u.kind in ("ddf", "ffd") for _, u in g.members):
                continue
            link = bool(op["link"])
            if link and g.held is None:
                continue  # members without parameters yet: nothing to link to that could be evaluated
            real = g.real.inverse(link=link, update_buffers=bool(op["update_buffers"]))
            if not isinstance(real, S.GenericSpatialTransform) or real is g.real:
                raise Violation("g_inverse_not_a_copy", f"inverse() returned {type(real).__name__}")
            sec = {"real": real, "link": link, "cond": (list(g.cond[0]), dict(g.cond[1]))}
            changes.add("inverse/link" if link else "inverse")
            labels.add("inverse/link" if link else "inverse")
        elif name in ("s_call", "s_update"):
            if sec is None:
                continue
            tag = "g_s_linked_" if sec["link"] else "g_s_"
            if name == "s_call":
                x = torch.tensor([op["x"]], dtype=torch.float32) if "x" in op else x0
                y = sec["real"](x)
                close(y, g.twin(sec_expected(), inverse=True)(x), f"{tag}call_mismatch:after={last[0]}",
                      "inverse of generic transform (x) vs fresh twin")
            else:
                sec["real"].update()
                cmp_fields(sec["real"], g.twin(sec_expected(), inverse=True), tag, "inverse of generic transform")
            if sec["link"]:
                labels.add("linked-inverse-compared")
        else:
            raise ValueError(name)
    return {"ratio": ratio[0], "nontrivial": nt[0], "labels": sorted(labels)}


@st.composite
def generic_cases(draw):
    D = draw(gen.dims())
    nonrigid = draw(st.sampled_from([None, None, "SVF", "SVF", "SVFFD", "SVFFD", "DDF", "FFD"]))
    affine = draw(st.permutations(["T", "R", "S"]).flatmap(lambda p: st.integers(1, 3).map(lambda k: "".join(p[:k]))))
    if nonrigid is None:
        transform = "Affine"
    else:
        transform = draw(st.sampled_from([nonrigid, "Affine o " + nonrigid, nonrigid + " o Affine"]))
    flip = "R" not in affine and draw(st.sampled_from([False, False, True]))
    q = gen.qfloat
    vec = st.fixed_dictionaries({"kind": st.just("vec"), "v": st.lists(q(-AMP, AMP, 0.01), min_size=2, max_size=4)})
    fl = st.one_of(vec, fills(D))
    init = {"grid": draw(c09_grids(D, ac=True if nonrigid in ("FFD", "SVFFD") else None, max3=5, max2=7)),
            "config": {"transform": transform, "affine_model": affine, "rotation_model": draw(st.sampled_from(["ZXZ", "XYZ", "ZYX"])),
                       "steps": draw(st.integers(0, 3)), "cps": draw(st.sampled_from([1, 2])) if nonrigid in ("FFD", "SVFFD") else 1,
                       "flip": flip},
            "alt_keys": draw(st.booleans()), "N": draw(st.sampled_from([1, 1, 2])),
            "fills": draw(st.lists(fl, min_size=2, max_size=4)),
            "weights": draw(st.lists(st.lists(q(-0.2, 0.2, 0.01), min_size=2, max_size=3), min_size=1, max_size=3)),
            "x": draw(points(D))}
    change = st.one_of(
        st.fixed_dictionaries({"op": st.just("edit"), "target": st.integers(0, 3), "how": st.one_of(
            st.fixed_dictionaries({"kind": st.just("scale"), "c": st.sampled_from([0.5, 0.75, 1.25])}),
            st.fixed_dictionaries({"kind": st.just("add"), "key": st.integers(0, 999), "amp": q(0.02, 0.2, 0.01)}))}),
        st.fixed_dictionaries({"op": st.just("renew"), "N": st.sampled_from([1, 2]), "fills": st.lists(fl, min_size=2, max_size=4)}),
        conds().map(lambda c: {"op": "condition_", "args": c["args"], "kwargs": c["kwargs"]}))
    observe = st.one_of(st.just({"op": "update"}), st.fixed_dictionaries({"op": st.just("call"), "x": points(D)}), st.just({"op": "call"}))
    inverse = st.fixed_dictionaries({"op": st.just("inverse"), "link": st.sampled_from([True, True, False]), "update_buffers": st.booleans()})
    sobs = st.one_of(st.just({"op": "s_call"}), st.just({"op": "s_update"}), st.fixed_dictionaries({"op": st.just("s_call"), "x": points(D)}))
    # blocks: (a) changes then an observation of the transform; (b) observation (members hold parameters), inverse,
    # optional use of the inverse (its buffers exist), changes, observation (update() REPLACES the members' tensors), use
    # of the inverse; (c) use of the inverse
    block_a = st.tuples(st.lists(change, min_size=1, max_size=2), observe).map(lambda t: t[0] + [t[1]])
    block_b = st.tuples(observe, inverse, st.lists(sobs, max_size=1), st.lists(change, min_size=1, max_size=2), st.lists(observe, max_size=1),
                        sobs).map(lambda t: [t[0], t[1]] + t[2] + t[3] + t[4] + [t[5]])
    block_c = sobs.map(lambda o: [o])
    blocks = draw(st.lists(st.one_of(block_a, block_b, block_b, block_c), min_size=1, max_size=4))
    return {"init": init, "steps": [o for b in blocks for o in b]}


RULE = ("init: family member, grid (D, size, spacing, centre, rotation/permutation/reflection, align_corners), constructor "
        "options, holder (buffer/Parameter/callable), content (world-affine, hash-noise, constant); steps: rules drawn by "
        "Hypothesis with state-dependent arguments; non-trivial = >= 2 state-changing operations of different kinds "
        "precede a compared observation")

FACETS = [
    Facet("dense", _runner("dense"), machine=make_machine(MACHINES["dense"]), rule=RULE, quick=80, thorough=1000,
          quick_steps=20, thorough_steps=30, shards=8, quick_shards=1),
    Facet("spline", _runner("spline"), machine=make_machine(MACHINES["spline"]), rule=RULE, quick=50, thorough=600,
          quick_steps=20, thorough_steps=30, shards=8, quick_shards=1),
    Facet("callable", _runner("callable"), machine=make_machine(MACHINES["callable"]), rule=RULE, quick=70, thorough=1000,
          quick_steps=20, thorough_steps=30, shards=8, quick_shards=1),
    Facet("linked", _runner("linked"), machine=make_machine(MACHINES["linked"]), rule=RULE, quick=80, thorough=1000,
          quick_steps=20, thorough_steps=30, shards=8, quick_shards=1),
    Facet("composite", _runner("composite"), machine=make_machine(MACHINES["composite"]), rule=RULE, quick=60, thorough=600,
          quick_steps=20, thorough_steps=30, shards=8, quick_shards=1),
    Facet("generic", run_generic, strategy=generic_cases, quick=160, thorough=3000, shards=8, quick_shards=1,
          rule="GenericSpatialTransform (Affine = subset/order of T, R, S; optional DDF/SVF/FFD/SVFFD before or after it) whose "
               "parameters are predicted by one callable; steps: in-place edits / replacement of the tensors the callable closes "
               "over (other batch size), condition_, update, call, inverse(link) and call/update of the inverse; non-trivial = "
               ">= 2 different state-changing operations precede a compared observation"),
]
